--------------------------- MODULE MC_NreplSession ---------------------------
EXTENDS NreplSession
(* Client scripts: the same as the C31 scenarios of py/gvlib/checks/c31.py (one session). *)
ScriptI1 == <<[op |-> "eval", id |-> "e1", steps |-> 0], [op |-> "await", n |-> 3], [op |-> "interrupt"]>>
ScriptI2 == <<[op |-> "eval", id |-> "e1", steps |-> 0], [op |-> "interrupt"]>>
ScriptI3 == <<[op |-> "eval", id |-> "e1", steps |-> 2], [op |-> "interrupt"], [op |-> "eval", id |-> "e2", steps |-> 2]>>
ScriptI4 == <<[op |-> "eval", id |-> "e1", steps |-> 4], [op |-> "eval", id |-> "e2", steps |-> 1], [op |-> "await", n |-> 2], [op |-> "interrupt"]>>
=============================================================================
