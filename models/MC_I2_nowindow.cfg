CONSTANTS
  Script <- ScriptI2
  MaxSteps = 8
INIT Init
NEXT Next
INVARIANTS TypeOK InterruptStopsOutsideWindow IdleInterruptHarmless
CHECK_DEADLOCK FALSE
