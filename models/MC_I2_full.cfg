CONSTANTS
  Script <- ScriptI2
  MaxSteps = 8
INIT Init
NEXT Next
INVARIANTS TypeOK InterruptStops IdleInterruptHarmless
CHECK_DEADLOCK FALSE
