---------------------------- MODULE NreplSession ----------------------------
(* Protocol model of one nREPL session of src/nrepl.rs: the connection handler  *)
(* (client), the session worker and the interrupt flag.  Action names are the    *)
(* scheduling-point labels of the controlled scheduler (verif_rt::sched), so a   *)
(* behaviour of this model is a word over the same alphabet as a recorded trace  *)
(* of the real code:                                                             *)
(*   send.ch1        handler queues an eval on the session's request channel     *)
(*   interrupt.store handler sets the session's interrupt flag                   *)
(*   client.await    client script waits until n interpreter steps have run      *)
(*   recv.ch1        worker takes the next request off the queue ("dequeued")    *)
(*   worker.reset    worker clears a stray interrupt flag                        *)
(*   eval.step       one interpreter step: test-and-clear the flag, else work    *)
(*   send.ch0        worker sends the final `done` message of the request        *)
(* Everything else the real code does between these points (spawning and         *)
(* joining the output flusher, draining the output buffers, value messages) is   *)
(* invisible here; the conformance check projects real traces onto this          *)
(* alphabet.                                                                     *)
EXTENDS Naturals, Sequences, FiniteSets

CONSTANTS Script,     \* sequence of client actions, see below
          MaxSteps    \* horizon: total interpreter steps explored

(* Client actions:  [op |-> "eval", id |-> "e1", steps |-> n]   n = 0 means endless *)
(*                  [op |-> "interrupt"]                                              *)
(*                  [op |-> "await", n |-> k]                                         *)

VARIABLES cpc,        \* index of the next client action
          queue,      \* request channel of the session (sequence of eval ids)
          wpc,        \* worker: "idle" | "deq" | "run" | "done"
          cur,        \* eval the worker is handling, or "none"
          left,       \* steps the current eval still has to run (0 with endless = forever)
          endless,    \* is the current eval endless
          flag,       \* the session's interrupt flag
          status,     \* id -> "none" | "ok" | "interrupted"
          steps,      \* interpreter steps executed so far (all evals)
          target,     \* eval that was dequeued and unfinished when the flag was stored, or "none"/"idle"
          stepsAfter, \* steps of `target` executed after the store
          window,     \* the store landed between the worker's dequeue and its flag reset
          act         \* label of the last action (for trace export)

vars == <<cpc, queue, wpc, cur, left, endless, flag, status, steps, target, stepsAfter, window, act>>

EvalIds == {Script[i].id : i \in {j \in 1..Len(Script) : Script[j].op = "eval"}}
StepsOf(id) == LET i == CHOOSE j \in 1..Len(Script) : Script[j].op = "eval" /\ Script[j].id = id IN Script[i].steps

Init == /\ cpc = 1 /\ queue = <<>> /\ wpc = "idle" /\ cur = "none" /\ left = 0 /\ endless = FALSE
        /\ flag = FALSE /\ status = [e \in EvalIds |-> "none"] /\ steps = 0
        /\ target = "unset" /\ stepsAfter = 0 /\ window = FALSE /\ act = "init"

ClientSend == /\ cpc <= Len(Script) /\ Script[cpc].op = "eval"
              /\ queue' = Append(queue, Script[cpc].id) /\ cpc' = cpc + 1 /\ act' = "send.ch1"
              /\ UNCHANGED <<wpc, cur, left, endless, flag, status, steps, target, stepsAfter, window>>

ClientInterrupt == /\ cpc <= Len(Script) /\ Script[cpc].op = "interrupt"
                   /\ flag' = TRUE /\ cpc' = cpc + 1 /\ act' = "interrupt.store"
                   /\ target' = IF wpc \in {"deq", "run"} THEN cur ELSE "idle"
                   /\ stepsAfter' = 0 /\ window' = (wpc = "deq")
                   /\ UNCHANGED <<queue, wpc, cur, left, endless, status, steps>>

ClientAwait == /\ cpc <= Len(Script) /\ Script[cpc].op = "await" /\ steps >= Script[cpc].n
               /\ cpc' = cpc + 1 /\ act' = "client.await"
               /\ UNCHANGED <<queue, wpc, cur, left, endless, flag, status, steps, target, stepsAfter, window>>

WorkerRecv == /\ wpc = "idle" /\ queue # <<>>
              /\ cur' = Head(queue) /\ queue' = Tail(queue) /\ wpc' = "deq" /\ act' = "recv.ch1"
              /\ UNCHANGED <<cpc, left, endless, flag, status, steps, target, stepsAfter, window>>

WorkerReset == /\ wpc = "deq"
               /\ flag' = FALSE /\ wpc' = "run" /\ endless' = (StepsOf(cur) = 0)
               /\ act' = "worker.reset"
               /\ UNCHANGED <<cpc, queue, cur, left, status, steps, target, stepsAfter, window>>

(* One interpreter step.  A finite eval may finish after any step (the model does not fix how   *)
(* many steps a program takes, so every real program of the scenario is covered); an endless   *)
(* one never finishes on its own.                                                              *)
WorkerStep == /\ wpc = "run" /\ steps < MaxSteps
              /\ steps' = steps + 1 /\ act' = "eval.step"
              /\ stepsAfter' = IF target = cur THEN stepsAfter + 1 ELSE stepsAfter
              /\ IF flag
                    THEN /\ flag' = FALSE /\ status' = [status EXCEPT ![cur] = "interrupted"] /\ wpc' = "done"
                    ELSE /\ UNCHANGED flag
                         /\ \/ /\ wpc' = "run" /\ UNCHANGED status
                            \/ /\ ~endless /\ wpc' = "done" /\ status' = [status EXCEPT ![cur] = "ok"]
              /\ UNCHANGED <<cpc, queue, cur, left, endless, target, window>>

WorkerDone == /\ wpc = "done"
              /\ wpc' = "idle" /\ cur' = "none" /\ act' = "send.ch0"
              /\ UNCHANGED <<cpc, queue, left, endless, flag, status, steps, target, stepsAfter, window>>

Next == ClientSend \/ ClientInterrupt \/ ClientAwait \/ WorkerRecv \/ WorkerReset \/ WorkerStep \/ WorkerDone

Spec == Init /\ [][Next]_vars

(* C31, first clause: an interrupt handled while an eval of the session is in flight stops it:  *)
(* after the store the target executes at most the one step that sees the flag, and it ends     *)
(* `interrupted`.                                                                               *)
Lost == /\ target \in EvalIds /\ status[target] # "interrupted"
        /\ \/ stepsAfter >= 2
           \/ (stepsAfter >= 1 /\ (wpc # "run" \/ cur # target))
InterruptStops == ~Lost

(* The same clause for stores that land after the worker's flag reset (the part of the          *)
(* protocol that is expected to hold; the dequeue/reset window is the recorded known finding).  *)
InterruptStopsOutsideWindow == window \/ ~Lost

(* C31, second clause: an interrupt handled while the session is idle, or while another eval   *)
(* is in flight, does not cancel a later eval.                                                 *)
IdleInterruptHarmless == \A e \in EvalIds : status[e] = "interrupted" => target = e

TypeOK == /\ wpc \in {"idle", "deq", "run", "done"} /\ flag \in BOOLEAN /\ steps \in 0..MaxSteps
=============================================================================
