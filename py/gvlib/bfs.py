"""E2 engine: explicit-state breadth-first search over request histories of one JSON session.

A *state* is the history that reaches it.  A *transition* replays `hist + [ev]` (+ optional tail
probes) in a fresh `session` job, so the transition function is the real `handle_request_in_worker`
on a fresh `Env` and nothing is shared between executions.  States are deduplicated by the canonical
projection (`canon_env` in /repo/src/verif_hooks.rs) after the last request of the history.

What the engine itself verifies (all of these are MACHINERY problems, never verdicts):
  * determinism: when `hist + [ev]` is replayed, the responses and canon strings of the prefix
    `hist` must be byte-identical to what was recorded when `hist` was first executed;
  * canonicalisation: for a state reached by two different histories, the responses to every
    alphabet event (and the successor canon) from both histories must agree
    (`crosscheck` alternative histories per state are replayed).
"""
import hashlib
import json

from .core import Machinery


def h(s):
    return hashlib.sha1(s.encode("utf-8", "surrogatepass")).hexdigest()[:20]


def run_req(src, **extra):
    """The request line a client sends to evaluate `src` (or run a `:command`)."""
    d = {"method": "run", "input": src}
    d.update(extra)
    return json.dumps(d)


class Transition:
    """One executed transition, handed to the `on_transition` callback."""
    __slots__ = ("hist", "ev", "labels", "responses", "tail", "panic", "crash", "timeout", "canon_before", "canon_after",
                 "requests", "raw")

    def __repr__(self):
        return f"<T {self.labels}>"


class Bfs:
    def __init__(self, ctx, alphabet, max_depth, on_transition, tail=(), tick_limit=200000, crosscheck=1,
                 norm=None, batch=16, timeout=30, max_states=None, chunk=6000):
        """alphabet: list of (label, request_line); tail: list of (label, request_line) probes appended to every job
        (observed, not part of the state). on_transition(t) -> truthy when the successor must NOT be extended (dead)."""
        self.ctx, self.alpha, self.max_depth, self.cb = ctx, list(alphabet), max_depth, on_transition
        self.tail = list(tail)
        self.tick_limit, self.crosscheck, self.batch, self.timeout = tick_limit, crosscheck, batch, timeout
        self.norm = norm or (lambda texts: list(texts))
        self.max_states = max_states
        self.chunk = chunk          # jobs per pool.map call (bounds memory: every result carries canon strings)
        self.INIT = "<initial>"
        self.seen = {self.INIT: ()}        # canon hash -> representative history (tuple of alphabet indices)
        self.canon_of = {(): "<fresh Env, nothing requested yet>"}   # representative history -> canon text
        self.prefix_obs = {(): h(json.dumps([[], []]))}      # representative history -> hash of (responses, canons) of the whole history
        self.succ = {}                     # canon hash -> [(hash of normalised responses, successor canon hash)] per event
        self.alts = {}                     # canon hash -> [alternative histories]
        self.per_depth = [1]
        self.transitions = 0
        self.crosschecked = 0
        self.merged = 0
        self.dead = 0
        self.exhausted = False
        self.depth_done = 0
        self.capped = False

    # ------------------------------------------------------------------
    def _job(self, hist, ev):
        reqs = [self.alpha[i][1] for i in hist] + [self.alpha[ev][1]] + [t[1] for t in self.tail]
        return {"op": "session", "requests": reqs, "canon": True, "tick_limit": self.tick_limit}

    def labels(self, hist):
        return [self.alpha[i][0] for i in hist]

    def _obs_hash(self, r, upto):
        return h(json.dumps([r.get("responses", [])[:upto], r.get("canon", [])[:upto]]))

    def _mk(self, hist, ev, r):
        n = len(hist)
        t = Transition()
        t.hist, t.ev, t.labels = hist, ev, self.labels(hist) + [self.alpha[ev][0]]
        t.raw = r
        t.crash, t.timeout = r.get("crash"), r.get("timeout")
        t.requests = [self.alpha[i][1] for i in hist] + [self.alpha[ev][1]] + [x[1] for x in self.tail]
        resp = r.get("responses") or []
        can = r.get("canon") or []
        t.responses = resp[n] if len(resp) > n else None
        t.tail = resp[n + 1:]
        t.panic = r.get("panic")
        t.canon_before = self.canon_of.get(hist)
        t.canon_after = can[n] if len(can) > n else None
        return t

    def _rerun_timeouts(self, jobs, res):
        """A timeout under load is not a verdict: re-run alone with 10x the timeout."""
        for i, r in enumerate(res):
            if isinstance(r, dict) and "timeout" in r:
                res[i] = self.ctx.pool.one(jobs[i], timeout=self.timeout * 10)

    def _level_chunk(self, work, nxt, last_level):
        jobs = [self._job(hist, ev) for hist, ev in work]
        res = self.ctx.pool.map(jobs, batch=self.batch, timeout=self.timeout)
        self._rerun_timeouts(jobs, res)
        self.transitions += len(jobs)
        for (hist, ev), r in zip(work, res):
            n = len(hist)
            t = self._mk(hist, ev, r)
            if t.crash is None and t.timeout is None:
                if "responses" not in r:
                    raise Machinery(f"session job returned no responses: {str(r)[:300]}")
                p = t.panic
                if p is not None and p["request"] < n:
                    raise Machinery(f"non-deterministic replay: prefix of {t.labels} panicked at request {p['request']} "
                                    "although the same prefix did not panic when first executed")
                if self._obs_hash(r, n) != self.prefix_obs[hist]:
                    raise Machinery(f"non-deterministic replay: responses/canon of the prefix {self.labels(hist)} differ between two executions")
            dead = self.cb(t)
            key_before = h(self.canon_of[hist]) if hist else self.INIT
            if t.crash is not None or t.timeout is not None or (t.panic is not None and t.panic["request"] <= n) or t.canon_after is None:
                self.succ.setdefault(key_before, {})[ev] = ("<dead>", "<dead>")
                self.dead += 1
                continue
            k = h(t.canon_after)
            self.succ.setdefault(key_before, {})[ev] = (h(json.dumps(self.norm(t.responses))), k)
            if dead:
                self.dead += 1
                continue
            new_hist = hist + (ev,)
            if k not in self.seen:
                self.seen[k] = new_hist
                if not last_level:      # states found at the last level are never expanded: keep only their hash
                    self.canon_of[new_hist] = t.canon_after
                    self.prefix_obs[new_hist] = self._obs_hash(r, n + 1)
                nxt.append(new_hist)
            else:
                self.merged += 1
                a = self.alts.setdefault(k, [])
                if len(a) < self.crosscheck and len(new_hist) < self.max_depth and new_hist != self.seen[k]:
                    a.append(new_hist)

    def run(self):
        frontier = [()]
        for depth in range(1, self.max_depth + 1):
            all_work = [(hist, ev) for hist in frontier for ev in range(len(self.alpha))]
            nxt = []
            last_level = depth == self.max_depth
            for lo in range(0, len(all_work), self.chunk):
                self._level_chunk(all_work[lo:lo + self.chunk], nxt, last_level)
            self.per_depth.append(len(nxt))
            self.depth_done = depth
            frontier = nxt
            if not frontier:
                self.exhausted = True
                break
            if self.max_states and len(self.seen) > self.max_states and depth < self.max_depth:
                self.capped = True
                self.ctx.cap(f"BFS stopped after depth {depth}: {len(self.seen)} canonical states > cap {self.max_states}")
                break
        self._crosscheck()
        return self

    # ------------------------------------------------------------------
    def _crosscheck(self):
        """States reached two ways: the observable future (responses to every event, successor canon) must agree."""
        work = []
        for k, alts in self.alts.items():
            if k not in self.succ:      # representative never expanded (found at the last level / cap)
                continue
            for a in alts:
                for ev in range(len(self.alpha)):
                    if ev in self.succ[k]:
                        work.append((k, a, ev))
        if not work:
            return
        all_work = work
        for lo in range(0, len(all_work), self.chunk):
            self._crosscheck_chunk(all_work[lo:lo + self.chunk])

    def _crosscheck_chunk(self, work):
        jobs = [{"op": "session", "requests": [self.alpha[i][1] for i in a] + [self.alpha[ev][1]], "canon": True,
                 "tick_limit": self.tick_limit} for _, a, ev in work]
        res = self.ctx.pool.map(jobs, batch=self.batch, timeout=self.timeout)
        self._rerun_timeouts(jobs, res)
        self.transitions += len(jobs)
        for (k, a, ev), r in zip(work, res):
            n = len(a)
            want = self.succ[k][ev]
            if "crash" in r or "timeout" in r or ("panic" in r and r["panic"]["request"] <= n):
                got = ("<dead>", "<dead>")
                if "panic" in r and r["panic"]["request"] < n:
                    raise Machinery(f"non-deterministic replay: alternative history {self.labels(a)} panicked in its prefix")
            else:
                got = (h(json.dumps(self.norm(r["responses"][n]))), h(r["canon"][n]))
                if h(r["canon"][n - 1]) != k:
                    raise Machinery(f"non-deterministic replay: alternative history {self.labels(a)} no longer reaches the merged state")
            self.crosschecked += 1
            if got != want:
                rep = self.seen[k]
                what = "responses" if got[0] != want[0] else "successor canon"
                raise Machinery(
                    f"canonicalisation too coarse (or hidden state): histories {self.labels(rep)} and {self.labels(a)} reach the same canon "
                    f"but event {self.alpha[ev][0]!r} then differs in {what}; second history answered {str(r.get('responses', [[]])[-1])[:400]}")

    # ------------------------------------------------------------------
    def report(self):
        ctx = self.ctx
        ctx.bound("bfs_depth_bound", self.max_depth)
        ctx.bound("bfs_depth_completed", self.depth_done)
        ctx.bound("bfs_alphabet", len(self.alpha))
        ctx.bound("bfs_new_states_per_depth", self.per_depth)
        ctx.bound("bfs_frontier_exhausted_within_bound", self.exhausted)
        ctx.bound("bfs_merged_transitions", self.merged)
        ctx.bound("bfs_dead_transitions", self.dead)
        ctx.bound("bfs_crosschecked_transitions_of_merged_states", self.crosschecked)
        return dict(states=len(self.seen), transitions=self.transitions, max_depth=self.depth_done, exhausted=self.exhausted)
