"""Per-property registration; `./gv manifest` regenerates MANIFEST.json from this table."""
import json, os

CHECKS = {}


def reg(pid, engine, technique, text, note, design_ref, level="model_checking", thorough=True):
    CHECKS[pid] = dict(engine=engine, technique=technique, text=text, note=note, design_ref=design_ref, level=level, thorough=thorough)



def discover():
    """Every check module under gvlib/checks that defines REG (a dict with the reg() keyword arguments) is claimed."""
    import importlib, pkgutil
    from . import checks
    # Only the main session edits claimed.txt: a check is claimed once it is clean on the unchanged tree and triaged.
    claimed = set(open(os.path.join(os.path.dirname(__file__), "claimed.txt")).read().split())
    for m in sorted(pkgutil.iter_modules(checks.__path__), key=lambda m: m.name):
        mod = importlib.import_module(f"gvlib.checks.{m.name}")
        r = getattr(mod, "REG", None)
        if r and m.name.upper() in claimed:
            reg(m.name.upper(), **r)


NOT_YET = {}


def manifest(all_ids):
    discover()
    checks = []
    for pid in sorted(CHECKS):
        c = CHECKS[pid]
        entry = {
            "property_id": pid,
            "quick_cmd": f"./gv check {pid} --tier quick",
            "evidence_file": f"/verif/evidence/{pid}.json",
            "replay_cmd_template": "./gv replay {path}",
            "engine": c["engine"],
            "level_claimed": {"category": c["level"], "text": c["text"], "design_ref": c["design_ref"]},
            "level_note": c["note"],
            "technique": c["technique"],
        }
        if c["thorough"]:
            entry["thorough_cmd"] = f"./gv check {pid} --tier thorough"
        checks.append(entry)
    na = [{"property_id": p, "reason": NOT_YET.get(p, "check not built yet in this round; the technique applies (see DESIGN.md §6), nothing is claimed until the check exists and has been shown to detect a seeded change")}
          for p in all_ids if p not in CHECKS]
    return {
        "version": 1,
        "setup_cmd": "./gv setup",
        "hooks": {
            "guard": "--cfg wilfred_garden_verif",
            "enable": "RUSTFLAGS='--cfg wilfred_garden_verif' cargo build --offline --manifest-path /verif/harness/Cargo.toml (shadow package whose [[bin]] path is /repo/src/main.rs; done by ./gv)",
            "baseline_off_cmd": "cd /repo && cargo nextest run --workspace --no-fail-fast --tool-config-file pb:/w/lib/nextest.toml --profile pb --test-threads 8 --offline || cargo test --workspace --no-fail-fast --offline",
            "source_commits": HOOK_COMMITS,
            "add_only": True,
        },
        "engines": [
            {"name": "E1-enum", "path": "py/gvlib/checks", "serves_properties": sorted(p for p, c in CHECKS.items() if c["engine"] == "E1-enum"),
             "kind_free_text": "bounded-exhaustive enumeration of inputs/programs executed on the real code in-process (hooked binary), oracle = invariant, independent reference model or differential"},
            {"name": "E2-bfs", "path": "py/gvlib/checks", "serves_properties": sorted(p for p, c in CHECKS.items() if c["engine"] == "E2-bfs"),
             "kind_free_text": "explicit-state breadth-first search over request histories; transition function = the real handler; canonical state hashing"},
            {"name": "E3-sched", "path": "crates/verif_rt/src/sched.rs", "serves_properties": sorted(p for p, c in CHECKS.items() if c["engine"] == "E3-sched"),
             "kind_free_text": "stateless deviation-bounded DFS over schedules / fault points of the real threads under a controlled scheduler, with replay"},
        ],
        "checks": checks,
        "not_applicable": na,
        "notes": "All checks rebuild the hooked binary from /repo's working tree (cargo no-op when unchanged). Exit 0 = held on everything explored (KNOWN-FINDING lines allowed), 1 = VIOLATION, 3 = machinery problem.",
    }


HOOK_COMMITS = []
