"""Per-property registration; `./gv manifest` regenerates MANIFEST.json from this table."""
import json, os

CHECKS = {}


def reg(pid, engine, technique, text, note, design_ref, level="model_checking", thorough=True):
    CHECKS[pid] = dict(engine=engine, technique=technique, text=text, note=note, design_ref=design_ref, level=level, thorough=thorough)


E1 = "bounded-exhaustive enumeration on the real code (E1)"
reg("C03", "E1-enum", "bounded-exhaustive enumeration of operator words, executed on the real parser/evaluator, differential oracle",
    "All 21^(n-1) operator words for n<=5 (quick) / n<=6 (thorough) are parsed by the real parser in-process and compared with the left-nested "
    "parenthesisation; every full parenthesisation for small n is compared with the shape its parentheses describe; Int chains are also evaluated. "
    "Exhaustive within the length bound, which is the level the property's quantifier (length 2..6 exhaustively) asks for.",
    "Chains longer than the bound and operand expressions other than variables/literals are not covered; tree equality is the parser's own structural PartialEq / Debug form.",
    "DESIGN.md §6 C03")
reg("C33", "E1-enum", "bounded-exhaustive enumeration of syntax trees up to a depth bound, print/parse round trip on the real parser",
    "Every tree of the mini-AST grammar up to the stated depth bound (all productions, all 8 item kinds with optional parts on/off, item pairs) is printed canonically and "
    "parsed by the real parser; the resulting tree must equal the printed one. Exhaustive within the bound.",
    "The canonical printer and the Debug-form emitter are part of the trusted base; both are validated against the parser on all 474 parseable .gdn files of the repository. "
    "Trees deeper than the bound are not covered.",
    "DESIGN.md §6 C33")

NOT_YET = {}


def manifest(all_ids):
    checks = []
    for pid in sorted(CHECKS):
        c = CHECKS[pid]
        entry = {
            "property_id": pid,
            "quick_cmd": f"./gv check {pid} --tier quick",
            "evidence_file": f"/verif/evidence/{pid}.json",
            "replay_cmd_template": "./gv replay {path}",
            "engine": c["engine"],
            "level_claimed": {"category": c["level"], "text": c["text"], "design_ref": c["design_ref"]},
            "level_note": c["note"],
            "technique": c["technique"],
        }
        if c["thorough"]:
            entry["thorough_cmd"] = f"./gv check {pid} --tier thorough"
        checks.append(entry)
    na = [{"property_id": p, "reason": NOT_YET.get(p, "check not built yet in this round; the technique applies (see DESIGN.md §6), nothing is claimed until the check exists and has been shown to detect a seeded change")}
          for p in all_ids if p not in CHECKS]
    return {
        "version": 1,
        "setup_cmd": "./gv setup",
        "hooks": {
            "guard": "--cfg wilfred_garden_verif",
            "enable": "RUSTFLAGS='--cfg wilfred_garden_verif' cargo build --offline --manifest-path /verif/harness/Cargo.toml (shadow package whose [[bin]] path is /repo/src/main.rs; done by ./gv)",
            "baseline_off_cmd": "cd /repo && cargo nextest run --workspace --no-fail-fast --tool-config-file pb:/w/lib/nextest.toml --profile pb --test-threads 8 --offline || cargo test --workspace --no-fail-fast --offline",
            "source_commits": HOOK_COMMITS,
            "add_only": True,
        },
        "engines": [
            {"name": "E1-enum", "path": "py/gvlib/checks", "serves_properties": sorted(p for p, c in CHECKS.items() if c["engine"] == "E1-enum"),
             "kind_free_text": "bounded-exhaustive enumeration of inputs/programs executed on the real code in-process (hooked binary), oracle = invariant, independent reference model or differential"},
            {"name": "E2-bfs", "path": "py/gvlib/checks", "serves_properties": sorted(p for p, c in CHECKS.items() if c["engine"] == "E2-bfs"),
             "kind_free_text": "explicit-state breadth-first search over request histories; transition function = the real handler; canonical state hashing"},
            {"name": "E3-sched", "path": "crates/verif_rt/src/sched.rs", "serves_properties": sorted(p for p, c in CHECKS.items() if c["engine"] == "E3-sched"),
             "kind_free_text": "stateless deviation-bounded DFS over schedules / fault points of the real threads under a controlled scheduler, with replay"},
        ],
        "checks": checks,
        "not_applicable": na,
        "notes": "All checks rebuild the hooked binary from /repo's working tree (cargo no-op when unchanged). Exit 0 = held on everything explored (KNOWN-FINDING lines allowed), 1 = VIOLATION, 3 = machinery problem.",
    }


HOOK_COMMITS = []
