"""Check context: pool, CLI runner, violations / known findings, evidence and replay files."""
import hashlib, json, os, shutil, subprocess, sys, tempfile, time

from . import build
from .pool import Pool, NCPU

VERIF = build.VERIF
SCRATCH = os.path.join(VERIF, "target", "scratch")
KNOWN_PATH = os.path.join(VERIF, "known_findings.json")
# Evidence and replay files go under GV_OUT when set (used when a check is pointed at a scratch worktree with a seeded
# change, so that /verif's own evidence and replays always come from /repo itself).
OUT = os.environ.get("GV_OUT", VERIF)

EXIT_OK, EXIT_VIOLATION, EXIT_MACHINERY = 0, 1, 3


class Machinery(Exception):
    """A problem of the checking machinery (never a verdict)."""


def load_known():
    if not os.path.exists(KNOWN_PATH):
        return {"findings": [], "fixed": []}
    return json.load(open(KNOWN_PATH))


class Ctx:
    def __init__(self, pid, tier, seed=0, level="model_checking"):
        self.pid, self.tier, self.seed, self.level = pid, tier, seed, level
        self.t0 = time.time()
        self.binary, self.build_s = build.build()
        self.scratch = os.path.join(SCRATCH, f"{pid}-{os.getpid()}")
        shutil.rmtree(self.scratch, ignore_errors=True)
        os.makedirs(self.scratch, exist_ok=True)
        # temporary files of every process a check starts (garden writes its built-in files to $TMPDIR/garden-lsp-<pid> and does not
        # remove them when it is killed or leaves through `exit`) stay inside the scratch directory, which is removed at the end
        tmp = os.path.join(self.scratch, "tmp")
        os.makedirs(tmp, exist_ok=True)
        os.environ["TMPDIR"] = tmp
        self._pool = None
        self.known = [f for f in load_known()["findings"] if f["property"] == pid]
        self.known_hit = {}
        self.violations = {}          # sig -> {detail, count}
        self.cov = {"states": 0, "transitions": 0, "traces_validated_against_impl": 0, "evaluations": 0,
                    "distinct_nontrivial": 0, "samples": [], "exhaustive": True, "bounds": {}, "caps_hit": [],
                    "outcomes": {}, "cli_confirmed": 0}
        self.assumptions = [
            "hooked binary built from /repo working tree with dev-profile semantics (debug assertions, overflow checks on), opt-level 2",
            "in-process adapters mirror the CLI entry points; every reported violation is re-run through the real CLI subcommand where one exists",
        ]
        self.quick = tier == "quick"

    # ---- resources
    @property
    def pool(self):
        if self._pool is None:
            self._pool = Pool(self.binary, self.scratch, NCPU)
        return self._pool

    def cli(self, args, stdin=None, timeout=30, cwd=None, env=None):
        """Run the real CLI (the hooked binary is the ordinary CLI for every non-`verif` subcommand)."""
        try:
            p = subprocess.run([self.binary] + list(args), input=stdin, stdout=subprocess.PIPE, stderr=subprocess.PIPE,
                               timeout=timeout, cwd=cwd or self.scratch, env=env)
            return p.returncode, p.stdout.decode("utf-8", "replace"), p.stderr.decode("utf-8", "replace")
        except subprocess.TimeoutExpired:
            return "timeout", "", ""

    def tmpfile(self, name, text):
        path = os.path.join(self.scratch, name)
        os.makedirs(os.path.dirname(path), exist_ok=True)
        with open(path, "w", encoding="utf-8", newline="") as f:
            f.write(text)
        return path

    # ---- bookkeeping
    def outcome(self, key, n=1):
        self.cov["outcomes"][key] = self.cov["outcomes"].get(key, 0) + n

    def sample(self, obj, limit=6):
        if len(self.cov["samples"]) < limit:
            self.cov["samples"].append(obj)

    def add(self, states=0, transitions=0, evaluations=0, nontrivial=0):
        self.cov["states"] += states
        self.cov["transitions"] += transitions
        self.cov["traces_validated_against_impl"] += transitions
        self.cov["evaluations"] += evaluations or transitions
        self.cov["distinct_nontrivial"] += nontrivial

    def bound(self, name, value):
        self.cov["bounds"][name] = value

    def cap(self, what):
        self.cov["caps_hit"].append(what)
        self.cov["exhaustive"] = False

    def assume(self, text):
        if text not in self.assumptions:
            self.assumptions.append(text)

    def violation(self, sig, detail, cli_cmd=None):
        """Record a violation with a signature (matched against known_findings.json)."""
        v = self.violations.setdefault(sig, {"detail": detail, "count": 0, "cli": cli_cmd})
        v["count"] += 1

    # ---- finish
    def finish(self, rule, explanation=""):
        if self._pool:
            self._pool.close()
        shutil.rmtree(self.scratch, ignore_errors=True)
        rc = EXIT_OK
        replay_dir = os.path.join(OUT, "replays", self.pid)
        new = 0
        known_sigs = {f["signature"]: f for f in self.known}
        lines = []
        for sig, v in sorted(self.violations.items()):
            h = hashlib.sha1(sig.encode()).hexdigest()[:12]
            os.makedirs(replay_dir, exist_ok=True)
            path = os.path.join(replay_dir, f"{h}.json")
            rec = {"property": self.pid, "signature": sig, "instances": v["count"], "detail": v["detail"], "cli": v["cli"],
                   "known": sig in known_sigs}
            prev = None
            if os.path.exists(path):
                try:
                    prev = json.load(open(path))
                except Exception:
                    prev = None
            if prev is None or prev.get("detail") != rec["detail"] or prev.get("signature") != sig:
                json.dump(rec, open(path, "w"), indent=1, ensure_ascii=False, sort_keys=True)
            if sig in known_sigs:
                lines.append(f"KNOWN-FINDING: property={self.pid} {known_sigs[sig]['what']} [{sig}] instances={v['count']} replay={os.path.relpath(path, OUT)}")
            else:
                new += 1
                rc = EXIT_VIOLATION
                lines.append(f"VIOLATION property={self.pid} replay={os.path.relpath(path, OUT)}  # {sig}")
        cov = self.cov
        cov["rule"] = rule
        if explanation:
            cov["explanation"] = explanation
        cov["distinct_outcomes"] = len(cov["outcomes"])
        cov["known_findings_seen"] = sorted(s for s in self.violations if s in known_sigs)
        cov["worker_crashes"] = self._pool.crashes if self._pool else 0
        cov["worker_timeouts"] = self._pool.timeouts if self._pool else 0
        if not cov["samples"]:
            cov["samples"] = ["<none recorded>"]
        cov["states"] = max(cov["states"], 0)
        ev = {"property_id": self.pid, "tier": self.tier, "seed": self.seed, "level": self.level, "coverage": cov,
              "assumptions": self.assumptions, "wall_s": round(time.time() - self.t0, 2), "violations": new,
              "build_s": round(self.build_s, 2)}
        os.makedirs(os.path.join(OUT, "evidence"), exist_ok=True)
        json.dump(ev, open(os.path.join(OUT, "evidence", f"{self.pid}.json"), "w"), indent=1, ensure_ascii=False)
        for l in lines:
            print(l)
        print(f"[{self.pid} {self.tier}] states={cov['states']} transitions={cov['transitions']} nontrivial={cov['distinct_nontrivial']} "
              f"outcomes={cov['distinct_outcomes']} exhaustive={cov['exhaustive']} caps={cov['caps_hit']} new_violations={new} "
              f"known={len(cov['known_findings_seen'])} wall={ev['wall_s']}s")
        if cov["transitions"] < 1 or cov["states"] < 1:
            print("MACHINERY: nothing explored")
            return EXIT_MACHINERY
        return rc
