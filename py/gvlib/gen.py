"""Bounded-exhaustive enumerators of Garden syntax trees (mini-AST tuples, see gast.py)."""
import itertools
from .gast import OPS

STATEMENT_KINDS = {"Let", "Assign", "AssignUpdate", "Return", "Break", "Continue", "Assert"}

T_INT = ("T", "Int", [])
T_LIST_INT = ("T", "List", [T_INT])
T_TUPLE = ("T", "Tuple", [T_INT, ("T", "String", [])])
T_FUN = ("T", "Fun", [("T", "Tuple", [T_INT]), T_INT])
HINTS = [T_INT, T_LIST_INT, T_TUPLE, T_FUN]

DESTS = [("Sym", "v"), ("Destructure", ["p", "q"]), ("Sym", "_")]


def leaves():
    return [("Int", 0), ("Int", 7), ("Int", -3), ("Float", "1.5"), ("Str", ""), ("Str", "a b"), ("Var", "x"), ("Var", "Foo"),
            ("List", []), ("Tuple", []), ("Dict", [])]


def leaf_statements():
    return [("Break",), ("Continue",), ("Return", None)]


def is_operand(e):
    return e[0] not in STATEMENT_KINDS


def bin_rhs_ok(e):
    # `a op b op c` is always the left-nested tree, so an unparenthesised Bin cannot be a right operand.
    return is_operand(e) and e[0] != "Bin"


def recv_ok(e):
    # `x - y()` is `x - (y())`: an unparenthesised Bin cannot be the receiver of a postfix form.
    return is_operand(e) and e[0] != "Bin"


def leftmost_kind(e):
    """Kind of the node whose first token starts the text of e."""
    while True:
        k = e[0]
        if k in ("Bin", "Call", "MethodCall", "Dot", "Ns"):
            e = e[1]
        else:
            return k


def bodies(stmts, pair_pool):
    """Block bodies: empty, every single statement, and every ordered pair over pair_pool."""
    out = [[]]
    out += [[s] for s in stmts]
    out += [[a, b] for a in pair_pool for b in pair_pool]
    return out


def productions(O, B, S, arg_pool=None, small=None):
    """Every tree whose root is one production and whose children come from the operand pool O,
    body pool B. `small` is a reduced operand pool used in slots whose product would explode
    (second argument, second element...)."""
    small = small if small is not None else O
    arg_pool = arg_pool if arg_pool is not None else O
    for o in O:
        yield ("Paren", o)
    for l in O:
        for op in OPS:
            for r in O:
                if bin_rhs_ok(r):
                    yield ("Bin", l, op, r)
    for f in O:
        if not recv_ok(f) or f[0] == "Dot":   # `x.fld()` is a MethodCall, never Call(Dot)
            continue
        yield ("Call", f, [])
        for a in arg_pool:
            yield ("Call", f, [a])
        for a in small:
            for b in small:
                yield ("Call", f, [a, b])
    for r in O:
        if not recv_ok(r):
            continue
        yield ("Dot", r, "fld")
        yield ("Ns", r, "item")
        yield ("MethodCall", r, "meth", [])
        for a in small:
            yield ("MethodCall", r, "meth", [a])
    for a in O:
        yield ("List", [a])
        yield ("Tuple", [a])
        yield ("Assert", a)
        yield ("Return", a)
        yield ("Assign", "x", a)
        yield ("AssignUpdate", "x", "+=", a)
        yield ("AssignUpdate", "x", "-=", a)
        yield ("Struct", "Foo", [("f", a)])
        for d in DESTS[:2]:
            yield ("Let", d, None, a)
        yield ("Let", ("Sym", "v"), T_LIST_INT, a)
        yield ("Let", ("Sym", "v"), T_FUN, a)
        for b in small:
            yield ("List", [a, b])
            yield ("Tuple", [a, b])
            yield ("Dict", [(a, b)])
            yield ("Struct", "Foo", [("f", a), ("g", b)])
    for a in small:
        for b in small:
            yield ("Dict", [(a, b), (b, a)])
    yield ("Struct", "Foo", [])
    for body in B:
        yield ("Lambda", [], None, body)
        yield ("Lambda", [("a", None)], None, body)
        yield ("Lambda", [("a", T_INT), ("b", None)], T_LIST_INT, body)
        yield ("Try", body, "e", [])
        yield ("Try", [], "e", body)
    for c in O:
        for body in B:
            yield ("If", c, body, None)
            yield ("If", c, body, [])
            yield ("If", c, [], body)
            yield ("While", c, body)
            for d in DESTS:
                yield ("For", d, c, body)
            yield ("Match", c, [(("Some", ("Sym", "v")), body)])
            yield ("Match", c, [(("None", None), body), (("_", None), [])])
            yield ("Match", c, [(("Pair", ("Destructure", ["p", "q"])), []), (("Other", None), body)])
        yield ("Match", c, [])


def depth1():
    L = leaves()
    S = leaf_statements()
    B = bodies(L + S, [("Var", "x"), ("Int", -3), ("Break",), ("Return", None)])
    return list(productions(L, B, S))


def representatives():
    """One or two hard representatives per production (depth 1), used as children at depth 2."""
    x, y = ("Var", "x"), ("Var", "y")
    return [
        ("Paren", x), ("Bin", x, "-", y), ("Bin", x, "<", y), ("Bin", x, "**", ("Int", -3)), ("Bin", ("Bin", x, "-", y), "/", ("Var", "z")), ("Call", x, []), ("Call", x, [y, ("Int", 7)]),
        ("Dot", x, "fld"), ("Ns", x, "item"), ("MethodCall", x, "meth", [y]), ("List", [x, y]), ("Tuple", [x]), ("Tuple", [x, y]),
        ("Dict", [(x, y)]), ("Struct", "Foo", [("f", x)]), ("Struct", "Foo", []), ("Lambda", [("a", T_INT)], T_INT, [x]),
        ("Lambda", [], None, []), ("If", x, [y], None), ("If", x, [y], [x]), ("While", x, [("Break",)]), ("For", ("Sym", "v"), x, [y]),
        ("Match", x, [(("Some", ("Sym", "v")), [y]), (("None", None), [])]), ("Try", [x], "e", [y]),
    ]


def statement_representatives():
    x, y = ("Var", "x"), ("Var", "y")
    return [("Let", ("Sym", "v"), None, x), ("Let", ("Destructure", ["p", "q"]), T_TUPLE, y), ("Assign", "x", y), ("AssignUpdate", "x", "+=", y),
            ("Return", x), ("Return", None), ("Break",), ("Continue",), ("Assert", x)]


def depth2(thorough=False):
    L = leaves()
    R = representatives()
    O = L + R
    SR = statement_representatives()
    small = [("Var", "x"), ("Int", -3), ("Bin", ("Var", "x"), "-", ("Var", "y")), ("Call", ("Var", "x"), []), ("If", ("Var", "x"), [("Var", "y")], [("Var", "x")])]
    if thorough:
        small = O
    pair_pool = [("Var", "x"), ("Int", -3), ("Bin", ("Var", "x"), "-", ("Var", "y")), ("If", ("Var", "x"), [("Var", "y")], None),
                 ("Let", ("Sym", "v"), None, ("Var", "x")), ("Return", None), ("Paren", ("Var", "x")), ("Lambda", [], None, [])]
    B = bodies(O + SR, pair_pool)
    return productions(O, B, SR, arg_pool=O, small=small)


def depth3():
    """Children: leaves, depth-1 representatives and depth-2 representatives built from them."""
    L = leaves()
    R = representatives()
    x = ("Var", "x")
    R2 = []
    for r in R:
        R2 += [("Paren", r), ("Bin", r, "-", x), ("Call", r, [r]), ("Dot", r, "fld"), ("MethodCall", r, "meth", [r]), ("List", [r, x]),
               ("If", r, [r], [r]), ("Lambda", [("a", None)], None, [r]), ("Match", r, [(("Some", ("Sym", "v")), [r])]), ("Tuple", [r]),
               ("Dict", [(r, r)]), ("Struct", "Foo", [("f", r)]), ("While", r, [r]), ("For", ("Sym", "v"), r, [r]), ("Try", [r], "e", [r])]
        if r[0] != "Bin":
            R2.append(("Bin", x, "**", r))
    O = L + R + R2
    SR = statement_representatives() + [("Let", ("Sym", "v"), None, r) for r in R] + [("Return", r) for r in R]
    small = [("Var", "x"), ("Int", -3), ("Bin", ("Var", "x"), "-", ("Var", "y")), ("If", ("Var", "x"), [("Var", "y")], [("Var", "x")])]
    pair_pool = [("Var", "x"), ("Int", -3), ("If", ("Var", "x"), [("Var", "y")], None), ("Let", ("Sym", "v"), None, ("Var", "x"))]
    B = bodies(R + SR[:9], pair_pool)
    return productions(O, B, SR, arg_pool=L + R, small=small)


def toplevel_items(bodies_pool, hints=HINTS):
    """All 8 item kinds with every optional part present/absent."""
    docs = [None, "Doc line.", "Two\nlines"]
    for public in (False, True):
        for doc in docs:
            for tps in ([], ["T"], ["T", "U"]):
                for params in ([], [("a", None)], [("a", T_INT), ("b", T_LIST_INT)], [("a", ("T", "T", []))]):
                    for ret in (None, T_INT, T_FUN):
                        for body in bodies_pool:
                            yield ("Fun", "f", public, doc, tps, params, ret, body)
    for public in (False, True):
        for doc in docs[:2]:
            for tps in ([], ["T"]):
                for recv_hint in (T_INT, T_LIST_INT):
                    for params in ([], [("a", T_INT)]):
                        for ret in (None, T_INT):
                            for body in bodies_pool:
                                yield ("Method", public, doc, "this", recv_hint, "m", tps, params, ret, body)
    for doc in docs:
        for body in bodies_pool:
            yield ("Test", "t", doc, body)
    for public in (False, True):
        for doc in docs:
            for tps in ([], ["T"]):
                for variants in ([], [("A", None)], [("A", None), ("B", T_INT)], [("A", T_TUPLE), ("B", ("T", "T", []))]):
                    yield ("Enum", "E", public, doc, tps, variants)
                for fields in ([], [("a", T_INT, None)], [("a", T_INT, "Field doc."), ("b", T_LIST_INT, None)]):
                    yield ("StructDef", "S", public, doc, tps, fields)
    for path in ("./foo.gdn", "__fs.gdn"):
        for as_ in (None, "ns"):
            yield ("Import", path, as_)
    for body in bodies_pool:
        yield ("Block", body)
