"""Reference implementation of the prelude's string and list functions (C32).

Every entry is written from the DOC COMMENT of the function in src/__prelude.gdn (and the
`test` block next to it where the comment has no example for a case), not from its body.
String indices are *character* (codepoint) offsets, as the comments of `len`, `substring`
and `index_of` say; Python `str` is indexed the same way.

A reference returns one of
    val(x)       the documented result (x is a Python value, printed by `show`)
    EXC          the documented behaviour is an error
    any_(why)    the documentation is silent for these arguments: nothing is demanded
                 except that the call ends in a value or a Garden error
    lit(x, why)  indices outside the string/list: the comment does not say whether that is an error, but
                 it does say which items are returned ("from index i (inclusive) to j (exclusive)"): a
                 Garden error, or exactly the items whose index lies in that range -- never other items
"""
from collections import namedtuple

MAX, MIN = 2**63 - 1, -2**63

Some = namedtuple("Some", "v")


class _Tag:
    def __init__(self, name): self.name = name
    def __repr__(self): return self.name


NONE, UNIT = _Tag("None"), _Tag("Unit")
# a closure argument: Garden source and the same function in Python
Closure = namedtuple("Closure", "src py")

EXC = ("exc",)
def val(x): return ("val", x)
def any_(why): return ("any", why)
def lit_(x, why): return ("lit", x, why)

HUGE = 1000   # a documented result longer than this is not demanded (range(MIN, MAX))


# ---------------------------------------------------------------- printers
def show(v):
    """The text `string_repr` prints for a value (src/values.rs Value::display)."""
    if v is True: return "True"
    if v is False: return "False"
    if v is NONE: return "None"
    if v is UNIT: return "Unit"
    if isinstance(v, int): return str(v)
    if isinstance(v, str): return '"' + v.replace("\\", "\\\\").replace('"', '\\"').replace("\n", "\\n") + '"'
    if isinstance(v, Some): return "Some(" + show(v.v) + ")"
    if isinstance(v, list): return "[" + ", ".join(show(x) for x in v) + "]"
    if isinstance(v, tuple): return "(" + ", ".join(show(x) for x in v) + ("," if len(v) == 1 else "") + ")"
    raise TypeError(v)


def lit(v):
    """Garden source text of an argument."""
    if isinstance(v, Closure): return v.src
    return show(v)   # every printed value in the pools is also its own literal


def opt(x): return NONE if x is None else Some(x)


# ---------------------------------------------------------------- String methods
def s_starts_with(s, p): return val(s.startswith(p))          # "Does this string start with `s`?" (test: "abc".starts_with("") == True)
def s_ends_with(s, p): return val(s.endswith(p))
def s_replace(s, before, after):                               # "Replace all occurrences of `before` with `after`"
    return any_("empty needle") if before == "" else val(s.replace(before, after))
def s_split_once(s, n):                                        # "Split on the first occurrence of needle, return the text before and after"
    if n == "": return any_("empty needle")
    return val(Some((s[:s.find(n)], s[s.find(n) + len(n):])) if n in s else NONE)
def s_join(sep, items): return val(sep.join(items))            # "Join items with this string as a separator"
def s_contains(s, sub): return any_("empty needle") if sub == "" else val(sub in s)
def s_trim_left(s): return val(s.lstrip())                     # "Remove whitespace at the beginning"
def s_trim_right(s): return val(s.rstrip())                    # "Remove whitespace at the end"
def s_trim(s): return val(s.strip())                           # "... from both the start and end"
def s_strip_suffix(s, x): return val(s[:len(s) - len(x)] if s.endswith(x) else s)   # "without the suffix; if it does not end with the suffix, unchanged"
def s_strip_prefix(s, x): return val(s[len(x):] if s.startswith(x) else s)
def s_split(s, n):                                             # examples: "a,,b,".split(",") -> ["a","","b",""]; "".split(",") -> []
    if s == "": return val([])
    return any_("empty needle") if n == "" else val(s.split(n))
def s_chars(s): return val(list(s))                            # "list of individual characters"
def s_len(s): return val(len(s))                               # "number of characters (codepoints)"
def s_lines(s):                                                # "Split into a list of lines"; tests: "" -> [], "a\nb\n" -> ["a", "b"]
    parts = s.split("\n")
    return val(parts[:-1] if parts[-1] == "" else parts)
def s_substring(s, i, j):                                      # "between the indexes, character offsets"; "abc".substring(1, 99) -> "bc"
    why = "from<0" if i < 0 else "from>to" if i > j else "from>len" if i > len(s) else None
    if why: return lit_(s[max(i, 0):max(j, 0)] if i <= j else "", why)
    return val(s[i:j])
def s_index_of(s, n):                                          # "first index of needle, character offsets"
    if n == "": return any_("empty needle")
    return val(opt(s.find(n) if n in s else None))


# ---------------------------------------------------------------- List methods and free functions
def l_append(l, v): return val(l + [v])
def l_concat(l, o): return val(l + o)                          # "all the items from this, followed by all the items from other"
def l_contains(l, x): return val(x in l)
def l_get(l, i): return val(Some(l[i]) if 0 <= i <= len(l) - 1 else NONE)   # "None if index < 0 or index > length - 1"
def l_len(l): return val(len(l))
def l_first(l): return val(Some(l[0]) if l else NONE)          # "the first item, if the list is not empty"
def l_last(l): return val(Some(l[-1]) if l else NONE)
def l_filter(l, f): return val([x for x in l if f.py(x)])      # "the items where f(item) returns True"
def l_is_empty(l): return val(len(l) == 0)
def l_is_non_empty(l): return val(len(l) != 0)
def l_map(l, f): return val([f.py(x) for x in l])              # "call f on every item, list of the results"
def l_index_of(l, v): return val(Some(l.index(v)) if v in l else NONE)      # "index of the first instance"
def l_slice(l, i, j):                                          # "from index i (inclusive) to j (exclusive); negative j counts backwards from the end"
    j2 = len(l) + j if j < 0 else j
    if not (0 <= i <= j2 <= len(l)): return lit_(l[max(i, 0):max(j2, 0)] if i <= j2 else [], "index outside the list")
    return val(l[i:j2])
def l_enumerate(l): return val([(i, x) for i, x in enumerate(l)])
def f_range(i, j):                                             # "from i (inclusive) to j (exclusive)"
    return any_("huge result") if j - i > HUGE else val(list(range(i, j)))
def f_sort_nums(l): return val(sorted(l))                      # "sorted in ascending order"
def f_max(x, y): return val(max(x, y))
def f_min(x, y): return val(min(x, y))
def o_or_throw(o): return EXC if o is NONE else val(o.v)       # "If Some(value), unwrap it, otherwise throw an exception"
def o_or_value(o, d): return val(d if o is NONE else o.v)


# name -> (kind, short name, reference). kind: "method" (first argument is the receiver) or "fun".
REF = {
    "String::starts_with": ("method", "starts_with", s_starts_with),
    "String::ends_with": ("method", "ends_with", s_ends_with),
    "String::replace": ("method", "replace", s_replace),
    "String::split_once": ("method", "split_once", s_split_once),
    "String::join": ("method", "join", s_join),
    "String::contains": ("method", "contains", s_contains),
    "String::trim_left": ("method", "trim_left", s_trim_left),
    "String::trim_right": ("method", "trim_right", s_trim_right),
    "String::trim": ("method", "trim", s_trim),
    "String::strip_suffix": ("method", "strip_suffix", s_strip_suffix),
    "String::strip_prefix": ("method", "strip_prefix", s_strip_prefix),
    "String::split": ("method", "split", s_split),
    "String::chars": ("method", "chars", s_chars),
    "String::len": ("method", "len", s_len),
    "String::lines": ("method", "lines", s_lines),
    "String::substring": ("method", "substring", s_substring),
    "String::index_of": ("method", "index_of", s_index_of),
    "List::append": ("method", "append", l_append),
    "List::concat": ("method", "concat", l_concat),
    "List::contains": ("method", "contains", l_contains),
    "List::get": ("method", "get", l_get),
    "List::len": ("method", "len", l_len),
    "List::first": ("method", "first", l_first),
    "List::last": ("method", "last", l_last),
    "List::filter": ("method", "filter", l_filter),
    "List::is_empty": ("method", "is_empty", l_is_empty),
    "List::is_non_empty": ("method", "is_non_empty", l_is_non_empty),
    "List::map": ("method", "map", l_map),
    "List::index_of": ("method", "index_of", l_index_of),
    "List::slice": ("method", "slice", l_slice),
    "List::enumerate": ("method", "enumerate", l_enumerate),
    "range": ("fun", "range", f_range),
    "sort_nums": ("fun", "sort_nums", f_sort_nums),
    "max": ("fun", "max", f_max),
    "min": ("fun", "min", f_min),
    "Option::or_throw": ("method", "or_throw", o_or_throw),
    "Option::or_value": ("method", "or_value", o_or_value),
}


def call_src(name, args):
    kind, short, _ = REF[name]
    if kind == "fun":
        return f"{short}({', '.join(lit(a) for a in args)})"
    return f"{lit(args[0])}.{short}({', '.join(lit(a) for a in args[1:])})"


def reference(name, args):
    """('val', text) | ('exc',) | ('any', why) | ('lit', text, why)"""
    r = REF[name][2](*args)
    if r[0] == "lit": return ("lit", show(r[1]), r[2])
    return ("val", show(r[1])) if r[0] == "val" else r
