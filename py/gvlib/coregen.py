"""Exhaustive generator of Garden core-fragment programs for C05 (mini-AST tuples of gast.py).

Every program of the grammar below whose *weighted size* is <= the bound is produced exactly once.
The weighted size of a program is the sum of the costs of the choices made while deriving it:
a statement costs 1 (rarer forms 2-3) plus the cost of the alternative chosen in each of its
expression slots; the simplest alternative of a slot (the most recently declared variable, the
default condition `v == 2`, the list `[1, 2]`, `Some(v)`) is free, the others cost 1..3 (the number
is written next to each alternative in the pool functions below).  A function definition costs
what its body costs (the two-parameter form 1 more), a closure 2 plus its body.  So "size <= K" holds every program of at most K statements built from the
default expressions, and smaller programs with rarer expressions.

Shape bounds: <= 2 function definitions (f(a), h(a, b)), 1..3 top-level statements, <= 3 statements
per block, block nesting depth <= D (function bodies count from 0, a closure body is one level).
A fixed epilogue (not counted) prints every top-level variable in scope at the end and calls the
closure `g` if one is in scope, so the final state is observed.

Fragment restrictions (DESIGN.md section 5), enforced by construction and re-checked by `check_fragment`:
  * well-scoped: a variable is only mentioned where a declaration is visible; names fix the type
    (x y a b e n j k p: Int, l: List<Int>, s: String, g: closure);
  * sibling call arguments, list/tuple elements and method receiver + arguments: at most one is effectful
    (calls a user function or closure, divides, `or_throw`s), so their order of evaluation cannot be
    observed.  Binary operators are different: they are read, documented and implemented left operand first
    (confirmed for every operator on the unchanged tree), so the grammar also has `noisy(1) OP noisy(2)` for
    every operator of the fragment, where the fixed helper `fun noisy(n) { println(string_repr(n)) n }`
    (emitted when used, not counted) makes the order of the two operands observable;
  * a closure body never assigns a captured variable; a captured variable is neither assigned nor
    redeclared while the closure is in scope; closures are not nested and do not call themselves;
  * an operand that is itself a binary operation is parenthesised;
  * `break`/`continue` only inside a loop of the same function body, `return` only inside a
    function or closure body, nothing follows an unconditional break/continue/return in its block;
  * loops are guarded: `while v < 3 { v += 1 ... }`; recursion only as `f(a - 1)` under `if a > 0`.
"""
from collections import namedtuple

Ctx = namedtuple("Ctx", "ints l s g frozen own in_loop fn funs rec depth bv", defaults=(False,))

WHILE_BOUND = 3
MAX_BLOCK = 3
MAX_TOP = 3
GROUPS = ((), ("f",), ("h",), ("f", "h"))      # which functions a program defines
TRACKED = frozenset(["f", "h", "Red", "Cust", "noisy"])

# Binary operators with an observable effect in BOTH operands (cost 3 each wherever they appear).
NOISY_INT_OPS = ("+", "-", "*", "/", "%", "**")
NOISY_CMP_OPS = ("<", "<=", ">", ">=", "==", "!=")
NOISY_BOOL_OPS = ("&&", "||")
NOISY_COST = 3
NOISY_ITEM = ("Fun", "noisy", False, None, [], [("n", None)], None,
              [("Call", ("Var", "println"), [("Call", ("Var", "string_repr"), [("Var", "n")])]), ("Var", "n")])


def noisy_int_exprs():
    return [(B(call("noisy", I(1)), op, call("noisy", I(2))), NOISY_COST) for op in NOISY_INT_OPS]


def noisy_bool_exprs():
    out = [(B(call("noisy", I(1)), op, call("noisy", I(2))), NOISY_COST) for op in NOISY_CMP_OPS]
    out += [(B(B(call("noisy", I(1)), "==", I(1)), op, B(call("noisy", I(2)), "==", I(1))), NOISY_COST) for op in NOISY_BOOL_OPS]
    return out


def noisy_str_expr():
    return B(call("string_repr", call("noisy", I(1))), "^", call("string_repr", call("noisy", I(2))))


def V(n): return ("Var", n)
def I(n): return ("Int", n)
def S(t): return ("Str", t)


def _p(e):
    return ("Paren", e) if e[0] == "Bin" else e


def B(l, op, r): return ("Bin", _p(l), op, _p(r))
def call(f, *args): return ("Call", V(f), list(args))
def mcall(recv, name, *args): return ("MethodCall", _p(recv), name, list(args))
def P(e): return call("println", call("string_repr", e))


def assignable(c, v):
    return v not in c.frozen and (c.own is None or v in c.own)


def declare_int(c, name):
    ints = (name,) + tuple(v for v in c.ints if v != name)
    own = c.own | {name} if c.own is not None else None
    return c._replace(ints=ints, own=own)


def declare_other(c, **kw):
    own = c.own | set(kw) if c.own is not None else None
    return c._replace(own=own, **kw)


# --------------------------------------------------------------------------- expression pools: (expr, cost)

def atoms(c):
    """Int atoms: the visible Int variables, most recently declared first, and the literal 1."""
    out = [(V(v), min(i, 2)) for i, v in enumerate(c.ints)]
    out.append((I(1), 1 if c.ints else 0))
    return out


def calls(c):
    at = atoms(c)
    a0 = at[0][0]
    a1 = at[1][0] if len(at) > 1 else I(2)
    out = []
    for f in ("f", "g"):
        if (f == "f" and "f" in c.funs) or (f == "g" and c.g is not None):
            out.append((call(f, a0), 1))
            for a, _ in at[1:3]:
                out.append((call(f, a), 2))
    if "h" in c.funs:
        out.append((call("h", a0, a1), 1))
        out.append((call("h", a1, a0), 2))
        if "f" in c.funs:          # one effectful argument, the other side-effect free
            out.append((call("h", call("f", a0), a1), 3))
            out.append((call("h", a1, call("f", a0)), 3))
    if "f" in c.funs:              # an argument whose two operands both print (still a single effectful argument)
        for e, ce in noisy_int_exprs():
            out.append((call("f", e), ce))
    if c.rec:
        dec = B(V("a"), "-", I(1))
        out.append((call("f", dec) if c.fn == "f" else call("h", dec, V("b")), 1))
    return out


def int_exprs(c):
    out = list(atoms(c))
    if c.ints:
        v = V(c.ints[0])
        out.append((B(v, "+", I(1)), 1))
        if len(c.ints) > 1:
            out.append((B(v, "+", V(c.ints[1])), 2))
        out.append((B(I(6), "/", B(v, "-", I(1))), 2))
    out += calls(c)
    out += noisy_int_exprs()
    if c.l:
        a0 = atoms(c)[0][0]
        out.append((mcall(V("l"), "len"), 2))
        out.append((mcall(mcall(V("l"), "get", a0), "or_value", I(0)), 2))
        out.append((mcall(mcall(V("l"), "get", a0), "or_throw"), 3))
    return out


def let_exprs(c):
    """Right-hand sides of `let`: like int_exprs, but the free default is `v + 1` (so that a shadowing
    declaration has a value different from the shadowed one) and the bare variable costs 1."""
    if not c.ints:
        return int_exprs(c)
    v = V(c.ints[0])
    out = []
    for e, ce in int_exprs(c):
        if e == v:
            ce = 1
        elif e == B(v, "+", I(1)):
            ce = 0
        out.append((e, ce))
    return out


def bool_exprs(c):
    out = []
    if c.ints:
        v = V(c.ints[0])
        out.append((B(v, "==", I(2)), 0))
        out.append((B(v, "<", I(2)), 1))
        guard = c.fn in ("f", "h") and "a" in c.ints
        out.append((B(v, ">", I(0)), 1 if guard and c.ints[0] == "a" else 2))
        out.append((V("True"), 2))
        if guard and c.ints[0] != "a":
            out.append((B(V("a"), ">", I(0)), 2))
        out.append((B(B(v, "<", I(2)), "||", B(v, "==", I(3))), 2))
        out.append((B(B(v, ">", I(0)), "&&", B(v, "<", I(3))), 2))
        if len(c.ints) > 1:
            out.append((B(v, "<", V(c.ints[1])), 2))
    else:
        out.append((V("True"), 0))
    seen = set()
    for e, ce in calls(c):       # the cheapest call of each callable
        if e[1] not in seen:
            seen.add(e[1])
            out.append((B(e, "<", I(2)), 1 + ce))
    out += noisy_bool_exprs()
    return out


def print_exprs(c):
    out = list(int_exprs(c))
    a0 = atoms(c)[0][0]
    if c.l:
        out.append((V("l"), 1))
        out.append((mcall(V("l"), "get", a0), 2))
    if c.s:
        out.append((V("s"), 1))
    out.append((("Tuple", [a0, S("k")]), 3))
    out.append((("List", [a0, I(1)]), 3))
    out.append((call("Some", a0), 3))
    out.append((bool_exprs(c)[0][0], 3))
    out += noisy_bool_exprs()
    out.append((noisy_str_expr(), NOISY_COST))
    return out


def list_exprs(c):
    """(dest, list expression, cost, names bound)"""
    out = [(("Sym", "e"), ("List", [I(1), I(2)]), 0, ("e",))]
    if c.l:
        out.append((("Sym", "e"), V("l"), 1, ("e",)))
    if c.ints:
        out.append((("Sym", "e"), ("List", [V(c.ints[0]), I(1)]), 2, ("e",)))
    out.append((("Sym", "e"), ("List", []), 3, ("e",)))
    out.append((("Destructure", ["j", "k"]), ("List", [("Tuple", [I(1), I(2)]), ("Tuple", [I(3), I(4)])]), 3, ("j", "k")))
    # `_` in a destructuring pattern binds nothing but still stands for its item: before and after a named variable
    out.append((("Destructure", ["_", "k"]), ("List", [("Tuple", [I(1), I(2)]), ("Tuple", [I(3), I(4)])]), 3, ("k",)))
    out.append((("Destructure", ["j", "_"]), ("List", [("Tuple", [I(1), I(2)]), ("Tuple", [I(3), I(4)])]), 3, ("j",)))
    out.append((("Destructure", ["_", "k", "_"]), ("List", [("Tuple", [I(1), I(2), I(3)])]), 3, ("k",)))
    return out


def scrutinees(c):
    """(scrutinee, cost, [(pattern, binds n?), (pattern, binds n?)])"""
    a0 = atoms(c)[0][0]
    n = ("Sym", "n")
    opt = [(("Some", n), True), (("None", None), False)]
    opt_rev = [(("None", None), False), (("Some", n), True)]
    opt_wild = [(("Some", n), True), (("_", None), False)]
    res = [(("Ok", n), True), (("Err", ("Sym", "_")), False)]
    enum = [(("Cust", n), True), (("Red", None), False)]
    enum_wild = [(("Red", None), False), (("_", None), False)]
    # the last field says which arms can be taken: for a literal scrutinee the other arm is dead code and
    # is only ever empty or a one-statement marker
    out = [(call("Some", a0), 0, opt, (0,)), (V("None"), 2, opt, (1,))]
    if c.l:
        out.append((mcall(V("l"), "get", a0), 1, opt, (0, 1)))
    out += [(call("Some", a0), 2, opt_rev, (1,)), (call("Some", a0), 2, opt_wild, (0,)), (V("None"), 3, opt_wild, (1,)),
            (call("Ok", a0), 2, res, (0,)), (call("Err", S("m")), 3, res, (1,)),
            (call("Cust", a0), 2, enum, (0,)), (V("Red"), 3, enum, (1,)), (call("Cust", a0), 3, enum_wild, (1,)), (V("Red"), 3, enum_wild, (0,))]
    return out


def closure_tails(c_after, outer_ints, pn="p"):
    """Result expressions of a closure body: the free default adds the parameter to the nearest captured Int."""
    ie = int_exprs(c_after)
    cap = [v for v in c_after.ints if v in outer_ints and v != pn]
    if not cap:
        return ie
    dflt = B(V(pn), "+", V(cap[0]))
    return [(dflt, 0)] + [(e, max(1, ce)) for e, ce in ie if e != dflt]


# --------------------------------------------------------------------------- helpers on trees

def var_names(t, acc):
    if isinstance(t, tuple):
        if len(t) == 2 and t[0] == "Var":
            acc.add(t[1])
        elif t and t[0] in ("Assign", "AssignUpdate"):
            acc.add(t[1])
            for x in t[2:]:
                var_names(x, acc)
        else:
            for x in t:
                var_names(x, acc)
    elif isinstance(t, list):
        for x in t:
            var_names(x, acc)
    return acc


# --------------------------------------------------------------------------- statements

class Gen:
    def __init__(self):
        self._seq_cache = {}
        self._opt_cache = {}
        self._names = {}

    # Both tables are monotone in the budget (the entries for a smaller budget are exactly the entries of
    # smaller cost), so a smaller request is answered by filtering the largest one computed so far.
    def seqs(self, c, budget, maxn, block=False):
        key = (c, maxn, block)
        hit = self._seq_cache.get(key)
        if hit is None or hit[0] < budget:
            hit = (budget, self._seqs(c, budget, maxn, block), {})
            self._seq_cache[key] = hit
        if hit[0] == budget:
            return hit[1]
        sub = hit[2].get(budget)
        if sub is None:
            sub = hit[2][budget] = [r for r in hit[1] if r[1] <= budget]
        return sub

    def tracked(self, stmt):
        """Which of f, h, Red, Cust a statement mentions (memoised per statement object, which the tables keep alive)."""
        r = self._names.get(id(stmt))
        if r is None:
            r = self._names[id(stmt)] = frozenset(var_names(stmt, set()) & TRACKED)
        return r

    def options(self, c, budget):
        hit = self._opt_cache.get(c)
        if hit is None or hit[0] < budget:
            hit = (budget, self._options(c, budget), {})
            self._opt_cache[c] = hit
        if hit[0] == budget:
            return hit[1]
        sub = hit[2].get(budget)
        if sub is None:
            sub = hit[2][budget] = [r for r in hit[1] if r[1] <= budget]
        return sub

    def _seqs(self, c, budget, maxn, block=False):
        """Sequences of <= maxn statements of total cost <= budget: (stmts, cost, ctx_after, jumped).
        block=True: the sequence is a whole `{ ... }` whose value is not used, so it does not end with a
        declaration nobody can observe (a side-effect-free `let` of a name that shadows nothing)."""
        res = [((), 0, c, False)]
        if maxn == 0 or budget <= 0:
            return res
        for s, cs, c2, j in self.options(c, budget):
            if j:
                res.append(((s,), cs, c2, True))
                continue
            dead = block and dead_declaration(s, c)
            for rest, cr, c3, j3 in self.seqs(c2, budget - cs, maxn - 1, block):
                if dead and not rest:
                    continue
                res.append(((s,) + rest, cs + cr, c3, j3))
        return res

    def blocks(self, c, budget, allow_empty=False):
        """Block bodies in the (already inner) context c."""
        for stmts, cost, _c, _j in self.seqs(c, budget, MAX_BLOCK, True):
            if stmts or allow_empty:
                yield list(stmts), cost

    def vblocks(self, c, budget):
        """Blocks used for their value: <= 2 statements then an Int atom (or an unconditional jump)."""
        for stmts, cost, c_after, jumped in self.seqs(c, budget, 2):
            if jumped:
                yield list(stmts), cost
                continue
            for e, ce in atoms(c_after):
                if cost + ce <= budget:
                    yield list(stmts) + [e], cost + ce

    def marker_blocks(self, c):
        """Bodies of an arm that can never be taken: empty, or one print."""
        return [([], 0), ([P(atoms(c)[0][0])], 1)]

    def inner(self, c, **kw):
        return c._replace(depth=c.depth - 1, rec=False, **kw)

    def _options(self, c, budget):
        """Every single statement of cost <= budget: (stmt, cost, ctx_after, jumps)."""
        out = []

        def add(s, cost, c2=c, j=False):
            if cost <= budget:
                out.append((s, cost, c2, j))

        ie = int_exprs(c)
        at = atoms(c)
        be = bool_exprs(c)
        a0 = at[0][0]
        a1 = at[1][0] if len(at) > 1 else I(2)
        # ---- let
        for name, cn in (("x", 0), ("y", 1)):
            if name in c.frozen:
                continue
            for e, ce in let_exprs(c):
                add(("Let", ("Sym", name), None, e), 1 + cn + ce, declare_int(c, name))
        if "x" not in c.frozen and "y" not in c.frozen:
            add(("Let", ("Destructure", ["x", "y"]), None, ("Tuple", [a0, a1])), 3, declare_int(declare_int(c, "x"), "y"))
            add(("Let", ("Destructure", ["_", "y"]), None, ("Tuple", [a0, a1])), 3, declare_int(c, "y"))
        for e, ce in noisy_bool_exprs():       # a Bool variable, only ever printed by the epilogue
            add(("Let", ("Sym", "c"), None, e), 1 + ce, declare_other(c, bv=True))
        if "s" not in c.frozen:
            add(("Let", ("Sym", "s"), None, noisy_str_expr()), 1 + NOISY_COST, declare_other(c, s=True))
        # ---- assignment
        k = 0
        for v in [v for v in c.ints if assignable(c, v)][:2]:
            for e, ce in ie:
                if e != V(v):
                    add(("Assign", v, e), 1 + k + max(1, ce))
            add(("AssignUpdate", v, "+=", I(1)), 1 + k)
            for e, ce in at:
                if e != I(1) and e != V(v):
                    add(("AssignUpdate", v, "+=", e), 2 + k + ce)
            add(("AssignUpdate", v, "-=", I(1)), 2 + k)
            k = 1
        # ---- output
        for e, ce in print_exprs(c):
            add(P(e), 1 + ce)
        add(call("print", S("k")), 3)
        if c.s:
            add(call("println", V("s")), 3)
        # ---- jumps
        if c.in_loop:
            add(("Break",), 1, c, True)
            add(("Continue",), 1, c, True)
        if c.fn is not None:
            for e, ce in ie:
                add(("Return", e), 1 + ce, c, True)
        # ---- call statements, assert
        for e, ce in calls(c):
            add(e, 1 + ce)
        for cond, cc in be:
            add(("Assert", cond), 2 + cc)
        # ---- lists and strings
        if "l" not in c.frozen:
            add(("Let", ("Sym", "l"), None, ("List", [I(1), I(2)])), 2, declare_other(c, l=True))
            if c.ints:
                add(("Let", ("Sym", "l"), None, ("List", [a0, I(1)])), 3, declare_other(c, l=True))
        if c.l and assignable(c, "l"):
            add(("Assign", "l", mcall(V("l"), "append", a0)), 2)
            add(("Assign", "l", mcall(V("l"), "append", a1)), 3)
        if "s" not in c.frozen:
            add(("Let", ("Sym", "s"), None, S("a")), 3, declare_other(c, s=True))
        if c.s and assignable(c, "s"):
            add(("Assign", "s", B(V("s"), "^", S("b"))), 2)
            add(("Assign", "s", B(V("s"), "^", call("string_repr", a0))), 3)
        if c.depth <= 0:
            return out
        # ---- value-position if / match
        if "x" not in c.frozen:
            ci = self.inner(c)
            for cond, cc in be[:2]:
                for tb, tc in self.vblocks(ci, budget - 2 - cc):
                    for eb, ec in self.vblocks(ci, budget - 2 - cc - tc):
                        add(("Let", ("Sym", "x"), None, ("If", cond, tb, eb)), 2 + cc + tc + ec, declare_int(c, "x"))
                        # the same as the right operand of an addition whose left operand is side-effect free
                        add(("Let", ("Sym", "x"), None, ("Bin", a0, "+", ("Paren", ("If", cond, tb, eb)))), 3 + cc + tc + ec, declare_int(c, "x"))
            for scrut, cs, ((p1, bind1), (p2, bind2)), live in scrutinees(c)[:3]:
                c1 = declare_int(ci, "n") if bind1 else ci
                c2 = declare_int(ci, "n") if bind2 else ci
                arms1 = self.vblocks(c1, budget - 2 - cs) if 0 in live else [([atoms(c1)[0][0]], 0)]
                for b1, k1 in arms1:
                    arms2 = self.vblocks(c2, budget - 2 - cs - k1) if 1 in live else [([atoms(c2)[0][0]], 0)]
                    for b2, k2 in arms2:
                        add(("Let", ("Sym", "x"), None, ("Match", scrut, [(p1, b1), (p2, b2)])), 2 + cs + k1 + k2, declare_int(c, "x"))
        # ---- if / else
        for cond, cc in be:
            rec = c.fn in ("f", "h") and cond == B(V("a"), ">", I(0))
            ci = self.inner(c)
            ct = ci._replace(rec=rec)
            for tb, tc in self.blocks(ct, budget - 1 - cc):
                add(("If", cond, tb, None), 1 + cc + tc)
                for eb, ec in self.blocks(ci, budget - 1 - cc - tc):
                    add(("If", cond, tb, eb), 1 + cc + tc + ec)
        # ---- while v < 3 { v += 1 ... }
        k = 0
        for v in [v for v in c.ints if assignable(c, v)][:2]:
            ci = self.inner(c, in_loop=True)
            for body, bc in self.blocks(ci, budget - 1 - k, allow_empty=True):
                add(("While", B(V(v), "<", I(WHILE_BOUND)), [("AssignUpdate", v, "+=", I(1))] + body), 1 + k + bc)
            k = 2
        # ---- for
        for dest, le, cl, names in list_exprs(c):
            ci = self.inner(c, in_loop=True)
            for nm in names:
                ci = declare_int(ci, nm)
            for body, bc in self.blocks(ci, budget - 1 - cl):
                add(("For", dest, le, body), 1 + cl + bc)
        # ---- match
        for scrut, cs, ((p1, bind1), (p2, bind2)), live in scrutinees(c):
            c1 = declare_int(self.inner(c), "n") if bind1 else self.inner(c)
            c2 = declare_int(self.inner(c), "n") if bind2 else self.inner(c)
            arms1 = self.blocks(c1, budget - 1 - cs, allow_empty=True) if 0 in live else self.marker_blocks(c1)
            for b1, k1 in arms1:
                arms2 = self.blocks(c2, budget - 1 - cs - k1, allow_empty=True) if 1 in live else self.marker_blocks(c2)
                for b2, k2 in arms2:
                    if b1 or b2:
                        add(("Match", scrut, [(p1, b1), (p2, b2)]), 1 + cs + k1 + k2)
        # ---- closure
        if c.g is None and c.fn != "g":
            # the parameter is `p`, or (one unit dearer) has the name of a variable of the enclosing scope, which it then shadows
            # inside the closure while the closure still captures that variable's frame
            for pn, extra in [("p", 0)] + ([(c.ints[0], 1)] if c.ints and c.ints[0] != "p" else []):
                cb = c._replace(ints=(pn,) + tuple(v for v in c.ints if v != pn), own=frozenset([pn]), in_loop=False, fn="g", rec=False,
                                g=None, depth=c.depth - 1)
                outer = set(c.ints) | {"l", "s"}
                for stmts, cost, c_after, jumped in self.seqs(cb, budget - 2 - extra, 2):
                    tails = [(None, 0)] if jumped else closure_tails(c_after, set(c.ints), pn)
                    for tail, ct in tails:
                        if 2 + extra + cost + ct > budget:
                            continue
                        body = list(stmts) + ([tail] if tail is not None else [])
                        captured = frozenset(var_names(body, set()) & outer)
                        add(("Let", ("Sym", "g"), None, ("Lambda", [(pn, None)], None, body)), 2 + extra + cost + ct,
                            c._replace(g=captured, frozen=c.frozen | captured))
        return out

    # ------------------------------------------------------------------ whole programs
    def fundefs(self, name, budget, depth, funs):
        """fun f(a) { stmts tail } / fun h(a, b) { stmts tail }: (item, cost)"""
        params = ("a",) if name == "f" else ("a", "b")
        c = Ctx(ints=tuple(reversed(params)), l=False, s=False, g=None, frozen=frozenset(), own=None, in_loop=False, fn=name,
                funs=funs, rec=False, depth=depth)
        base = 0 if name == "f" else 1          # the one-parameter function is free, the second form costs 1
        for stmts, cost, c_after, jumped in self.seqs(c, budget - base, MAX_BLOCK):
            tails = [(None, 0)] if jumped else int_exprs(c_after)
            for tail, ct in tails:
                if base + cost + ct > budget:
                    continue
                body = list(stmts) + ([tail] if tail is not None else [])
                used = var_names(body, set()) & TRACKED
                yield ("Fun", name, False, None, [], [(p, None) for p in params], None, body), base + cost + ct, used

    def programs(self, budget, depth, exact=None, groups=GROUPS):
        """Every program of weighted size <= budget: (items, cost), in a fixed order.
        exact=k keeps the programs of size exactly k; groups selects which sets of defined functions are
        generated (the four groups are disjoint and share no tables, so processes can split a level by group)."""
        enum_item = ("Enum", "Col", False, None, [], [("Red", None), ("Cust", ("T", "Int", []))])
        for which in groups:
            defs_list = [([], 0, frozenset())]
            for name in which:
                callable_from = tuple(n for n in which if n == "f" and name == "h")
                new = []
                for items, cost, used in defs_list:
                    for it, ci, used_i in self.fundefs(name, budget - cost - 2, depth, callable_from):
                        new.append((items + [it], cost + ci, used | {(name, n) for n in used_i}))
                defs_list = new
            top = Ctx(ints=(), l=False, s=False, g=None, frozen=frozenset(), own=None, in_loop=False, fn=None, funs=which,
                      rec=False, depth=depth)
            tops = [(stmts, cs, c_after, frozenset().union(*[self.tracked(st) for st in stmts]))
                    for stmts, cs, c_after, _j in self.seqs(top, budget, MAX_TOP) if stmts]
            tops.sort(key=lambda t: t[1])
            for defs, cd, used_defs in defs_list:
                enum_in_defs = any(n in ("Red", "Cust") for _f, n in used_defs)
                noisy_in_defs = any(n == "noisy" for _f, n in used_defs)
                for stmts, cs, c_after, names in tops:
                    if cs > budget - cd:
                        break
                    if exact is not None and cs + cd != exact:
                        continue
                    # no dead definitions: every function is called from the top level, or (f) from a called h
                    if "f" in which and not ("f" in names or ("h" in names and ("h", "f") in used_defs)):
                        continue
                    if "h" in which and "h" not in names:
                        continue
                    body = [("Expr", s) for s in stmts] + [("Expr", e) for e in epilogue(c_after)]
                    items = defs + body
                    if noisy_in_defs or "noisy" in names:
                        items = [NOISY_ITEM] + items
                    if enum_in_defs or "Red" in names or "Cust" in names:
                        items = [enum_item] + items
                    yield items, cd + cs


def dead_declaration(s, c):
    if s[0] != "Let" or s[1][0] != "Sym":
        return False
    name = s[1][1]
    if name in c.ints or (name == "l" and c.l) or (name == "s" and c.s):
        return False          # shadows a visible variable: a leak would be observable
    return s[3][0] == "Lambda" or not effectful(s[3])


def epilogue(c):
    out = [P(V(v)) for v in sorted(c.ints)]
    if c.l:
        out.append(P(V("l")))
    if c.s:
        out.append(P(V("s")))
    if c.bv:
        out.append(P(V("c")))
    if c.g is not None:
        out.append(P(call("g", I(1))))
    return out


# --------------------------------------------------------------------------- independent re-check of the fragment rules

class FragmentError(Exception):
    pass


USER_CALLABLES = ("f", "h", "g")


def effectful(e):
    k = e[0]
    if k == "Call":
        return e[1] in (V("f"), V("h"), V("g"), V("noisy")) or any(effectful(a) for a in e[2])
    if k == "MethodCall":
        return e[2] == "or_throw" or effectful(e[1]) or any(effectful(a) for a in e[3])
    if k == "Bin":
        return e[2] in ("/", "%", "**") or effectful(e[1]) or effectful(e[3])
    if k == "Paren":
        return effectful(e[1])
    if k in ("List", "Tuple"):
        return any(effectful(a) for a in e[1])
    if k in ("Int", "Str", "Var"):
        return False
    return True       # anything with statements inside


def check_fragment(items):
    """Raises FragmentError when a program leaves the fragment described in the module docstring."""
    funs = {it[1]: len(it[5]) for it in items if it[0] == "Fun"}
    globs = {"True", "False", "None", "Some", "Ok", "Err", "println", "print", "string_repr"} | set(funs)
    for it in items:
        if it[0] == "Enum":
            globs |= {v for v, _ in it[5]}

    def siblings(es):
        if sum(1 for x in es if effectful(x)) > 1:
            raise FragmentError("two effectful sibling operands")

    def expr(e, sc, st):
        # sc: list of sets (block scopes of the current function body); st: dict(loop, fn, frozen, own)
        k = e[0]
        if k in ("Int", "Str"):
            return
        if k == "Var":
            if not (any(e[1] in s for s in sc) or e[1] in globs):
                raise FragmentError(f"unbound {e[1]}")
            return
        if k == "Paren":
            return expr(e[1], sc, st)
        if k == "Bin":
            for x in (e[1], e[3]):
                if x[0] == "Bin":
                    raise FragmentError("unparenthesised operator chain")
                expr(x, sc, st)
            return          # binary operators evaluate left operand first: both may be effectful
        if k == "Call":
            expr(e[1], sc, st)
            for a in e[2]:
                expr(a, sc, st)
            siblings(e[2])
            if e[1][0] == "Var" and e[1][1] in funs and funs[e[1][1]] != len(e[2]):
                raise FragmentError("arity")
            return
        if k == "MethodCall":
            expr(e[1], sc, st)
            for a in e[3]:
                expr(a, sc, st)
            siblings([e[1]] + e[3])
            return
        if k in ("List", "Tuple"):
            for a in e[1]:
                expr(a, sc, st)
            siblings(e[1])
            return
        if k == "Lambda":
            if st["fn"] == "g":
                raise FragmentError("nested closure")
            params = {p for p, _ in e[1]}
            visible = set().union(*sc)
            inner = dict(loop=False, fn="g", frozen=set(), own=set(params), outer=visible)
            block(e[3], [set(s) for s in sc] + [set(params)], inner, own_scope=False)
            return
        if k == "Let":
            expr(e[3], sc, st)
            names = [e[1][1]] if e[1][0] == "Sym" else list(e[1][1])
            for n in names:
                if n in st["frozen"]:
                    raise FragmentError("captured variable redeclared")
                sc[-1].add(n)
                if st.get("own") is not None:
                    st["own"].add(n)
            if e[3][0] == "Lambda":
                cap = var_names(e[3][3], set()) & set().union(*sc)
                cap.discard(e[1][1])
                st["frozen"] |= cap
            return
        if k in ("Assign", "AssignUpdate"):
            if not any(e[1] in s for s in sc):
                raise FragmentError(f"assignment to undeclared {e[1]}")
            if e[1] in st["frozen"]:
                raise FragmentError("captured variable assigned after capture")
            if st.get("own") is not None and e[1] not in st["own"]:
                raise FragmentError("closure assigns a captured variable")
            expr(e[-1], sc, st)
            return
        if k == "If":
            expr(e[1], sc, st)
            block(e[2], sc, st)
            if e[3] is not None:
                block(e[3], sc, st)
            return
        if k == "While":
            expr(e[1], sc, st)
            block(e[2], sc, dict(st, loop=True))
            return
        if k == "For":
            expr(e[2], sc, st)
            names = [e[1][1]] if e[1][0] == "Sym" else list(e[1][1])
            block(e[3], sc, dict(st, loop=True), bind=names)
            return
        if k == "Match":
            expr(e[1], sc, st)
            for (variant, dest), body in e[2]:
                names = [] if dest is None else ([dest[1]] if dest[0] == "Sym" else list(dest[1]))
                block(body, sc, st, bind=[n for n in names if n != "_"])
            return
        if k == "Return":
            if st["fn"] is None:
                raise FragmentError("return outside a function")
            if e[1] is not None:
                expr(e[1], sc, st)
            return
        if k in ("Break", "Continue"):
            if not st["loop"]:
                raise FragmentError("break/continue outside a loop")
            return
        if k == "Assert":
            return expr(e[1], sc, st)
        raise FragmentError(f"node {k}")

    def block(body, sc, st, bind=(), own_scope=True):
        # declarations, captures and ownership recorded inside the block end with it
        st = dict(st, frozen=set(st["frozen"]), own=(set(st["own"]) | set(bind)) if st.get("own") is not None else None)
        if own_scope:
            sc.append(set(bind))
        for i, s in enumerate(body):
            expr(s, sc, st)
            if s[0] in ("Break", "Continue", "Return") and i != len(body) - 1:
                raise FragmentError("dead code after a jump")
        if own_scope:
            sc.pop()

    top_sc = [set()]
    top_st = dict(loop=False, fn=None, frozen=set(), own=None)
    for it in items:
        if it[0] == "Fun":
            params = {p for p, _ in it[5]}
            block(it[7], [set(params)], dict(loop=False, fn=it[1], frozen=set(), own=None), own_scope=False)
        elif it[0] == "Expr":
            expr(it[1], top_sc, top_st)
