"""`./gv replay <file>`: re-execute a recorded violation / known-finding instance on the current tree.

Schedules (C30/C31) are replayed exactly (the recorded choice prefix, twice, results must be identical) and the
property oracle is evaluated on that one execution. For the enumeration checks the replay re-runs the property's
quick tier and reports whether the recorded signature occurs again.
Exit 1 (with a VIOLATION line) if the violation reproduces, 0 if it does not, 3 on machinery problems."""
import importlib, json, os, sys

from . import build, core


def run(path):
    rec = json.load(open(path))
    pid, sig, detail = rec["property"], rec["signature"], rec.get("detail", {})
    if pid in ("C30", "C31") and isinstance(detail, dict) and "script" in detail and "prefix" in detail:
        return replay_schedule(pid, sig, detail, path)
    mod = importlib.import_module(f"gvlib.checks.{pid.lower()}")
    ctx = core.Ctx(pid, "quick", 0, level=getattr(mod, "LEVEL", "model_checking"))
    try:
        mod.run(ctx)
    except core.Machinery as e:
        print(f"MACHINERY: {e}")
        return core.EXIT_MACHINERY
    finally:
        if ctx._pool:
            ctx._pool.close()
    import shutil
    shutil.rmtree(ctx.scratch, ignore_errors=True)
    if sig in ctx.violations:
        print(f"VIOLATION property={pid} replay={path}  # reproduces: {sig}")
        print(json.dumps(ctx.violations[sig]["detail"], indent=1, ensure_ascii=False)[:3000])
        return core.EXIT_VIOLATION
    print(f"not reproduced on the current tree: {sig}")
    return core.EXIT_OK


def replay_schedule(pid, sig, detail, path):
    from . import schedx
    binary, _ = build.build()
    mod = importlib.import_module(f"gvlib.checks.{pid.lower()}")
    name = detail["scenario"]
    scn = mod.SCENARIOS[name]
    horizon = detail.get("horizon") or (600 if pid == "C30" else 100)
    a = schedx.run_exec(binary, detail["script"], detail["prefix"], horizon)
    b = schedx.run_exec(binary, detail["script"], detail["prefix"], horizon)
    if a["end"].startswith(("PROCESS", "BAD", "DIVERGED")) or schedx.canon(a) != schedx.canon(b):
        print(f"MACHINERY: schedule does not replay deterministically on this tree ({a['end']} / {b['end']})")
        return core.EXIT_MACHINERY

    class Rec:
        violations = {}

        def violation(self, s, d, cli_cmd=None):
            self.violations[s] = d
    r = Rec()
    mod.check_exec(r, name, scn, a, detail["prefix"], detail.get("deviations", 0))
    for (i, t, l, to) in schedx.executed_ops(a):
        print(f"  {i:3d} task{t} {l}{' (timer fires)' if to else ''}")
    for m in a["responses"]:
        print("  <-", json.dumps(m, sort_keys=True))
    if r.violations:
        for s in r.violations:
            print(f"VIOLATION property={pid} replay={path}  # reproduces: {s}")
        return core.EXIT_VIOLATION
    print("schedule replayed; the property holds on this execution")
    return core.EXIT_OK
