"""Typed program grammar and single-point mutation enumerator for C16.

A *base program* is a fully annotated, well-typed Garden program:

    enum Color { Red, Green, Custom(Int) }  struct Pt { x: Int, label: String }     (fixed prefix)
    [fun <helper>(...) ...]                  at most one helper (only when the body calls it)
    fun f(a: T1, b: T2): T { <body> }        body = a typed template of depth <= 2, slots filled by params / literals
    f(A-values)  f(B-values)                 main part: well-typed literal arguments

Nodes are plain tuples / lists so that an *edit* is (path, label, replacement) and `apply_edit` is generic:

  ("lit", src, ty) ("var", name) ("list", [e, ...]) ("bin", op, l, r) ("call", fname, [args]) ("mcall", recv, mname, [args])
  ("dot", recv, field) ("struct", tname, [[field, e], ...]) ("if", c, block, block|None)
  ("match", scrut, [[("pat", variant, binder|None), block], ...]) ("lam", [[p, hint], ...], ret, block)
  ("block", [stmt, ...])   stmt = expr | ("let", name, hint|None, e) | ("assign", name, e) | ("for", var, iterable, block)
                            | ("while", cond, block) | ("return", e|None)
  ("fun", name, [[p, hint], ...], ret, block)   ("prog", [fun, ...], [main expr, ...])

Nothing here is random: every enumeration is a fixed-order product.
"""

PRELUDE = "enum Color { Red, Green, Custom(Int) }\nstruct Pt { x: Int, label: String }\n"
TYPES = ["Int", "String", "Bool", "List<Int>", "Option<Int>", "Color", "Pt"]

ARITH = ["+", "-", "*", "/", "%"]
CMP = ["<", "<=", ">", ">="]
EQ = ["==", "!="]
LOGIC = ["&&", "||"]
ALL_OPS = ARITH + CMP + EQ + LOGIC + ["^"]


def lit(src, ty):
    return ("lit", src, ty)


def var(n):
    return ("var", n)


def block(*stmts):
    return ("block", list(stmts))


# ------------------------------------------------------------------ printer

def _needs_paren_operand(e):
    return e[0] in ("bin", "if", "match", "lam") or (e[0] == "lit" and e[1].startswith("-"))


def _needs_paren_recv(e):
    return e[0] in ("bin", "if", "match", "lam") or (e[0] == "lit" and (e[1].startswith("-") or e[1].startswith("fun")))


def src_block(b, ind):
    pad = "  " * (ind + 1)
    if not b[1]:
        return "{}"
    return "{\n" + "".join(pad + src_stmt(s, ind + 1) + "\n" for s in b[1]) + "  " * ind + "}"


def src_stmt(s, ind):
    if s[0] == "let":
        return f"let {s[1]}{': ' + s[2] if s[2] else ''} = {src_expr(s[3], ind)}"
    if s[0] == "assign":
        return f"{s[1]} = {src_expr(s[2], ind)}"
    if s[0] == "for":
        return f"for {s[1]} in {src_expr(s[2], ind)} {src_block(s[3], ind)}"
    if s[0] == "while":
        return f"while {src_expr(s[1], ind)} {src_block(s[2], ind)}"
    if s[0] == "return":
        return "return" + (" " + src_expr(s[1], ind) if s[1] is not None else "")
    return src_expr(s, ind)


def src_pat(p):
    return p[1] + (f"({p[2]})" if p[2] else "")


def src_expr(e, ind=0):
    k = e[0]
    if k == "lit":
        return e[1]
    if k == "var":
        return e[1]
    if k == "bin":
        l, r = src_expr(e[2], ind), src_expr(e[3], ind)
        if _needs_paren_operand(e[2]):
            l = f"({l})"
        if _needs_paren_operand(e[3]):
            r = f"({r})"
        return f"{l} {e[1]} {r}"
    if k == "call":
        return e[1] + "(" + ", ".join(src_expr(a, ind) for a in e[2]) + ")"
    if k == "mcall":
        r = src_expr(e[1], ind)
        if _needs_paren_recv(e[1]):
            r = f"({r})"
        return r + "." + e[2] + "(" + ", ".join(src_expr(a, ind) for a in e[3]) + ")"
    if k == "dot":
        r = src_expr(e[1], ind)
        if _needs_paren_recv(e[1]):
            r = f"({r})"
        return r + "." + e[2]
    if k == "struct":
        if not e[2]:
            return e[1] + "{}"
        return e[1] + "{ " + ", ".join(f"{f}: {src_expr(v, ind)}" for f, v in e[2]) + " }"
    if k == "if":
        s = f"if {src_expr(e[1], ind)} {src_block(e[2], ind)}"
        if e[3] is not None:
            s += " else " + src_block(e[3], ind)
        return s
    if k == "match":
        pad = "  " * (ind + 1)
        arms = "".join(f"{pad}{src_pat(p)} => {src_block(b, ind + 1)}\n" for p, b in e[2])
        return f"match {src_expr(e[1], ind)} {{\n{arms}{'  ' * ind}}}"
    if k == "lam":
        return "fun(" + ", ".join(f"{p}: {h}" for p, h in e[1]) + f"): {e[2]} " + src_block(e[3], ind)
    if k == "list":
        return "[" + ", ".join(src_expr(a, ind) for a in e[1]) + "]"
    if k == "block":
        return src_block(e, ind)
    raise ValueError(f"unknown node {e!r}")


def src_fun(f):
    return f"fun {f[1]}(" + ", ".join(f"{p}: {h}" for p, h in f[2]) + f"): {f[3]} " + src_block(f[4], 0) + "\n"


def src_prog(p):
    out = PRELUDE
    for f in p[1]:
        out += "\n" + src_fun(f)
    out += "\n"
    for m in p[2]:
        out += src_expr(m) + "\n"
    return out


# ------------------------------------------------------------------ helpers (the optional second function)

def _fun(name, params, ret, *stmts):
    return ("fun", name, [list(p) for p in params], ret, block(*stmts))


_ARMS_COLOR_INT = [[("pat", "Red", None), block(lit("1", "Int"))], [("pat", "Green", None), block(lit("2", "Int"))],
                   [("pat", "Custom", "i"), block(var("i"))]]

HELPERS = {
    "inc": _fun("inc", [("n", "Int")], "Int", ("bin", "*", var("n"), lit("2", "Int"))),
    "tag": _fun("tag", [("s", "String"), ("n", "Int")], "String", ("bin", "^", var("s"), ("call", "string_repr", [var("n")]))),
    "unwrap": _fun("unwrap", [("o", "Option<Int>")], "Int",
                   ("match", var("o"), [[("pat", "Some", "v"), block(var("v"))], [("pat", "None", None), block(lit("0", "Int"))]])),
    "find": _fun("find", [("l", "List<Int>"), ("n", "Int")], "Option<Int>", ("mcall", var("l"), "get", [var("n")])),
    "code": _fun("code", [("c", "Color")], "Int", ("match", var("c"), _ARMS_COLOR_INT)),
    "mk": _fun("mk", [("n", "Int")], "Color",
               ("if", ("bin", "<", var("n"), lit("1", "Int")), block(lit("Red", "Color")), block(("call", "Custom", [var("n")])))),
    "label_of": _fun("label_of", [("p", "Pt")], "String", ("dot", var("p"), "label")),
    "mkpt": _fun("mkpt", [("n", "Int"), ("s", "String")], "Pt", ("struct", "Pt", [["x", var("n")], ["label", var("s")]])),
    "total": _fun("total", [("l", "List<Int>")], "Int", ("mcall", var("l"), "len", [])),
    "flip": _fun("flip", [("q", "Bool")], "Bool", ("call", "not", [var("q")])),
    "evens": _fun("evens", [("l", "List<Int>")], "List<Int>",
                  ("mcall", var("l"), "filter", [("lam", [["x", "Int"]], "Bool",
                                                  block(("bin", "==", ("bin", "%", var("x"), lit("2", "Int")), lit("0", "Int"))))])),
}

BUILTIN_FUNS = {"println": (["String"], "Unit"), "string_repr": (["Any"], "String"), "not": (["Bool"], "Bool"), "max": (["Int", "Int"], "Int"),
                "Some": (["Int"], "Option<Int>"), "Custom": (["Int"], "Color")}

METHODS = {  # (receiver type, name) -> (param types, return type) for the instantiations the grammar uses
    ("String", "len"): ([], "Int"), ("String", "substring"): (["Int", "Int"], "String"), ("String", "trim"): ([], "String"),
    ("String", "starts_with"): (["String"], "Bool"), ("String", "contains"): (["String"], "Bool"),
    ("String", "index_of"): (["String"], "Option<Int>"), ("String", "as_int"): ([], "Option<Int>"),
    ("List<Int>", "len"): ([], "Int"), ("List<Int>", "get"): (["Int"], "Option<Int>"), ("List<Int>", "append"): (["Int"], "List<Int>"),
    ("List<Int>", "first"): ([], "Option<Int>"), ("List<Int>", "last"): ([], "Option<Int>"),
    ("List<Int>", "is_empty"): ([], "Bool"), ("List<Int>", "contains"): (["Int"], "Bool"),
    ("List<Int>", "map"): (["Fun"], "List<Int>"), ("List<Int>", "filter"): (["Fun"], "List<Int>"),
    ("List<Int>", "concat"): (["List<Int>"], "List<Int>"), ("List<Int>", "index_of"): (["Int"], "Option<Int>"),
    ("Option<Int>", "or_value"): (["Int"], "Int"), ("Option<Int>", "or_throw"): ([], "Int"),
    ("Option<Int>", "is_some"): ([], "Bool"), ("Option<Int>", "is_none"): ([], "Bool"),
}
FIELDS = {"x": "Int", "label": "String"}


def fun_sigs(prog):
    sigs = dict(BUILTIN_FUNS)
    for f in prog[1]:
        sigs[f[1]] = ([h for _, h in f[2]], f[3])
    return sigs


def typeof(e, scope, sigs):
    """Type of a node of a (well-typed) base program; "?" when unknown."""
    k = e[0]
    if k == "lit":
        return e[2]
    if k == "var":
        return scope.get(e[1], "?")
    if k == "bin":
        return "Int" if e[1] in ARITH else ("String" if e[1] == "^" else "Bool")
    if k == "call":
        if e[1] in sigs:
            return sigs[e[1]][1]
        v = scope.get(e[1], "")
        return v[4:] if v.startswith("Fun:") else "?"
    if k == "mcall":
        m = METHODS.get((typeof(e[1], scope, sigs), e[2]))
        return m[1] if m else "?"
    if k == "dot":
        return FIELDS.get(e[2], "?")
    if k == "struct":
        return e[1]
    if k == "list":
        return "List<Int>"
    if k == "if":
        return typeof(e[2], scope, sigs) if e[3] is not None else "Unit"
    if k == "match":
        if not e[2]:
            return "?"
        p, b = e[2][0]
        sc = dict(scope)
        if p[2]:
            sc[p[2]] = "Int"
        return typeof(b, sc, sigs)
    if k == "lam":
        return "Fun"
    if k == "block":
        sc = dict(scope)
        t = "Unit"
        for s in e[1]:
            if s[0] == "let":
                sc[s[1]] = let_type(s[3], sc, sigs)
                t = "Unit"
            elif s[0] in ("assign", "for", "while"):
                t = "Unit"
            elif s[0] == "return":
                t = "NoValue"
            else:
                t = typeof(s, sc, sigs)
        return t
    return "?"


def let_type(e, scope, sigs):
    """Type recorded for a let-bound name: a closure remembers its declared return type ("Fun:Int") so calls of it type."""
    return "Fun:" + e[2] if e[0] == "lam" else typeof(e, scope, sigs)


# ------------------------------------------------------------------ templates

DEFAULT_LIT = {"Int": lit("1", "Int"), "String": lit('"s"', "String"), "Bool": lit("True", "Bool"), "List<Int>": lit("[1, 2]", "List<Int>"),
               "Option<Int>": lit("Some(1)", "Option<Int>"), "Color": lit("Green", "Color"), "Pt": lit('Pt{ x: 1, label: "s" }', "Pt")}
# second literal of a type, used when two literal slots of one type meet (keeps `1 / 1`, `"s" == "s"` from being the only shape)
SECOND_LIT = {"Int": lit("2", "Int"), "String": lit('"t"', "String"), "Bool": lit("False", "Bool"), "List<Int>": lit("[]", "List<Int>"),
              "Option<Int>": lit("None", "Option<Int>"), "Color": lit("Red", "Color"), "Pt": lit('Pt{ x: 2, label: "t" }', "Pt")}

# main-part argument values: vector A then vector B
ARG_A = {"Int": lit("3", "Int"), "String": lit('"ab"', "String"), "Bool": lit("True", "Bool"), "List<Int>": lit("[1, 2]", "List<Int>"),
         "Option<Int>": lit("Some(3)", "Option<Int>"), "Color": lit("Custom(4)", "Color"), "Pt": lit('Pt{ x: 1, label: "a" }', "Pt")}
ARG_B = {"Int": lit("0", "Int"), "String": lit('""', "String"), "Bool": lit("False", "Bool"), "List<Int>": lit("[]", "List<Int>"),
         "Option<Int>": lit("None", "Option<Int>"), "Color": lit("Red", "Color"), "Pt": lit('Pt{ x: 0, label: "" }', "Pt")}


def _lam(ret, body):
    return ("lam", [["x", "Int"]], ret, block(body))


def _mk_templates():
    """(name, result type, slot types, build(slots) -> [stmts], helper|None). Expression templates have one stmt."""
    T = []

    def t(name, ty, slots, build, helper=None):
        T.append((name, ty, slots, build, helper))

    I, S, B, L, O, C, P = TYPES
    for op in ARITH:
        t(f"int{op}", I, [I, I], lambda s, op=op: [("bin", op, s[0], s[1])])
    t("str.len", I, [S], lambda s: [("mcall", s[0], "len", [])])
    t("list.len", I, [L], lambda s: [("mcall", s[0], "len", [])])
    t("pt.x", I, [P], lambda s: [("dot", s[0], "x")])
    t("opt.or_value", I, [O, I], lambda s: [("mcall", s[0], "or_value", [s[1]])])
    t("opt.or_throw", I, [O], lambda s: [("mcall", s[0], "or_throw", [])])
    t("match-opt-int", I, [O, I], lambda s: [("match", s[0], [[("pat", "Some", "v"), block(("bin", "+", var("v"), lit("1", "Int")))],
                                                              [("pat", "None", None), block(s[1])]])])
    t("match-col-int", I, [C, I], lambda s: [("match", s[0], [[("pat", "Red", None), block(s[1])], [("pat", "Green", None), block(lit("2", "Int"))],
                                                              [("pat", "Custom", "i"), block(var("i"))]])])
    t("match-col-wild", I, [C, I], lambda s: [("match", s[0], [[("pat", "Custom", "i"), block(var("i"))], [("pat", "_", None), block(s[1])]])])
    t("if-int", I, [B, I, I], lambda s: [("if", s[0], block(s[1]), block(s[2]))])
    t("let-int", I, [I, I], lambda s: [("let", "y", None, s[0]), ("bin", "+", var("y"), s[1])])
    t("let-ann-int", I, [I], lambda s: [("let", "y", "Int", s[0]), ("bin", "*", var("y"), lit("2", "Int"))])
    t("for-sum", I, [L, I], lambda s: [("let", "t", None, s[1]), ("for", "x", s[0], block(("assign", "t", ("bin", "+", var("t"), var("x"))))), var("t")])
    # explicit early `return` in a named function: inside an if, a match arm, a for body, a while body; bare return in a Unit function
    t("ret-if-int", I, [I, I], lambda s: [("if", ("bin", "<", s[0], lit("1", "Int")), block(("return", s[1])), None), ("bin", "+", s[0], lit("1", "Int"))])
    t("ret-while-int", I, [I, I], lambda s: [("let", "t", None, s[0]),
                                             ("while", ("bin", "<", var("t"), lit("9", "Int")),
                                              block(("if", ("bin", ">", var("t"), lit("5", "Int")), block(("return", ("bin", "+", var("t"), s[1]))), None),
                                                    ("assign", "t", ("bin", "+", var("t"), lit("1", "Int"))))),
                                             lit("0", "Int")])
    # ... and inside an annotated closure whose return type differs from the enclosing function's
    t("clo-let-ret", I, [L, I], lambda s: [("let", "g", None, ("lam", [["x", "Int"]], "Bool",
                                                               block(("if", ("bin", "<", var("x"), s[1]), block(("return", lit("False", "Bool"))), None),
                                                                     lit("True", "Bool")))),
                                           ("if", ("call", "g", [lit("1", "Int")]), block(("mcall", s[0], "len", [])), block(lit("0", "Int")))])
    # lets inside nested blocks (if / else / match arm / for body / while body): binders whose scope ends before the function does
    t("let-in-if", I, [B, I, I], lambda s: [("if", s[0], block(("let", "d", None, s[1]), ("bin", "+", var("d"), lit("1", "Int"))),
                                             block(("let", "e", None, s[2]), ("bin", "*", var("e"), lit("2", "Int"))))])
    t("let-in-match", I, [O, I], lambda s: [("match", s[0], [[("pat", "Some", "v"), block(("let", "d", None, ("bin", "+", var("v"), lit("1", "Int"))), ("bin", "*", var("d"), s[1]))],
                                                             [("pat", "None", None), block(s[1])]])])
    t("let-in-loops", I, [L, I], lambda s: [("let", "t", None, s[1]),
                                            ("for", "x", s[0], block(("let", "d", None, ("bin", "*", var("x"), lit("2", "Int"))), ("assign", "t", ("bin", "+", var("t"), var("d"))))),
                                            ("while", ("bin", "<", var("t"), lit("9", "Int")), block(("let", "w", None, ("bin", "+", var("t"), lit("3", "Int"))), ("assign", "t", var("w")))),
                                            var("t")])
    t("call-inc", I, [I], lambda s: [("call", "inc", [s[0]])], "inc")
    t("call-unwrap", I, [O], lambda s: [("call", "unwrap", [s[0]])], "unwrap")
    t("call-code", I, [C], lambda s: [("call", "code", [s[0]])], "code")
    t("call-total", I, [L], lambda s: [("call", "total", [s[0]])], "total")
    t("call-max", I, [I, I], lambda s: [("call", "max", [s[0], s[1]])])

    t("str^", S, [S, S], lambda s: [("bin", "^", s[0], s[1])])
    t("pt.label", S, [P], lambda s: [("dot", s[0], "label")])
    t("str.substring", S, [S, I, I], lambda s: [("mcall", s[0], "substring", [s[1], s[2]])])
    t("str.trim", S, [S], lambda s: [("mcall", s[0], "trim", [])])
    t("string_repr", S, [I], lambda s: [("call", "string_repr", [s[0]])])
    t("if-str", S, [B, S, S], lambda s: [("if", s[0], block(s[1]), block(s[2]))])
    t("match-opt-str", S, [O, S], lambda s: [("match", s[0], [[("pat", "Some", "v"), block(("call", "string_repr", [var("v")]))],
                                                              [("pat", "None", None), block(s[1])]])])
    t("let-ann-str", S, [S, S], lambda s: [("let", "y", "String", s[0]), ("bin", "^", var("y"), s[1])])
    t("ret-match-str", S, [O, S], lambda s: [("let", "y", None, ("match", s[0], [[("pat", "Some", "v"), block(var("v"))],
                                                                             [("pat", "None", None), block(("return", s[1]))]])),
                                             ("call", "string_repr", [var("y")])])
    t("clo-let-ret-str", S, [I, I], lambda s: [("let", "g", None, ("lam", [["x", "Int"]], "Int",
                                                                   block(("if", ("bin", "<", var("x"), lit("1", "Int")), block(("return", s[1])), None),
                                                                         ("bin", "+", var("x"), lit("1", "Int"))))),
                                               ("call", "string_repr", [("call", "g", [s[0]])])])
    t("call-tag", S, [S, I], lambda s: [("call", "tag", [s[0], s[1]])], "tag")
    t("call-label_of", S, [P], lambda s: [("call", "label_of", [s[0]])], "label_of")

    for op in CMP + EQ:
        t(f"int{op}", B, [I, I], lambda s, op=op: [("bin", op, s[0], s[1])])
    t("str==", B, [S, S], lambda s: [("bin", "==", s[0], s[1])])
    for op in LOGIC:
        t(f"bool{op}", B, [B, B], lambda s, op=op: [("bin", op, s[0], s[1])])
    t("not", B, [B], lambda s: [("call", "not", [s[0]])])
    t("list.is_empty", B, [L], lambda s: [("mcall", s[0], "is_empty", [])])
    t("list.contains", B, [L, I], lambda s: [("mcall", s[0], "contains", [s[1]])])
    t("str.starts_with", B, [S, S], lambda s: [("mcall", s[0], "starts_with", [s[1]])])
    t("opt.is_some", B, [O], lambda s: [("mcall", s[0], "is_some", [])])
    t("match-col-bool", B, [C, B], lambda s: [("match", s[0], [[("pat", "Red", None), block(s[1])], [("pat", "Green", None), block(lit("False", "Bool"))],
                                                               [("pat", "Custom", "i"), block(("bin", "<", var("i"), lit("3", "Int")))]])])
    t("call-flip", B, [B], lambda s: [("call", "flip", [s[0]])], "flip")

    t("list-lit", L, [I, I], lambda s: [("list", [s[0], s[1]])])
    t("list.append", L, [L, I], lambda s: [("mcall", s[0], "append", [s[1]])])
    t("list.map", L, [L, I], lambda s: [("mcall", s[0], "map", [_lam("Int", ("bin", "+", var("x"), s[1]))])])
    t("list.filter", L, [L, I], lambda s: [("mcall", s[0], "filter", [_lam("Bool", ("bin", "<", var("x"), s[1]))])])
    t("list.concat", L, [L, L], lambda s: [("mcall", s[0], "concat", [s[1]])])
    t("if-list", L, [B, L, L], lambda s: [("if", s[0], block(s[1]), block(s[2]))])
    t("let-list", L, [L, I], lambda s: [("let", "y", None, ("mcall", s[0], "append", [s[1]])), ("mcall", var("y"), "append", [lit("7", "Int")])])
    t("clo-map-ret", L, [L, I], lambda s: [("mcall", s[0], "map", [("lam", [["x", "Int"]], "Int",
                                                                   block(("if", ("bin", "<", var("x"), s[1]), block(("return", lit("0", "Int"))), None),
                                                                         ("bin", "+", var("x"), lit("1", "Int"))))])])
    t("clo-filter-ret", L, [L, I], lambda s: [("mcall", s[0], "filter", [("lam", [["x", "Int"]], "Bool",
                                                                         block(("if", ("bin", "<", var("x"), s[1]), block(("return", lit("False", "Bool"))), None),
                                                                               lit("True", "Bool")))])])
    t("call-evens", L, [L], lambda s: [("call", "evens", [s[0]])], "evens")

    t("some", O, [I], lambda s: [("call", "Some", [s[0]])])
    t("list.get", O, [L, I], lambda s: [("mcall", s[0], "get", [s[1]])])
    t("list.first", O, [L], lambda s: [("mcall", s[0], "first", [])])
    t("str.index_of", O, [S, S], lambda s: [("mcall", s[0], "index_of", [s[1]])])
    t("if-opt", O, [B, O], lambda s: [("if", s[0], block(s[1]), block(lit("None", "Option<Int>")))])
    t("match-opt-opt", O, [O, I], lambda s: [("match", s[0], [[("pat", "Some", "v"), block(("call", "Some", [("bin", "+", var("v"), s[1])]))],
                                                              [("pat", "None", None), block(lit("None", "Option<Int>"))]])])
    t("let-ann-opt", O, [O], lambda s: [("let", "y", "Option<Int>", s[0]), var("y")])
    t("ret-for-opt", O, [L, I], lambda s: [("for", "x", s[0], block(("if", ("bin", ">", var("x"), s[1]), block(("return", ("call", "Some", [var("x")]))), None))),
                                           lit("None", "Option<Int>")])
    t("call-find", O, [L, I], lambda s: [("call", "find", [s[0], s[1]])], "find")

    t("custom", C, [I], lambda s: [("call", "Custom", [s[0]])])
    t("if-col", C, [B, C], lambda s: [("if", s[0], block(s[1]), block(lit("Red", "Color")))])
    t("match-col-col", C, [C, I], lambda s: [("match", s[0], [[("pat", "Red", None), block(lit("Green", "Color"))],
                                                              [("pat", "Green", None), block(lit("Red", "Color"))],
                                                              [("pat", "Custom", "i"), block(("call", "Custom", [("bin", "+", var("i"), s[1])]))]])])
    t("call-mk", C, [I], lambda s: [("call", "mk", [s[0]])], "mk")

    t("pt-lit", P, [I, S], lambda s: [("struct", "Pt", [["x", s[0]], ["label", s[1]]])])
    t("if-pt", P, [B, P, P], lambda s: [("if", s[0], block(s[1]), block(s[2]))])
    t("let-pt", P, [P], lambda s: [("let", "y", None, s[0]), ("struct", "Pt", [["x", ("dot", var("y"), "x")], ["label", ("dot", var("y"), "label")]])])
    t("call-mkpt", P, [I, S], lambda s: [("call", "mkpt", [s[0], s[1]])], "mkpt")
    t("ret-bare-unit", "Unit", [I, S], lambda s: [("if", ("bin", "<", s[0], lit("1", "Int")), block(("return", None)), None), ("call", "println", [s[1]])])
    return T


# templates that exist for their binders (scope edits): used as function bodies only, not as depth-2 slot fillers
OUTER_ONLY = {"let-in-if", "let-in-match"}
TEMPLATES = _mk_templates()
BY_TYPE = {ty: [t for t in TEMPLATES if t[1] == ty] for ty in TYPES}


def fills(slot_types, full):
    """Assignments of leaf slots to parameters / literals with at most two parameters.
    Returns [(params [(name, type)], leaves [node])]. `full`: every subset of <=2 slots as distinct params plus the
    shared-param variant; otherwise only the canonical fill (first two slots are params a, b)."""
    n = len(slot_types)
    out = []
    import itertools
    subsets = []
    if full:
        for k in (2, 1, 0):
            subsets += list(itertools.combinations(range(n), k))
    else:
        subsets = [tuple(range(min(2, n)))]
    for sub in subsets:
        params, leaves, used = [], [], {}
        names = iter("ab")
        for i, ty in enumerate(slot_types):
            if i in sub:
                nm = next(names)
                params.append((nm, ty))
                leaves.append(var(nm))
            else:
                k = used.get(ty, 0)
                used[ty] = k + 1
                leaves.append(DEFAULT_LIT[ty] if k == 0 else SECOND_LIT[ty])
        out.append((params, leaves))
    if full:
        # both slots of one type share the single parameter: `a + a`
        for i in range(n):
            for j in range(i + 1, n):
                if slot_types[i] == slot_types[j]:
                    leaves, used = [], {}
                    for q, ty in enumerate(slot_types):
                        if q in (i, j):
                            leaves.append(var("a"))
                        else:
                            k = used.get(ty, 0)
                            used[ty] = k + 1
                            leaves.append(DEFAULT_LIT[ty] if k == 0 else SECOND_LIT[ty])
                    out.append(([("a", slot_types[i])], leaves))
                    break
            else:
                continue
            break
    return out


def make_prog(name, ret, stmts, params, helpers):
    f = ("fun", "f", [list(p) for p in params], ret, block(*stmts))
    funs = [HELPERS[h] for h in helpers] + [f]
    mains = []
    a = ("call", "f", [ARG_A[t] for _, t in params])
    mains.append(a)
    if params:
        mains.append(("call", "f", [ARG_B[t] for _, t in params]))
    return ("prog", funs, mains)


def base_programs(depth2, full_fills):
    """Yield (name, prog, inner_path|None, inner template name|None). Depth 1: every template with every fill. Depth 2 (when `depth2`): every
    template with exactly one slot expanded by every expression template of the slot's type (inner slots take the
    canonical fill over the parameters that are left), <=1 helper function in total.
    inner_path: path of the expanded slot's subtree inside the program (None for depth 1)."""
    for name, ty, slots, build, helper in TEMPLATES:
        for params, leaves in fills(slots, full_fills):
            yield (f"{name}/{''.join(n for n, _ in params) or '-'}", make_prog(name, ty, build(leaves), params, [helper] if helper else []), None, None)
    if not depth2:
        return
    for name, ty, slots, build, helper in TEMPLATES:
        for si, sty in enumerate(slots):
            for iname, ity, islots, ibuild, ihelper in BY_TYPE[sty]:
                if iname in OUTER_ONLY:
                    continue
                if helper and ihelper and helper != ihelper:
                    continue  # would need three functions
                istmts_probe = ibuild([DEFAULT_LIT[t] for t in islots])
                if len(istmts_probe) != 1:
                    continue  # `let` templates are block-shaped: outer position only
                # parameters: inner slots first (up to 2), outer other slots take what is left, rest literals
                params, names = [], iter("ab")
                ileaves, used = [], {}
                for t_ in islots:
                    if len(params) < 2:
                        nm = next(names)
                        params.append((nm, t_))
                        ileaves.append(var(nm))
                    else:
                        k = used.get(t_, 0)
                        used[t_] = k + 1
                        ileaves.append(DEFAULT_LIT[t_] if k == 0 else SECOND_LIT[t_])
                inner = ibuild(ileaves)[0]
                oleaves = []
                for q, t_ in enumerate(slots):
                    if q == si:
                        oleaves.append(inner)
                    elif len(params) < 2:
                        nm = next(names)
                        params.append((nm, t_))
                        oleaves.append(var(nm))
                    else:
                        k = used.get(t_, 0)
                        used[t_] = k + 1
                        oleaves.append(DEFAULT_LIT[t_] if k == 0 else SECOND_LIT[t_])
                hs = [h for h in (helper, ihelper) if h]
                hs = sorted(set(hs))
                prog = make_prog(name, ty, build(oleaves), params, hs)
                ipath = find_path(prog, inner)
                yield (f"{name}[{si}<-{iname}]", prog, ipath, iname)


def find_path(node, target, path=()):
    if node is target:
        return path
    if isinstance(node, (tuple, list)):
        for i, c in enumerate(node):
            if isinstance(c, (tuple, list)):
                r = find_path(c, target, path + (i,))
                if r is not None:
                    return r
    return None


# ------------------------------------------------------------------ edits

HINT_ALTS = TYPES + ["List<String>", "Option<String>", "Nosuch"]
METHOD_ALTS = ["len", "get", "append", "or_value", "or_throw", "is_empty", "contains", "map", "filter", "first", "trim", "substring",
               "starts_with", "is_some", "index_of", "concat", "nosuch"]
FIELD_ALTS = ["x", "label", "nosuch"]
PAT_ALTS = [("pat", "Some", "v"), ("pat", "None", None), ("pat", "Red", None), ("pat", "Green", None), ("pat", "Custom", "i"), ("pat", "_", None),
            ("pat", "Some", None), ("pat", "None", "v"), ("pat", "Custom", None), ("pat", "Red", "i"), ("pat", "Nosuch", None)]
EXPR_ALTS = [lit("1", "Int"), lit('"s"', "String"), lit("True", "Bool"), lit("[1, 2]", "List<Int>"), lit("Some(1)", "Option<Int>"),
             lit("None", "Option<Int>"), lit("Red", "Color"), lit("Custom(1)", "Color"), lit('Pt{ x: 1, label: "s" }', "Pt"),
             lit('Some("s")', "Option<String>"), lit('["s"]', "List<String>"), lit("[]", "List<NoValue>"),
             lit("fun(q: Int): Int { q }", "Fun"), lit("0", "Int"), lit("Custom", "Ctor"), lit("(1, 2)", "Tuple"),
             lit('throw("boom")', "NoValue"), lit("1.5", "Float"), lit('println("x")', "Unit")]
# reduced alphabet: one literal per grammar type, the two wrong-payload containers, a tuple and a diverging expression
EXPR_ALTS_SMALL = [EXPR_ALTS[i] for i in (0, 1, 2, 3, 4, 6, 8, 9, 10, 15, 16)]

OP_CLASS = {}
for _o in ARITH:
    OP_CLASS[_o] = "arithmetic"
for _o in CMP:
    OP_CLASS[_o] = "comparison"
for _o in EQ:
    OP_CLASS[_o] = "equality"
for _o in LOGIC:
    OP_CLASS[_o] = "logic"
OP_CLASS["^"] = "concat"


def family(frm, to):
    """Type family of a replacement as seen from the replaced node's type. Keeps the signature set small: the exact
    type only where the payload of the same container changes; tuples and functions are kept apart from other types."""
    if to == frm:
        return "same type"
    if to == "Nosuch":
        return "unknown type name"
    if to == "unbound":
        return "unbound name"
    if to in ("Fun", "Ctor") or to.startswith("Fun:"):
        return "function"
    if to in ("Tuple", "NoValue"):
        return to
    if to.startswith(("List<", "Option<")) and frm.split("<")[0] == to.split("<")[0]:
        return to
    return "other type"


def apply_edit(node, path, repl):
    if not path:
        return repl
    i = path[0]
    c = list(node)
    c[i] = apply_edit(node[i], path[1:], repl)
    return tuple(c) if isinstance(node, tuple) else c


def disjoint(p, q):
    n = min(len(p), len(q))
    return p[:n] != q[:n]


class Edits:
    """All single-point edits of a program: self.out = [(path, label, replacement, fine_label)].
    `label` names the mutation *class* (syntactic category, role of the mutated node, type before → type after);
    `fine_label` adds the concrete names. The helper function is mutated at signature level only (its body is the
    body of some other base program); of the main part the first call is mutated."""

    def __init__(self, prog, small=False, only_under=None, compound=True):
        self.prog = prog
        self.sigs = fun_sigs(prog)
        self.user = {f[1] for f in prog[1]}
        self.out = []
        self.alts = EXPR_ALTS_SMALL if small else EXPR_ALTS
        self.compound = compound
        self.owner = "function"     # what an explicit `return` returns from
        self.binders = []           # (name, binder kind, index of the top-level statement of f's body that contains it | -1)
        self._top = None
        funs = prog[1]
        for fi, f in enumerate(funs):
            self.fun(f, (1, fi), body=(f[1] == "f"))
        for mi, m in enumerate(prog[2]):
            if mi == 0:
                self.expr(m, (2, mi), {}, "top-level statement", "top-level statement")
        if only_under is not None:
            n = len(only_under)
            self.out = [e for e in self.out if e[0][:n] == only_under]

    def add(self, path, label, repl, fine=None):
        self.out.append((path, label, repl, fine or label))

    def callee_kind(self, name):
        if name in self.user:
            return "user fun"
        if name in ("Some", "Custom"):
            return "constructor"
        return "builtin fun"

    def fun(self, f, path, body):
        _, name, params, ret, blk = f
        who = "" if name == "f" else " of callee"
        for pi, (pn, ph) in enumerate(params):
            for h in HINT_ALTS:
                if h != ph:
                    self.add(path + (2, pi, 1), f"annotation of param{who}: {ph}→{family(ph, h)}", h, f"annotation of param{who} {pn}: {ph}→{h}")
            self.add(path + (2, pi, 0), f"param{who} renamed (uses become unbound)", "zz")
        for h in HINT_ALTS:
            if h != ret:
                self.add(path + (3,), f"annotation of return{who}: {ret}→{family(ret, h)}", h, f"annotation of return{who}: {ret}→{h}")
        if params:
            self.add(path + (2,), f"arity: param dropped from definition{who}", params[:-1])
        self.add(path + (2,), f"arity: param added to definition{who}", params + [["extra", "Int"]])
        self.add(path + (1,), f"function{who} renamed (callers unbound)", name + "2")
        if not body:
            for pn, ph in params:
                self.binders.append((pn, "parameter of the other function", -1))
        if body:
            scope = {pn: ph for pn, ph in params}
            self.block(blk, path + (4,), scope, "fun body")
            self.out_of_scope(f, path)

    def out_of_scope(self, f, path):
        """One mutant per binder whose scope ends before f's body does: `let oos = <name>` as a later top-level statement of f
        (after the statement that contains the binder; when that is the result expression it is first bound to `r0`)."""
        stmts = f[4][1]
        top_names = {pn for pn, _ in f[2]} | {s[1] for s in stmts if s[0] == "let"}
        seen = set()
        for name, kind, top in self.binders:
            if name in top_names or (name, kind, top) in seen or top is None:
                continue
            seen.add((name, kind, top))
            use = ("let", "oos", None, var(name))
            if top < len(stmts) - 1:
                new = stmts[:top + 1] + [use] + stmts[top + 1:]
            else:
                new = stmts[:top] + [("let", "r0", None, stmts[top]), use, var("r0")]
            self.add(path + (4, 1), f"variable referenced out of scope: {kind}", new, f"variable referenced out of scope: {kind} `{name}`")

    def block(self, blk, path, scope, kind):
        sc = dict(scope)
        n = len(blk[1])
        for i, s in enumerate(blk[1]):
            p = path + (1, i)
            if kind == "fun body":
                self._top = i
            if s[0] == "let":
                _, nm, hint, e = s
                if kind != "fun body":
                    self.binders.append((nm, f"let in {kind}", self._top))
                t = typeof(e, sc, self.sigs)
                for h in HINT_ALTS:
                    if h != hint:
                        self.add(p + (2,), f"annotation of let: {hint or 'none (inferred ' + t + ')'}→{family(hint or t, h)}", h, f"annotation of let: {hint or 'none'}→{h}")
                if hint is not None:
                    self.add(p + (2,), f"annotation of let: {hint}→none", None)
                self.add(p + (1,), "let renamed (uses become unbound)", "zz")
                r = f"let value ({'annotated' if hint else 'unannotated'})"
                self.expr(e, p + (3,), sc, r, r)
                sc[nm] = let_type(e, sc, self.sigs)
            elif s[0] == "assign":
                for nm in sorted(sc) + ["zz"]:
                    if nm != s[1]:
                        self.add(p + (1,), f"assignment target: {sc.get(s[1], '?')}→{family(sc.get(s[1], '?'), sc.get(nm, 'unbound'))}", nm,
                                 f"assignment target {s[1]}→{nm}")
                self.expr(s[2], p + (2,), sc, "assigned value", "assigned value")
            elif s[0] == "while":
                self.expr(s[1], p + (1,), sc, "while condition", "while condition")
                self.block(s[2], p + (2,), sc, "while body")
            elif s[0] == "return":
                if s[1] is None:
                    for a in self.alts:
                        self.add(p + (1,), f"bare return in {self.owner} given a value: Unit→{family('Unit', a[2])}", a, f"bare return in {self.owner} given the value {a[1]}")
                else:
                    self.add(p + (1,), f"early return in {self.owner}: value dropped", None)
                    r = f"early return value in {self.owner}"
                    self.expr(s[1], p + (1,), sc, r, r + f" ({kind})")
            elif s[0] == "for":
                self.binders.append((s[1], "for variable", self._top))
                self.add(p + (1,), "loop variable renamed (uses become unbound)", "zz")
                self.expr(s[2], p + (2,), sc, "for-loop iterable", "for-loop iterable")
                sc2 = dict(sc)
                sc2[s[1]] = "Int"
                self.block(s[3], p + (3,), sc2, "for body")
            else:
                r = f"result of {kind}" if i == n - 1 else f"statement in {kind}"
                self.expr(s, p, sc, r, r)

    def expr(self, e, path, scope, role, fine_role):
        k = e[0]
        t = typeof(e, scope, self.sigs)
        if role != "top-level statement" and (self.compound or k in ("lit", "var")):
            alts = list(self.alts) + [var(v) for v in sorted(scope)] + [var("zz")] + [var(n) for n in sorted(self.user)]
            for a in alts:
                if a == e:
                    continue
                at = typeof(a, scope, self.sigs) if a[0] != "var" else (scope.get(a[1]) or ("Fun" if a[1] in self.user else "unbound"))
                self.add(path, f"{role}: {t}→{family(t, at)}", a, f"{fine_role}: {t}→{at}")
        if k == "bin":
            lt, rt = typeof(e[2], scope, self.sigs), typeof(e[3], scope, self.sigs)
            oc = OP_CLASS[e[1]]
            for op in ALL_OPS:
                if op != e[1]:
                    self.add(path + (1,), f"operator {oc}→{OP_CLASS[op]} on ({lt}, {rt})", op, f"operator {e[1]}→{op} on ({lt}, {rt}) as {fine_role}")
            self.expr(e[2], path + (2,), scope, f"operand of {oc} operator", f"left operand of {e[1]}")
            self.expr(e[3], path + (3,), scope, f"operand of {oc} operator", f"right operand of {e[1]}")
        elif k == "call":
            ck = "closure variable" if scope.get(e[1], "").startswith("Fun:") else self.callee_kind(e[1])
            names = ["f", "nosuch", "Some", "Custom", "not", "max", "string_repr"] + sorted(scope)[:1]
            for nm in names:
                if nm != e[1]:
                    nk = ("variable of type " + scope[nm]) if nm in scope else ("itself" if nm == "f" else ("unbound name" if nm == "nosuch" else nm))
                    self.add(path + (1,), f"callee {ck}→{nk}", nm, f"callee {e[1]}→{nm} as {fine_role}")
            args = e[2]
            if args:
                self.add(path + (2,), f"arity: last argument dropped in call to {ck}", args[:-1], f"arity: last argument dropped in call to {e[1]}")
                if len(args) > 1:
                    self.add(path + (2,), f"arity: first argument dropped in call to {ck}", args[1:], f"arity: first argument dropped in call to {e[1]}")
            self.add(path + (2,), f"arity: argument added in call to {ck}", args + [lit("0", "Int")], f"arity: argument added in call to {e[1]}")
            for i, a in enumerate(args):
                self.expr(a, path + (2, i), scope, f"argument of {ck}", f"arg{i + 1} of {e[1]}" + (" (top level)" if role == "top-level statement" else ""))
        elif k == "mcall":
            rt = typeof(e[1], scope, self.sigs)
            old = METHODS.get((rt, e[2]))
            for m in METHOD_ALTS:
                if m != e[2]:
                    new = METHODS.get((rt, m))
                    if new is None:
                        eff = "no such method"
                    else:
                        eff = f"({', '.join(old[0])}): {old[1]}→({', '.join(new[0])}): {new[1]}"
                    self.add(path + (2,), f"method replaced on {rt}: {eff}", m, f"method {e[2]}→{m} on {rt}")
            args = e[3]
            if args:
                self.add(path + (3,), "arity: last argument dropped in method call", args[:-1], f"arity: last argument dropped in {rt}::{e[2]}")
            self.add(path + (3,), "arity: argument added in method call", args + [lit("0", "Int")], f"arity: argument added in {rt}::{e[2]}")
            generic = "generic " if rt.startswith(("List", "Option")) else ""
            self.expr(e[1], path + (1,), scope, f"receiver of {generic}method call", f"receiver of .{e[2]}()")
            for i, a in enumerate(args):
                self.expr(a, path + (3, i), scope, f"argument of {generic}method", f"arg{i + 1} of {rt}::{e[2]}")
        elif k == "dot":
            for f in FIELD_ALTS:
                if f != e[2]:
                    self.add(path + (2,), f"field replaced: {FIELDS[e[2]]}→{FIELDS.get(f, 'no such field')}", f, f"field {e[2]}→{f} as {fine_role}")
            self.expr(e[1], path + (1,), scope, "receiver of field access", f"receiver of .{e[2]}")
        elif k == "struct":
            for tn in ("Color", "Nosuch"):
                self.add(path + (1,), f"struct literal type {e[1]}→{tn}", tn)
            flds = e[2]
            for i, (fn, fv) in enumerate(flds):
                for f in FIELD_ALTS:
                    if f != fn:
                        self.add(path + (2, i, 0), f"struct literal field name {fn}→{f}", f)
                self.add(path + (2,), "struct literal field dropped", flds[:i] + flds[i + 1:], f"struct literal field {fn} dropped")
                self.expr(fv, path + (2, i, 1), scope, "value of struct field", f"value of field {fn}")
            self.add(path + (2,), "struct literal field added", flds + [["nosuch", lit("0", "Int")]])
        elif k == "list":
            for i, a in enumerate(e[1]):
                self.expr(a, path + (1, i), scope, "list element", f"list element {i + 1}")
        elif k == "if":
            self.expr(e[1], path + (1,), scope, "if condition", "if condition")
            self.block(e[2], path + (2,), scope, "if branch")
            if e[3] is not None:
                self.block(e[3], path + (3,), scope, "else branch")
                self.add(path + (3,), "else dropped from if whose value is used", None, f"else dropped from if used as {fine_role}")
        elif k == "match":
            st = typeof(e[1], scope, self.sigs)
            self.expr(e[1], path + (1,), scope, "match scrutinee", "match scrutinee")
            arms = e[2]
            for i, (p, b) in enumerate(arms):
                for pa in PAT_ALTS:
                    if pa != p:
                        self.add(path + (2, i, 0), f"pattern {src_pat(p)}→{src_pat(pa)} on {st}", pa)
                self.add(path + (2,), f"match arm {src_pat(p)} dropped on {st}", arms[:i] + arms[i + 1:])
                sc = dict(scope)
                if p[2]:
                    sc[p[2]] = "Int"
                    self.binders.append((p[2], "match payload", self._top))
                self.block(b, path + (2, i, 1), sc, "match arm")
        elif k == "lam":
            params = e[1]
            for pi, (pn, ph) in enumerate(params):
                for h in HINT_ALTS:
                    if h != ph:
                        self.add(path + (1, pi, 1), f"annotation of closure param: {ph}→{family(ph, h)}", h, f"annotation of closure param: {ph}→{h}")
            for h in HINT_ALTS:
                if h != e[2]:
                    self.add(path + (2,), f"annotation of closure return: {e[2]}→{family(e[2], h)}", h, f"annotation of closure return: {e[2]}→{h}")
            self.add(path + (1,), "arity: closure param dropped", params[:-1])
            self.add(path + (1,), "arity: closure param added", params + [["extra", "Int"]])
            sc = dict(scope)
            for pn, ph in params:
                sc[pn] = ph
                self.binders.append((pn, "closure parameter", self._top))
            outer, self.owner = self.owner, "closure"
            self.block(e[3], path + (3,), sc, "closure body")
            self.owner = outer


def slot_role(prog, path):
    """Class-level role of the node at `path` inside prog: the label prefix an expression edit at it gets."""
    for p, label, repl, fine in Edits(prog, small=True).out:
        if p == path and ": " in label and "→" in label:
            return label.split(": ")[0]
    return "?"
