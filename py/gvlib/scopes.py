"""Independent lexical-scope resolver for the refgen mini-AST (Garden scoping rules, written from the language manual,
not from the type checker):

  * `let` binds from the end of its right-hand side to the end of the enclosing block; a second `let` of the same name in
    the same block starts a new binding (shadowing); the right-hand side sees the previous binding;
  * every `{ ... }` block (if/else/while/for/match arm/closure body/function body) is a scope; a top-level `{ }` item is a scope
    for the checker's purposes (programs of the C19 space never read such a binding after the block);
  * closure parameters are scoped to the closure body, closures see the enclosing bindings;
  * a `for` variable is scoped to the loop body (the iterated expression sees the enclosing scope);
  * a match payload is scoped to its arm (the scrutinee sees the enclosing scope);
  * a `catch (e)` variable is scoped to the catch block; the `try` body is a block of its own;
  * function / method parameters and the method receiver are scoped to the function; a function body does not see top-level `let`s;
  * top-level `let`s (expression items) bind for the later top-level expression / block items;
  * a name that is not bound locally refers to the global function of that name, if any.

resolve(items) -> {symbol key: binder}: binder is the key of the defining symbol, ("global", name) or None (unbound).
Symbol keys follow the path convention documented in refgen.py.
"""


class Scope:
    def __init__(self, parent=None, barrier=False):
        self.parent, self.vars, self.barrier = parent, {}, barrier

    def lookup(self, name):
        s = self
        while s is not None:
            if name in s.vars:
                return s.vars[name]
            if s.barrier:
                return None
            s = s.parent
        return None


class Resolver:
    def __init__(self, items):
        self.globals = {it[1] for it in items if it[0] == "Fun"}
        self.out = {}
        self.kinds = {}     # binder key -> binder kind
        top = Scope()
        for i, it in enumerate(items):
            self.item(it, (i,), top)

    def ref(self, name, key, scope):
        b = scope.lookup(name)
        if b is None and name in self.globals:
            b = ("global", name)
        self.out[key] = b

    def bind(self, name, key, scope, kind):
        self.out[key] = key
        self.kinds[key] = kind
        if name != "_":
            scope.vars[name] = key

    def dest(self, d, path, scope, kind):
        if d[0] == "Sym":
            self.bind(d[1], path + ("dest0",), scope, kind)
        else:
            for i, nm in enumerate(d[1]):
                self.bind(nm, path + (f"dest{i}",), scope, kind + "-destructure" if kind == "let" else kind)

    def block(self, body, path, scope):
        s = Scope(scope)
        for i, st in enumerate(body):
            self.expr(st, path + (i,), s)

    def expr(self, e, path, scope):
        k = e[0]
        if k in ("Int", "Float", "Str", "Break", "Continue"):
            return
        if k == "Var":
            self.ref(e[1], path + ("var",), scope)
        elif k == "Paren":
            self.expr(e[1], path + (0,), scope)
        elif k == "Bin":
            self.expr(e[1], path + (0,), scope)
            self.expr(e[3], path + (1,), scope)
        elif k == "Call":
            self.expr(e[1], path + (0,), scope)
            for i, a in enumerate(e[2]):
                self.expr(a, path + (1 + i,), scope)
        elif k == "MethodCall":
            self.expr(e[1], path + (0,), scope)
            for i, a in enumerate(e[3]):
                self.expr(a, path + (1 + i,), scope)
        elif k == "Dot":
            self.expr(e[1], path + (0,), scope)
        elif k in ("List", "Tuple"):
            for i, a in enumerate(e[1]):
                self.expr(a, path + (i,), scope)
        elif k == "Dict":
            for i, (a, b) in enumerate(e[1]):
                self.expr(a, path + (2 * i,), scope)
                self.expr(b, path + (2 * i + 1,), scope)
        elif k == "Struct":
            for i, (_, v) in enumerate(e[2]):
                self.expr(v, path + (i,), scope)
        elif k == "Lambda":
            s = Scope(scope)
            for i, (p, _) in enumerate(e[1]):
                self.bind(p, path + (f"param{i}",), s, "closure-param")
            for i, st in enumerate(e[3]):
                self.expr(st, path + (i,), s)
        elif k == "If":
            self.expr(e[1], path + (0,), scope)
            self.block(e[2], path + (1,), scope)
            if e[3] is not None:
                self.block(e[3], path + (2,), scope)
        elif k == "While":
            self.expr(e[1], path + (0,), scope)
            self.block(e[2], path + (1,), scope)
        elif k == "For":
            self.expr(e[2], path + (0,), scope)
            s = Scope(scope)
            if e[1][0] == "Sym":
                self.bind(e[1][1], path + ("dest0",), s, "for")
            else:
                for i, nm in enumerate(e[1][1]):
                    self.bind(nm, path + (f"dest{i}",), s, "for")
            for i, st in enumerate(e[3]):
                self.expr(st, path + (1, i), s)
        elif k == "Match":
            self.expr(e[1], path + (0,), scope)
            for j, arm in enumerate(e[2]):
                (variant, dest), body = arm[0], arm[1]
                s = Scope(scope)
                if dest:
                    names = [dest[1]] if dest[0] == "Sym" else dest[1]
                    for i, nm in enumerate(names):
                        self.bind(nm, path + (f"arm{j}.{i}",), s, "match-payload")
                for i, st in enumerate(body):
                    self.expr(st, path + (1 + j, i), s)
        elif k == "Try":
            # the catch variable is scoped to the catch block; the try body is a block of its own
            self.block(e[1], path + (0,), scope)
            s = Scope(scope)
            self.bind(e[2], path + ("catch",), s, "catch-variable")
            for i, st in enumerate(e[3]):
                self.expr(st, path + (1, i), s)
        elif k == "Let":
            self.expr(e[3], path + (0,), scope)
            self.dest(e[1], path, scope, "let")
        elif k in ("Assign",):
            self.expr(e[2], path + (0,), scope)
            self.ref(e[1], path + ("target",), scope)
        elif k == "AssignUpdate":
            self.expr(e[3], path + (0,), scope)
            self.ref(e[1], path + ("target",), scope)
        elif k in ("Return", "Assert"):
            if e[1] is not None:
                self.expr(e[1], path + (0,), scope)
        else:
            raise ValueError(f"scopes: unknown expr {e!r}")

    def item(self, it, p, top):
        k = it[0]
        if k == "Expr":
            self.expr(it[1], p + (0,), top)
        elif k == "Block":
            self.block(it[1], p, top)
        elif k == "Fun":
            self.out[p + ("name",)] = ("global", it[1])
            s = Scope(None)
            for i, (pn, _) in enumerate(it[5]):
                self.bind(pn, p + (f"param{i}",), s, "fun-param")
            for i, st in enumerate(it[7]):
                self.expr(st, p + (i,), s)
        elif k == "Method":
            _, public, doc, recv, recv_hint, name, tps, params, ret, body = it
            s = Scope(None)
            self.bind(recv, p + ("recv",), s, "method-receiver")
            for i, (pn, _) in enumerate(params):
                self.bind(pn, p + (f"param{i}",), s, "method-param")
            for i, st in enumerate(body):
                self.expr(st, p + (i,), s)
        elif k == "Test":
            s = Scope(None)
            for i, st in enumerate(it[3]):
                self.expr(st, p + (i,), s)
        elif k in ("Raw", "Enum", "StructDef", "Import"):
            pass
        else:
            raise ValueError(f"scopes: unknown item {it!r}")


def resolve(items):
    r = Resolver(items)
    return r.out, r.kinds
