"""Parser for Rust `{:?}` output into a generic tree, and projections used by oracles."""
import re

_tok = re.compile(r'\s*(?:(?P<str>"(?:\\.|[^"\\])*")|(?P<num>-?\d+(?:\.\d+)?(?:e-?\d+)?)|(?P<id>[A-Za-z_][A-Za-z0-9_]*)|(?P<p>[\[\]{}(),:]|\.\.\.))')


class Node:
    __slots__ = ("name", "args", "fields")

    def __init__(self, name, args=None, fields=None):
        self.name, self.args, self.fields = name, args, fields

    def __repr__(self):
        if self.fields is not None:
            return f"{self.name}{{{', '.join(f'{k}: {v!r}' for k, v in self.fields.items())}}}"
        if self.args is not None:
            return f"{self.name}({', '.join(map(repr, self.args))})"
        return self.name


def _unescape(s):
    # Rust debug string escapes
    out, i = [], 1
    while i < len(s) - 1:
        c = s[i]
        if c == "\\":
            i += 1
            c = s[i]
            if c == "n": out.append("\n")
            elif c == "t": out.append("\t")
            elif c == "r": out.append("\r")
            elif c == "0": out.append("\0")
            elif c == "u":
                j = s.index("}", i)
                out.append(chr(int(s[i + 2:j], 16)))
                i = j
            else: out.append(c)
        else:
            out.append(c)
        i += 1
    return "".join(out)


def parse_debug(text):
    toks = []
    pos = 0
    n = len(text)
    while pos < n:
        m = _tok.match(text, pos)
        if not m:
            if text[pos:].strip() == "":
                break
            raise ValueError(f"cannot tokenise at {pos}: {text[pos:pos+40]!r}")
        pos = m.end()
        kind = m.lastgroup
        toks.append((kind, m.group(kind)))
    i = [0]

    def peek():
        return toks[i[0]] if i[0] < len(toks) else (None, None)

    def eat(v=None):
        t = toks[i[0]]
        if v is not None and t[1] != v:
            raise ValueError(f"expected {v} got {t}")
        i[0] += 1
        return t

    def value():
        k, v = peek()
        if k == "str":
            eat()
            return ("str", _unescape(v))
        if k == "num":
            eat()
            return ("num", v)
        if v == "[":
            eat()
            items = []
            while peek()[1] != "]":
                items.append(value())
                if peek()[1] == ",":
                    eat()
            eat("]")
            return items
        if v == "(":
            eat()
            items = []
            while peek()[1] != ")":
                items.append(value())
                if peek()[1] == ",":
                    eat()
            eat(")")
            return Node("", args=items)
        if k == "id":
            eat()
            name = v
            k2, v2 = peek()
            if k2 == "str":   # Symbol"foo" / TypeSymbol"Foo"
                eat()
                return Node(name, args=[("str", _unescape(v2))])
            if v2 == "(":
                eat()
                items = []
                while peek()[1] != ")":
                    items.append(value())
                    if peek()[1] == ",":
                        eat()
                eat(")")
                return Node(name, args=items)
            if v2 == "{":
                eat()
                fields = {}
                while peek()[1] != "}":
                    if peek()[1] == "...":
                        eat()
                        continue
                    fk = eat()[1]
                    eat(":")
                    fields[fk] = value()
                    if peek()[1] == ",":
                        eat()
                eat("}")
                return Node(name, fields=fields)
            return Node(name)
        raise ValueError(f"unexpected token {k} {v}")

    v = value()
    return v


def expr_core(node):
    """Expression { expr_: X, ... } -> X"""
    if isinstance(node, Node) and node.name == "Expression" and node.fields is not None:
        return node.fields["expr_"]
    return node


def shape_of(items):
    """Shape string of the single top-level expression: binary operators as (l r), parentheses erased."""
    if isinstance(items, list):
        if len(items) != 1:
            return f"<{len(items)} items>"
        items = items[0]
    n = items
    if isinstance(n, Node) and n.name == "Expr":
        n = n.args[0]
    if isinstance(n, Node) and n.name == "ToplevelExpression":
        n = n.args[0]
    return _shape(n)


def _shape(n):
    n = expr_core(n)
    if isinstance(n, Node):
        if n.name == "BinaryOperator":
            return f"({_shape(n.args[0])} {_shape(n.args[2])})"
        if n.name == "Variable":
            return n.args[0].args[0][1]
        if n.name == "Parentheses":
            return _shape(n.args[0].fields["expr"])
        if n.name == "IntLiteral":
            return n.args[0][1]
    return "?"
