"""Real-CLI process runner shared by the CLI-level checks (C24, C25, C26, C34).

* `pmap(fn, cases)`: thread pool (16 threads, fewer under GV_JOBS) over cases, results in case order.
* `run(binary, args, ...)`: one process; optional address-space limit (via `sh -c 'ulimit -v'`, no preexec_fn
  because the caller is multi-threaded), optional stdin that is *held open* (a pipe that gets no data), and a
  probe that feeds a token into that pipe when the process has not finished after `t_hold` seconds.
* `snapshot(dir)`: names, kinds, sizes, mtimes and content hashes of a directory tree.
"""
import concurrent.futures, hashlib, os, signal, subprocess, time

from .pool import NCPU

THREADS = max(1, min(16, NCPU))


def pmap(fn, cases, threads=None):
    cases = list(cases)
    if not cases:
        return []
    with concurrent.futures.ThreadPoolExecutor(threads or THREADS) as ex:
        return list(ex.map(fn, cases))


def run(binary, args, cwd, env=None, stdin=b"", hold_stdin=False, t_hold=2.0, feed=b"", timeout=30.0, as_kib=None):
    """Returns dict(rc, out, err, timeout: bool, fed: bool, wall).

    rc is the exit status (negative = killed by that signal), or None when the wall-clock cap hit (the process is killed).
    hold_stdin: stdin is a pipe whose write end stays open and silent. If the process is still alive after t_hold
    seconds, `feed` is written and the pipe closed (fed=True): a process that then prints the token was reading stdin.
    """
    argv = [binary] + list(args)
    if as_kib:
        argv = ["/bin/sh", "-c", f"ulimit -v {int(as_kib)}; exec \"$0\" \"$@\""] + argv
    t0 = time.time()
    rfd = wfd = None
    if hold_stdin:
        rfd, wfd = os.pipe()
        os.set_inheritable(wfd, False)
        sin = rfd
    else:
        sin = subprocess.PIPE
    p = subprocess.Popen(argv, stdin=sin, stdout=subprocess.PIPE, stderr=subprocess.PIPE, cwd=cwd, env=env, close_fds=True)
    if rfd is not None:
        os.close(rfd)
    fed = False
    timed_out = False
    out = err = b""
    try:
        if hold_stdin:
            try:
                out, err = p.communicate(timeout=t_hold)
            except subprocess.TimeoutExpired:
                fed = True
                try:
                    os.write(wfd, feed)
                except OSError:
                    pass
                os.close(wfd)
                wfd = None
                try:
                    out, err = p.communicate(timeout=max(0.1, timeout - t_hold))
                except subprocess.TimeoutExpired:
                    timed_out = True
        else:
            try:
                out, err = p.communicate(input=stdin, timeout=timeout)
            except subprocess.TimeoutExpired:
                timed_out = True
        if timed_out:
            p.kill()
            try:
                out, err = p.communicate(timeout=10)
            except Exception:
                out, err = b"", b""
    finally:
        if wfd is not None:
            os.close(wfd)
    return {"rc": None if timed_out else p.returncode, "out": out.decode("utf-8", "replace"), "err": err.decode("utf-8", "replace"),
            "timeout": timed_out, "fed": fed, "wall": time.time() - t0}


def failure_kind(r):
    """None when the process exited by itself with an ordinary status; else timeout | panic | oom | signal N."""
    if r["timeout"]:
        return "timeout"
    rc = r["rc"]
    err = r["err"]
    if "memory allocation of" in err or "capacity overflow" in err or "out of memory" in err.lower():
        return "oom"
    if rc == 101:
        return "panic"
    if rc < 0:
        return "stack overflow" if "overflowed its stack" in err else f"signal {-rc}"
    if rc == 134 or rc == 139 or rc > 128:
        return "stack overflow" if "overflowed its stack" in err else f"signal {rc - 128}"
    return None


def snapshot(root):
    """{relpath: (kind, size, mtime_ns, sha1)} for every entry below root (root itself included as '.')."""
    snap = {}
    for dirpath, dirnames, filenames in os.walk(root):
        rel = os.path.relpath(dirpath, root)
        st = os.lstat(dirpath)
        snap[rel] = ("dir", 0, st.st_mtime_ns, "")
        for fn in filenames:
            p = os.path.join(dirpath, fn)
            st = os.lstat(p)
            if os.path.islink(p):
                snap[os.path.normpath(os.path.join(rel, fn))] = ("link", 0, st.st_mtime_ns, os.readlink(p))
                continue
            with open(p, "rb") as f:
                h = hashlib.sha1(f.read()).hexdigest()
            snap[os.path.normpath(os.path.join(rel, fn))] = ("file", st.st_size, st.st_mtime_ns, h)
    return snap


def snapshot_diff(a, b):
    """Sorted list of human-readable differences between two snapshots."""
    out = []
    for k in sorted(set(a) | set(b)):
        if k not in a:
            out.append(f"created {k}")
        elif k not in b:
            out.append(f"deleted {k}")
        elif a[k] != b[k]:
            what = "content" if a[k][3] != b[k][3] else ("size" if a[k][1] != b[k][1] else "mtime")
            out.append(f"modified {k} ({what})")
    return out
