"""Program generators with span bookkeeping for the refactoring / IDE-tool checks (C19-C22, C27).

Mini-AST: the tuple shapes of gast.py, with two differences:
  ("Match", scrutinee, [((variant, dest|None), [body], braced)])   third arm field: print `=> { ... }` or a bare `=> expr`
  ("Raw", text)   item only: helper text printed verbatim, no spans recorded.

`Printer` prints a program and records, from its own bookkeeping (not from the parser):
  exprs   every expression node: kind, start, end, path, ctx, node
  syms    every symbol occurrence: key, name, role, start, end
  blocks  every block: owner kind / role, statement spans, brace offsets
Path convention (shared with scopes.py): item i -> (i,); children by slot index:
  Paren 0 | Bin l=0 r=1 | Call callee=0 args=1+i | MethodCall recv=0 args=1+i | Dot 0 | List/Tuple i | Dict 2i,2i+1
  Struct field value i | Lambda body stmt i | If cond=0 then=(1,i) else=(2,i) | While cond=0 body=(1,i)
  For iter=0 body=(1,i) | Match scrutinee=0, arm k stmt i=(1+k,i) | Let/Assign/AssignUpdate/Return/Assert 0
  Fun/Test/Block item body stmt i=(item,i) | Expr item expression=(item,0)
Symbol keys: path + (slot,) with slot "var" | "dest<i>" | "param<i>" | "target" | "arm<k>.<i>" | "name".
"""

STATEMENT_KINDS = {"Let", "Assign", "AssignUpdate", "Return", "Break", "Continue", "Assert"}
LOOP_KINDS = {"While", "For"}


def esc(s):
    return '"' + s.replace("\\", "\\\\").replace('"', '\\"').replace("\n", "\\n").replace("\t", "\\t") + '"'


def hint_src(h):
    if h is None:
        return ""
    if isinstance(h, str):
        return h
    _, name, args = h
    if name == "Tuple":
        return "(" + ", ".join(hint_src(a) for a in args) + ("," if len(args) == 1 else "") + ")"
    if args:
        return f"{name}<{', '.join(hint_src(a) for a in args)}>"
    return name


class Printer:
    def __init__(self, inline=False):
        self.inline = inline
        self.out = []
        self.n = 0
        self.exprs = []
        self.syms = []
        self.blocks = []
        self.items = []

    # ---- low level
    def w(self, s):
        self.out.append(s)
        self.n += len(s)

    def sym(self, name, role, key):
        self.syms.append({"name": name, "role": role, "key": key, "start": self.n, "end": self.n + len(name)})
        self.w(name)

    def src(self):
        return "".join(self.out)

    # ---- blocks
    def block(self, body, ind, ctx, path, owner, role, inline=None):
        """`{ stmts }`; statement i has path `path + (i,)`; ctx of the statements is ctx + ((owner, role),)."""
        inline = self.inline if inline is None else inline
        rec = {"owner": owner, "role": role, "path": path, "open": self.n, "stmts": [], "ctx": ctx}
        self.w("{")
        if not body:
            rec["close"] = self.n
            self.w("}")
            self.blocks.append(rec)
            return
        sub = ctx + ((owner, role),)
        if inline:
            for i, s in enumerate(body):
                self.w(" ")
                a = self.n
                self.expr(s, ind + 1, sub, path + (i,), stmt=True, last=i == len(body) - 1)
                rec["stmts"].append((a, self.n))
            self.w(" ")
        else:
            self.w("\n")
            for i, s in enumerate(body):
                self.w("  " * (ind + 1))
                a = self.n
                self.expr(s, ind + 1, sub, path + (i,), stmt=True, last=i == len(body) - 1)
                rec["stmts"].append((a, self.n))
                self.w("\n")
            self.w("  " * ind)
        rec["close"] = self.n
        self.w("}")
        self.blocks.append(rec)

    def params(self, params, path):
        self.w("(")
        for i, (p, h) in enumerate(params):
            if i:
                self.w(", ")
            self.sym(p, "def-param", path + (f"param{i}",))
            if h:
                self.w(": " + hint_src(h))
        self.w(")")

    def dest(self, d, role, path):
        if d[0] == "Sym":
            self.sym(d[1], role, path + ("dest0",))
        else:
            self.w("(")
            for i, nm in enumerate(d[1]):
                if i:
                    self.w(", ")
                self.sym(nm, role, path + (f"dest{i}",))
            self.w(")")

    # ---- expressions
    def expr(self, e, ind=0, ctx=(), path=(), stmt=False, last=False):
        k = e[0]
        start = self.n
        rec = {"kind": k, "start": start, "ctx": ctx, "path": path, "node": e, "stmt": stmt, "last": last}
        self.exprs.append(rec)        # pre-order; end filled below
        c = lambda role: ctx + ((k, role),)
        if k == "Int":
            self.w(str(e[1]))
        elif k == "Float":
            self.w(e[1])
        elif k == "Str":
            self.w(esc(e[1]))
        elif k == "Var":
            self.sym(e[1], "use", path + ("var",))
        elif k == "Paren":
            self.w("(")
            self.expr(e[1], ind, c("inner"), path + (0,))
            self.w(")")
        elif k == "Bin":
            self.expr(e[1], ind, c("lhs"), path + (0,))
            self.w(f" {e[2]} ")
            self.expr(e[3], ind, c("rhs"), path + (1,))
        elif k == "Call":
            self.expr(e[1], ind, c("callee"), path + (0,))
            self.w("(")
            for i, a in enumerate(e[2]):
                if i:
                    self.w(", ")
                self.expr(a, ind, c("arg"), path + (1 + i,))
            self.w(")")
        elif k == "MethodCall":
            self.expr(e[1], ind, c("recv"), path + (0,))
            self.w(".")
            self.sym(e[2], "method-name", path + ("name",))
            self.w("(")
            for i, a in enumerate(e[3]):
                if i:
                    self.w(", ")
                self.expr(a, ind, c("arg"), path + (1 + i,))
            self.w(")")
        elif k == "Dot":
            self.expr(e[1], ind, c("recv"), path + (0,))
            self.w(".")
            self.sym(e[2], "field", path + ("name",))
        elif k == "List":
            self.w("[")
            for i, a in enumerate(e[1]):
                if i:
                    self.w(", ")
                self.expr(a, ind, c("elem"), path + (i,))
            self.w("]")
        elif k == "Tuple":
            self.w("(")
            for i, a in enumerate(e[1]):
                if i:
                    self.w(", ")
                self.expr(a, ind, c("elem"), path + (i,))
            if len(e[1]) == 1:
                self.w(",")
            self.w(")")
        elif k == "Dict":
            self.w("Dict[")
            for i, (a, b) in enumerate(e[1]):
                if i:
                    self.w(", ")
                self.expr(a, ind, c("key"), path + (2 * i,))
                self.w(" => ")
                self.expr(b, ind, c("value"), path + (2 * i + 1,))
            self.w("]")
        elif k == "Struct":
            self.sym(e[1], "struct-name", path + ("name",))
            if not e[2]:
                self.w("{}")
            else:
                self.w("{ ")
                for i, (f, v) in enumerate(e[2]):
                    if i:
                        self.w(", ")
                    self.sym(f, "field", path + (f"field{i}",))
                    self.w(": ")
                    self.expr(v, ind, c("field"), path + (i,))
                self.w(" }")
        elif k == "Lambda":
            self.w("fun")
            self.params(e[1], path)
            if e[2]:
                self.w(": " + hint_src(e[2]))
            self.w(" ")
            self.block(e[3], ind, ctx, path, "Lambda", "body", inline=True if len(e[3]) <= 1 else None)
        elif k == "If":
            self.w("if ")
            self.expr(e[1], ind, c("cond"), path + (0,))
            self.w(" ")
            self.block(e[2], ind, ctx, path + (1,), "If", "then")
            if e[3] is not None:
                self.w(" else ")
                self.block(e[3], ind, ctx, path + (2,), "If", "else")
        elif k == "While":
            self.w("while ")
            self.expr(e[1], ind, c("cond"), path + (0,))
            self.w(" ")
            self.block(e[2], ind, ctx, path + (1,), "While", "body")
        elif k == "For":
            self.w("for ")
            self.dest(e[1], "def-for", path)
            self.w(" in ")
            self.expr(e[2], ind, c("iter"), path + (0,))
            self.w(" ")
            self.block(e[3], ind, ctx, path + (1,), "For", "body")
        elif k == "Match":
            self.w("match ")
            self.expr(e[1], ind, c("scrutinee"), path + (0,))
            self.w(" {\n")
            for j, arm in enumerate(e[2]):
                (variant, dest), body = arm[0], arm[1]
                braced = arm[2] if len(arm) > 2 else True
                self.w("  " * (ind + 1))
                self.sym(variant, "variant", path + (f"variant{j}",))
                if dest:
                    self.w("(")
                    if dest[0] == "Sym":
                        self.sym(dest[1], "def-match", path + (f"arm{j}.0",))
                    else:
                        self.w("(")
                        for i, nm in enumerate(dest[1]):
                            if i:
                                self.w(", ")
                            self.sym(nm, "def-match", path + (f"arm{j}.{i}",))
                        self.w(")")
                    self.w(")")
                self.w(" => ")
                if braced:
                    self.block(body, ind + 1, ctx, path + (1 + j,), "Match", "arm")
                else:
                    assert len(body) == 1
                    a = self.n
                    self.expr(body[0], ind + 1, ctx + (("Match", "bare-arm"),), path + (1 + j, 0), stmt=True, last=True)
                    self.blocks.append({"owner": "Match", "role": "bare-arm", "path": path + (1 + j,), "open": None, "close": None,
                                        "stmts": [(a, self.n)], "ctx": ctx})
                self.w("\n")
            self.w("  " * ind + "}")
        elif k == "Try":
            # ("Try", body, catch variable, catch body)
            self.w("try ")
            self.block(e[1], ind, ctx, path + (0,), "Try", "body")
            self.w(" catch (")
            self.sym(e[2], "def-catch", path + ("catch",))
            self.w(") ")
            self.block(e[3], ind, ctx, path + (1,), "Try", "catch")
        elif k == "Let":
            self.w("let ")
            self.dest(e[1], "def-let" if e[1][0] == "Sym" else "def-destructure", path)
            if e[2]:
                self.w(": " + hint_src(e[2]))
            self.w(" = ")
            self.expr(e[3], ind, c("rhs"), path + (0,))
        elif k == "Assign":
            self.sym(e[1], "assign", path + ("target",))
            self.w(" = ")
            self.expr(e[2], ind, c("rhs"), path + (0,))
        elif k == "AssignUpdate":
            self.sym(e[1], "assign", path + ("target",))
            self.w(f" {e[2]} ")
            self.expr(e[3], ind, c("rhs"), path + (0,))
        elif k == "Return":
            self.w("return")
            if e[1] is not None:
                self.w(" ")
                self.expr(e[1], ind, c("arg"), path + (0,))
        elif k == "Break":
            self.w("break")
        elif k == "Continue":
            self.w("continue")
        elif k == "Assert":
            self.w("assert(")
            self.expr(e[1], ind, c("arg"), path + (0,))
            self.w(")")
        else:
            raise ValueError(f"unknown expr {e!r}")
        rec["end"] = self.n

    # ---- items
    def item(self, it, idx):
        k = it[0]
        start = self.n
        p = (idx,)
        if k == "Raw":
            self.w(it[1])
        elif k == "Expr":
            self.expr(it[1], 0, (("Top", "item"),), p + (0,), stmt=True, last=True)
        elif k == "Block":
            self.block(it[1], 0, (), p, "TopBlock", "body")
        elif k == "Fun":
            _, name, public, doc, tps, params, ret, body = it
            if doc:
                self.w("".join(f"/// {l}\n" for l in doc.split("\n")))
            if public:
                self.w("public ")
            self.w("fun ")
            self.sym(name, "fun-name", p + ("name",))
            if tps:
                self.w("<" + ", ".join(tps) + ">")
            self.params(params, p)
            if ret:
                self.w(": " + hint_src(ret))
            self.w(" ")
            self.block(body, 0, (), p, "Fun", "body")
        elif k == "Method":
            _, public, doc, recv, recv_hint, name, tps, params, ret, body = it
            if public:
                self.w("public ")
            self.w("method ")
            self.sym(name, "method-def-name", p + ("name",))
            if tps:
                self.w("<" + ", ".join(tps) + ">")
            self.w("(")
            self.sym(recv, "def-param", p + ("recv",))
            self.w(": " + hint_src(recv_hint))
            for i, (pn, h) in enumerate(params):
                self.w(", ")
                self.sym(pn, "def-param", p + (f"param{i}",))
                if h:
                    self.w(": " + hint_src(h))
            self.w(")")
            if ret:
                self.w(": " + hint_src(ret))
            self.w(" ")
            self.block(body, 0, (), p, "Method", "body")
        elif k == "Test":
            self.w("test ")
            self.sym(it[1], "test-name", p + ("name",))
            self.w(" ")
            self.block(it[3], 0, (), p, "Test", "body")
        elif k == "Enum":
            _, name, public, doc, tps, variants = it
            self.w(("public " if public else "") + f"enum {name}" + ("<" + ", ".join(tps) + ">" if tps else "") + " {")
            if variants:
                self.w("\n" + "".join(f"  {v}{'(' + hint_src(h) + ')' if h else ''},\n" for v, h in variants))
            self.w("}")
        elif k == "StructDef":
            _, name, public, doc, tps, fields = it
            self.w(("public " if public else "") + f"struct {name}" + ("<" + ", ".join(tps) + ">" if tps else "") + " {")
            if fields:
                self.w("\n" + "".join(f"  {f}: {hint_src(h)},\n" for f, h, *_ in fields))
            self.w("}")
        elif k == "Import":
            self.w(f"import {esc(it[1])}" + (f" as {it[2]}" if it[2] else ""))
        else:
            raise ValueError(f"unknown item {it!r}")
        self.items.append({"kind": k, "start": start, "end": self.n, "idx": idx})


def render(items, inline=False):
    """-> (src, printer) ; items separated by a blank line, trailing newline."""
    pr = Printer(inline=inline)
    for i, it in enumerate(items):
        if i:
            pr.w("\n\n" if it[0] != "Raw" or not it[1].startswith("\n") else "")
        pr.item(it, i)
    pr.w("\n")
    return pr.src(), pr


# ---------------------------------------------------------------- purity (syntactic)

EFFECTFUL_CALLEES = {"p", "println", "print", "throw", "error", "dbg", "assert", "todo", "read_line", "shell", "write_file", "q"}
PURE_METHODS = {"len", "map", "filter", "contains", "is_empty", "is_non_empty", "append", "get", "first", "last", "join", "lines",
                "or_value", "index_of", "substring", "starts_with", "ends_with", "keys", "values", "items", "split", "trim_left", "trim_right",
                "sum", "total", "dist", "twice"}


def pure_block(body, pure_callees):
    return all((s[0] == "Let" and pure_expr(s[3], pure_callees)) or (s[0] not in STATEMENT_KINDS and pure_expr(s, pure_callees)) for s in body)


def pure_expr(e, pure_callees=frozenset()):
    """Syntactically side-effect free and total: literals, variables, operators other than / % **, calls of known pure
    helpers / whitelisted methods / immediately applied pure lambdas, lambdas with pure bodies, if / match over pure parts."""
    k = e[0]
    P = lambda x: pure_expr(x, pure_callees)
    if k in ("Int", "Float", "Str", "Var"):
        return True
    if k == "Paren":
        return P(e[1])
    if k == "Bin":
        return e[2] not in ("/", "%", "**", "/.") and P(e[1]) and P(e[3])
    if k == "Call":
        f = e[1]
        if f[0] == "Var":
            ok = f[1] in pure_callees or f[1] in ("Some", "Ok", "Err", "string_repr")
        elif f[0] == "Paren" and f[1][0] == "Lambda":
            ok = P(f[1])
        else:
            ok = False
        return ok and all(P(a) for a in e[2])
    if k == "MethodCall":
        return e[2] in PURE_METHODS and P(e[1]) and all(P(a) for a in e[3])
    if k == "Dot":
        return P(e[1])
    if k in ("List", "Tuple"):
        return all(P(a) for a in e[1])
    if k == "Dict":
        return all(P(a) and P(b) for a, b in e[1])
    if k == "Struct":
        return all(P(v) for _, v in e[2])
    if k == "Lambda":
        return pure_block(e[3], pure_callees)
    if k == "If":
        return P(e[1]) and pure_block(e[2], pure_callees) and (e[3] is None or pure_block(e[3], pure_callees))
    if k == "Match":
        return P(e[1]) and all(pure_block(arm[1], pure_callees) for arm in e[2])
    return False


def value_expr(e):
    """An expression in the user's sense (has a value that can be wrapped / probed): not a statement form."""
    return e[0] not in STATEMENT_KINDS


# ---------------------------------------------------------------- context classification (for signatures)

def ctx_class(rec):
    """(role-in-parent, enclosing block kind) from the recorded context chain."""
    ctx = rec["ctx"]
    block = "top"
    for owner, role in ctx:
        if (owner, role) in (("Top", "item"),):
            block = "top-level"
        elif owner in ("TopBlock", "Fun", "Test", "Lambda", "Method") and role == "body":
            block = {"TopBlock": "top-block", "Fun": "fun-body", "Test": "test-body", "Lambda": "closure-body", "Method": "method-body"}[owner]
        elif owner == "If" and role in ("then", "else"):
            block = "if-branch"
        elif owner in ("While", "For") and role == "body":
            block = "loop-body"
        elif owner == "Match" and role == "arm":
            block = "match-arm"
        elif owner == "Match" and role == "bare-arm":
            block = "bare-match-arm"
    if rec.get("stmt"):
        role = "block-last" if rec.get("last") else "statement"
    else:
        owner, role = ctx[-1]
        role = f"{owner}.{role}"
    return role, block


def ctx_str(role, block):
    """Signature text of a context: the role in the parent node; for statements also the kind of block they sit in."""
    if block == "bare-match-arm":
        return "part of a brace-less match arm"
    return f"{role} of {block}" if role in ("statement", "block-last", "statements") else role


def in_loop(rec):
    return any(owner in LOOP_KINDS and role == "body" for owner, role in rec["ctx"])


def in_closure(rec):
    return any(owner == "Lambda" for owner, role in rec["ctx"])


# ---------------------------------------------------------------- LSP text edits (independent applier; UTF-16 columns)

def lsp_offset(text, line, character):
    """Byte^W code-unit position -> index into the Python string (ASCII and BMP safe; astral chars count 2)."""
    lines = text.split("\n")
    if line >= len(lines):
        return len(text)
    off = sum(len(l) + 1 for l in lines[:line])
    col = 0
    i = 0
    l = lines[line]
    while i < len(l) and col < character:
        col += 2 if ord(l[i]) > 0xFFFF else 1
        i += 1
    return off + i


def apply_lsp_edits(text, edits):
    """Apply non-overlapping TextEdits (all ranges refer to the original text)."""
    spans = []
    for ed in edits:
        r = ed["range"]
        a = lsp_offset(text, r["start"]["line"], r["start"]["character"])
        b = lsp_offset(text, r["end"]["line"], r["end"]["character"])
        spans.append((a, b, ed["newText"]))
    spans.sort()
    out, i = [], 0
    for a, b, new in spans:
        if a < i:
            return None     # overlapping edits
        out.append(text[i:a])
        out.append(new)
        i = b
    out.append(text[i:])
    return "".join(out)


def offset_to_lsp(text, offset):
    line = text.count("\n", 0, offset)
    bol = text.rfind("\n", 0, offset) + 1
    col = sum(2 if ord(ch) > 0xFFFF else 1 for ch in text[bol:offset])
    return line, col


# ---------------------------------------------------------------- run comparison

def behaviour(r):
    """Observable behaviour of a `run` result: (outcome kind, stdout, values, failing tests)."""
    if "parse_errors" in r:
        return ("parse-error",)
    if "outcome" not in r:
        return ("machinery", str(r)[:200])
    return (r["outcome"]["kind"], r.get("stdout", ""), tuple(r.get("values") or ()),
            tuple((t["name"], t["error"] is None) for t in r.get("tests") or ()))


def unbound_type(d):
    """Name of the type in a `No such type: T` failure class, else None."""
    import re
    m = re.search(r"No such type: `?([A-Za-z_0-9]+)", d or "")
    return m.group(1) if m else None


def blank_ticks(d):
    """Signature form of a difference class: quoted program values blanked."""
    import re
    return re.sub(r"`[^`]*`", "`…`", d)


def norm_msg(m):
    import re
    m = re.sub(r"\d+", "N", m or "")
    return m[:70]


def failure_message(r):
    """Error message of a failed run (top level or first failing test), normalised."""
    if "outcome" in r and r["outcome"].get("message"):
        return norm_msg(r["outcome"]["message"])
    for t in r.get("tests") or ():
        if t.get("error"):
            return norm_msg(t["error"].get("message") or t["error"].get("kind"))
    return None


def diff_class(a, b, rb=None):
    """What differs between two behaviours (original a, transformed b); rb = raw run result of the transformed program."""
    if b[0] == "parse-error":
        return "parse error"
    msg = failure_message(rb) if rb else None
    if a[0] != b[0]:
        return f"run {a[0]} -> {b[0]}" + (f" ({msg})" if msg else "")
    if a[3] != b[3]:
        return "run ok -> exception" + (f" ({msg})" if msg else "") if msg else "test verdict differs"
    if a[1] != b[1]:
        return "stdout differs"
    if a[2] != b[2]:
        return "value differs"
    return None


# ---------------------------------------------------------------- program space for the tool checks (C20, C21)

def V(n):
    return ("Var", n)


def I(n):
    return ("Int", n)


def call(f, *args):
    return ("Call", V(f), list(args))


T_INT, T_STR = "Int", "String"
T_LIST_INT = "List<Int>"

TOOL_HELPERS = ("Raw", "fun p(x) { println(string_repr(x)) }\n"
                       "fun add(x: Int, y: Int): Int { x + y }\n"
                       "fun twice(f: Fun<(Int), Int>, x: Int): Int { f(f(x)) }\n"
                       "struct Pt { x: Int, y: Int }\n"
                       "method total(this: Pt): Int { this.x + this.y }")
PURE_CALLEES = frozenset({"add", "twice"})

LAM_XA = ("Lambda", [("x", T_INT)], None, [("Bin", V("x"), "+", V("a"))])
PT = ("Struct", "Pt", [("x", V("a")), ("y", I(2))])


def expr_pool(quick):
    """(name, type, expr): pure, total expressions over a: Int, s: String, xs: List<Int>."""
    pool = [
        ("var", "Int", V("a")),
        ("bin", "Int", ("Bin", V("a"), "+", I(1))),
        ("paren-bin", "Int", ("Bin", ("Paren", ("Bin", V("a"), "+", I(1))), "*", I(2))),
        ("call", "Int", call("add", V("a"), I(2))),
        ("call-nested", "Int", call("add", ("Bin", V("a"), "+", I(1)), ("MethodCall", V("xs"), "len", []))),
        ("method", "Int", ("MethodCall", V("xs"), "len", [])),
        ("if-expr", "Int", ("If", ("Bin", V("a"), ">", I(2)), [V("a")], [I(0)])),
        ("match-bare", "Int", ("Match", call("Some", V("a")), [(("Some", ("Sym", "i")), [("Bin", V("i"), "+", I(1))], False),
                                                                (("None", None), [I(0)], False)])),
        ("match-braced", "Int", ("Match", call("Some", V("a")), [(("Some", ("Sym", "i")), [("Bin", V("i"), "+", I(1))], True),
                                                                  (("None", None), [I(0)], True)])),
        ("closure-arg", "Int", call("twice", LAM_XA, I(1))),
        ("struct-method", "Int", ("MethodCall", PT, "total", [])),
        ("concat", "String", ("Bin", V("s"), "^", ("Str", "!"))),
        ("list", "List", ("List", [V("a"), I(2)])),
        ("map-closure", "List", ("MethodCall", V("xs"), "map", [LAM_XA])),
        ("bool-and", "Bool", ("Bin", ("Paren", ("Bin", V("a"), ">", I(2))), "&&", ("Paren", ("Bin", V("s"), "==", ("Str", "hi"))))),
        ("tuple", "Tuple", ("Tuple", [V("a"), V("s")])),
        ("some", "Option", call("Some", ("Bin", V("a"), "+", I(1)))),
        # `s` is free only in the key, `a` only in the value
        ("dict-key-var", "Dict", ("Dict", [(V("s"), V("a"))])),
        # a payload `a` bound by an earlier case shadows the outer `a` there only: the later case (the one that runs) uses the outer `a`
        ("match-shadow-later-case", "Int", ("Match", ("MethodCall", V("xs"), "get", [I(9)]),
                                            [(("Some", ("Sym", "a")), [("Bin", V("a"), "+", I(1))], False),
                                             (("None", None), [("Bin", V("a"), "*", I(2))], False)])),
        ("match-shadow-other-payload", "Int", ("Match", call("Err", V("s")),
                                               [(("Ok", ("Sym", "a")), [("Bin", V("a"), "+", I(1))], True),
                                                (("Err", ("Sym", "w")), [("Bin", V("a"), "*", I(2))], True)])),
        # a closure parameter named like the outer `a` shadows it inside the closure only: the outer `a` is used again after the closure,
        # and before it
        ("closure-param-shadow-then-use", "Tuple", ("Tuple", [("MethodCall", V("xs"), "map", [("Lambda", [("a", None)], None, [("Bin", V("a"), "*", I(2))])]), V("a")])),
        ("use-then-closure-param-shadow", "Tuple", ("Tuple", [V("a"), ("MethodCall", V("xs"), "map", [("Lambda", [("a", None)], None, [("Bin", V("a"), "*", I(2))])])])),
        # a `for`-free equivalent with two closures in a row, the second reusing the parameter name of the first
        ("two-closures-same-param", "Tuple", ("Tuple", [call("twice", LAM_XA, I(1)), call("twice", ("Lambda", [("x", T_INT)], None, [("Bin", V("x"), "*", V("a"))]), I(2)), V("a")])),
        # the inner closure has the type Fun<(Int), List<Any>> (z is untyped): an unwritable type nested in a writable one
        ("closure-nested-any", "List", ("Call", ("Paren", ("Call", ("Paren", ("Lambda", [("z", None)], None, [
            ("Lambda", [("x", T_INT)], None, [("List", [V("z")])])])), [V("a")])), [I(1)])),
    ]
    if not quick:
        pool += [
            ("literal", "Int", I(7)),
            ("struct-field", "Int", ("Dot", PT, "x")),
            ("closure-applied", "Int", ("Call", ("Paren", LAM_XA), [I(1)])),
            ("closure-let", "Int", call("twice", ("Lambda", [("x", T_INT)], None, [("Let", ("Sym", "y"), None, ("Bin", V("x"), "+", V("a"))), V("y")]), I(1))),
            ("repr-concat", "String", ("Bin", call("string_repr", V("a")), "^", V("s"))),
            ("append", "List", ("MethodCall", V("xs"), "append", [V("a")])),
            ("dict", "Dict", ("Dict", [(("Str", "k"), V("a"))])),
            ("if-nested", "Int", ("If", ("Bin", V("a"), ">", I(2)), [("If", ("Bin", V("a"), ">", I(5)), [I(1)], [("Bin", V("a"), "*", I(2))])], [I(0)])),
        ]
    return pool


def contexts(quick):
    """(name, fn E -> [statements], index of the statements that carry E)."""
    R = V("r")
    cs = [
        ("let-rhs", lambda E: [("Let", ("Sym", "r"), None, E), call("p", R)]),
        ("call-arg", lambda E: [call("p", E)]),
        ("statement", lambda E: [E, call("p", I(0))]),
        ("block-last", lambda E: [call("p", I(0)), E]),
        ("if-condition", lambda E: [("If", ("Bin", call("string_repr", E), "==", ("Str", "3")), [call("p", I(1))], [call("p", I(2))])]),
        ("loop-header", lambda E: [("For", ("Sym", "q"), ("List", [E]), [call("p", V("q"))])]),
        ("closure-body", lambda E: [("Let", ("Sym", "f"), None, ("Lambda", [], None, [E])), call("p", call("f"))]),
        ("local-run", lambda E: [("Let", ("Sym", "t"), None, E), ("Let", ("Sym", "u"), None, ("Tuple", [V("t"), V("t")])), call("p", I(0))]),
        ("local-run-last", lambda E: [call("p", I(0)), ("Let", ("Sym", "t"), None, E), call("string_repr", ("Tuple", [V("t"), I(0)]))]),
    ]
    if not quick:
        cs += [
            ("return-arg", lambda E: [("Return", E)]),
            ("assert-arg", lambda E: [("Assert", ("Bin", call("string_repr", E), "!=", ("Str", ""))), call("p", I(0))]),
            ("method-arg", lambda E: [call("p", ("MethodCall", ("List", [V("a")]), "contains", [E]))]),
        ]
    return cs


INNERS = {
    "if-then": lambda body: [("If", ("Bin", V("a"), ">", I(0)), body, None)],
    "if-else": lambda body: [("If", ("Bin", V("a"), "<", I(0)), [call("p", I(9))], body)],
    # the inner binding of `a` differs from the outer one, so that hoisting an expression out of the body changes its value
    "for-body": lambda body: [("For", ("Sym", "a"), ("List", [("Bin", V("a"), "+", I(1))]), body)],
    "match-arm": lambda body: [("Match", call("Some", ("Bin", V("a"), "+", I(2))), [(("Some", ("Sym", "a")), body, True), (("None", None), [], True)])],
    "closure": lambda body: [("Let", ("Sym", "g"), None, ("Lambda", [("a", T_INT)], None, body)), call("p", call("g", ("Bin", V("a"), "+", I(3))))],
    "while-body": lambda body: [("While", V("True"), body + [("Break",)])],
}

LETS = [("Let", ("Sym", "a"), None, I(3)), ("Let", ("Sym", "s"), None, ("Str", "hi")), ("Let", ("Sym", "xs"), None, ("List", [I(1), I(2)]))]
ARGS = [I(3), ("Str", "hi"), ("List", [I(1), I(2)])]


def outer(kind, body):
    """-> items (after the helper item)"""
    if kind == "top-level":
        return [("Expr", s) for s in LETS + body]
    if kind == "top-block":
        return [("Block", LETS + body)]
    if kind == "fun-typed":
        return [("Fun", "main_", False, None, [], [("a", T_INT), ("s", T_STR), ("xs", T_LIST_INT)], None, body),
                ("Expr", call("p", call("main_", *ARGS)))]
    if kind == "fun-untyped":
        return [("Fun", "main_", False, None, [], [("a", None), ("s", None), ("xs", None)], None, body),
                ("Expr", call("p", call("main_", *ARGS)))]
    if kind == "test":
        return [("Test", "t1", None, LETS + body)]
    if kind == "method":
        return [("Method", False, None, "a", T_INT, "mm", [], [("s", T_STR), ("xs", T_LIST_INT)], None, body),
                ("Expr", call("p", ("MethodCall", I(3), "mm", ARGS[1:])))]
    raise ValueError(kind)


def placements(quick):
    """(name, outer kind, [inner names], inline layout)"""
    out = []
    for o in ("top-level", "top-block", "fun-typed", "test") if quick else ("top-level", "top-block", "fun-typed", "fun-untyped", "test"):
        out.append((o, o, [], False))
    for i in INNERS:
        out.append((f"fun-typed>{i}", "fun-typed", [i], False))
    for name, o, ins in (("fun-typed", "fun-typed", []), ("fun-typed>match-arm", "fun-typed", ["match-arm"]), ("fun-typed>closure", "fun-typed", ["closure"]))[(1 if quick else 0):]:
        out.append((name + " [one line]", o, ins, True))
    if not quick:
        out.append(("method", "method", [], False))
        for o in ("top-block", "test"):
            for i in INNERS:
                out.append((f"{o}>{i}", o, [i], False))
        for i in INNERS:
            for j in ("if-then", "for-body", "match-arm", "closure", "while-body"):
                out.append((f"fun-typed>{i}>{j}", "fun-typed", [i, j], False))
        for i in INNERS:
            out.append((f"fun-typed>{i} [one line]", "fun-typed", [i], True))
    return out


def tool_programs(quick):
    """Every (placement, context, expression) program. Yields dicts: items, tags, focus (path prefix set of the context statements)."""
    for pname, okind, inners, inline in placements(quick):
        for cname, cfn in contexts(quick):
            if cname == "return-arg" and okind in ("top-level", "top-block", "test"):
                continue
            for ename, ety, E in expr_pool(quick):
                body = cfn(E)
                for i in reversed(inners):
                    body = INNERS[i](body)
                items = [TOOL_HELPERS] + outer(okind, body)
                yield {"items": items, "placement": pname, "context": cname, "expr": ename, "etype": ety, "inline": inline, "E": E, "outer": okind,
                       "inners": inners}


def mark_focus(prog, pr):
    """-> (record of E, block record holding the context statements or None at top level, focus expression records)."""
    E = prog["E"]
    hits = [r for r in pr.exprs if r["node"] is E]
    if len(hits) != 1:
        raise ValueError("focus expression not found exactly once")
    e = hits[0]
    blk = context_block(prog, pr, e)
    if blk is None:
        focus = [r for r in pr.exprs if r["ctx"] and r["ctx"][0] == ("Top", "item")]
    else:
        focus = [r for r in pr.exprs if any(a <= r["start"] and r["end"] <= z for a, z in blk["stmts"])]
    return e, blk, focus


def context_block(prog, pr, e):
    """The block whose statements are exactly the context statements (placement blocks are outside, context / E blocks inside)."""
    depth = len(prog["inners"])
    if prog["outer"] == "top-level" and depth == 0:
        return None
    # blocks containing E, outermost first
    holders = sorted((b for b in pr.blocks if b["open"] is not None and b["open"] < e["start"] and e["end"] <= b["close"]),
                     key=lambda b: b["open"])
    need = depth if prog["outer"] == "top-level" else depth + 1
    return holders[need - 1]


# ---------------------------------------------------------------- typed programs for add_type_annotation (C21)

TYPED_HELPERS = ("Raw", "fun p(x) { println(string_repr(x)) }\n"
                        "fun add(x: Int, y: Int): Int { x + y }\n"
                        "fun twice(f: Fun<(Int), Int>, x: Int): Int { f(f(x)) }\n"
                        "fun id<T>(x: T): T { x }\n"
                        "struct Pt { x: Int, y: Int }\n"
                        "struct Box<T> { v: T }\n"
                        "enum Col { Red, Cust(Int) }\n"
                        "method total(this: Pt): Int { this.x + this.y }")


def typed_values(quick):
    """(name, expression text): values of many types, as raw expression text (parsed by the real parser)."""
    vals = [
        ("Int", "1"), ("String", '"s"'), ("Float", "1.5"), ("Bool", "True"), ("Unit", "()"), ("Unit-call", "p(0)"),
        ("List<Int>", "[1, 2]"), ("empty-list", "[]"), ("List<String>", '["a"]'), ("List<List<Int>>", "[[1]]"),
        ("Option<Int>", "Some(1)"), ("None", "None"), ("Result-ok", "Ok(1)"), ("Result-err", 'Err("e")'),
        ("Tuple", '(1, "a")'), ("Tuple1", "(1,)"), ("struct", "Pt{ x: 1, y: 2 }"), ("generic-struct", "Box{ v: 1 }"),
        ("closure-1", "fun(x: Int) { x }"), ("closure-0", "fun() { 1 }"), ("closure-2-ret", "fun(x: Int, y: String): String { y }"),
        ("closure-untyped", "fun(x) { x }"), ("closure-unit", "fun(x: Int) { p(x) }"),
        ("Dict", 'Dict["a" => 1]'), ("empty-dict", "Dict[]"), ("constructor", "Some"), ("function", "add"), ("generic-function", "id"),
        ("enum-nullary", "Red"), ("enum-payload", "Cust(1)"), ("enum-constructor", "Cust"),
        ("nested-option", "Some(Some(1))"), ("option-list", "Some([1])"), ("list-option", "[Some(1)]"), ("list-none", "[None]"),
        ("list-closure", "[fun(x: Int) { x }]"), ("if-mixed", 'if True { 1 } else { "a" }'), ("if-int", "if True { 1 } else { 2 }"),
        ("generic-call", "id(1)"), ("generic-call-list", "id([1])"), ("method-call", "[1].len()"), ("string-method", '"a b".split(" ")'),
        ("tuple-closure", "(1, fun() { 1 })"), ("option-tuple", 'Some((1, "a"))'), ("list-tuple", '[(1, "a")]'),
        ("match-int", "match Some(1) { Some(i) => i None => 0 }"), ("dict-list", 'Dict["a" => [1]]'),
        ("closure-returning-closure", "fun(x: Int) { fun(y: Int) { x + y } }"), ("list-unit", "[()]"), ("path", 'Path{ p: "/x" }'),
    ]
    return vals


TYPE_TEXT = {'Int': 'Int', 'String': 'String', 'Float': 'Float', 'Bool': 'Bool', 'Unit': 'Unit', 'List<Int>': 'List<Int>', 'List<String>': 'List<String>', 'List<List<Int>>': 'List<List<Int>>', 'Option<Int>': 'Option<Int>', 'Result-ok': 'Result<Int, String>', 'Tuple': '(Int, String)', 'Tuple1': '(Int,)', 'struct': 'Pt', 'generic-struct': 'Box<Int>', 'closure-1': 'Fun<(Int), Int>', 'closure-0': 'Fun<(), Int>', 'closure-2-ret': 'Fun<(Int, String), String>', 'Dict': 'Dict<Int>', 'enum-nullary': 'Col', 'enum-payload': 'Col', 'nested-option': 'Option<Option<Int>>', 'list-option': 'List<Option<Int>>', 'list-closure': 'List<Fun<(Int), Int>>', 'option-tuple': 'Option<(Int, String)>', 'list-tuple': 'List<(Int, String)>', 'closure-returning-closure': 'Fun<(Int), Fun<(Int), Int>>', 'path': 'Path', 'list-unit': 'List<Unit>'}


def typed_programs(quick):
    """Yields (tags, src, [(position kind, offset)]) ; offsets found by marker `@` removed from the text."""
    H = TYPED_HELPERS[1] + "\n\n"
    for vname, v in typed_values(quick):
        ty = TYPE_TEXT.get(vname)
        forms = [
            ("let in function", f"fun main_() {{\n  let @t = {v}\n  p(t)\n}}\n\nmain_()\n"),
            ("let at top level", f"let @t = {v}\n\np(t)\n"),
            ("function return", f"fun @mk@() {{\n  {v}\n}}\n\np(mk())\n"),
            ("closure return", f"fun main_() {{\n  let g = fun@() {{ {v} }}\n  p(g())\n}}\n\nmain_()\n"),
            ("closure parameter", f"fun main_() {{\n  let g: Fun<({ty}), Unit> = fun(@e) {{ p(e) }}\n  g({v})\n}}\n\nmain_()\n") if ty else
            ("closure parameter of map", f"fun main_() {{\n  let ys = [{v}].map(fun(@e) {{ p(e) e }})\n  p(ys)\n}}\n\nmain_()\n"),
            ("let in closure in test", f"test t1 {{\n  let g = fun() {{ let @t = {v} t }}\n  p(g())\n}}\n"),
        ]
        if not quick:
            forms += [
                ("let in match arm", f"fun main_() {{\n  match Some(1) {{\n    Some(_) => {{\n      let @t = {v}\n      p(t)\n    }}\n    None => {{}}\n  }}\n}}\n\nmain_()\n"),
                ("method return", f"method @mm@(this: Pt) {{\n  {v}\n}}\n\np(Pt{{ x: 1, y: 2 }}.mm())\n"),
                ("let of let", f"fun main_() {{\n  let t0 = {v}\n  let @t = t0\n  p(t)\n}}\n\nmain_()\n"),
                ("function return after early return", f"fun @mk() {{\n  if False {{ return {v} }}\n  {v}\n}}\n\np(mk())\n"),
            ]
        yield from _emit_forms(H, forms, vname)
    # closures whose type nests an unwritable type (Any from the untyped `y`, an unbound type parameter) inside a writable one,
    # one and two levels deep: nothing valid can be written for them
    nested = [
        ("Fun<(Int), List<Any>>", "fun(x: Int) { [y] }"), ("Fun<(Int), Option<List<Any>>>", "fun(x: Int) { Some([y]) }"),
        ("Fun<(Int), (Int, Any)>", "fun(x: Int) { (x, y) }"), ("Fun<(Int), Fun<(Int), Any>>", "fun(x: Int) { fun(z: Int) { y } }"),
        ("Fun<(Int), Fun<(Any), Int>>", "fun(x: Int) { fun(z) { x } }"), ("Fun<(Int), List<NoValue>>", "fun(x: Int) { [] }"),
        ("Fun<(Int), Fun<(T), Option<T>>>", "fun(x: Int) { Some }"), ("Fun<(Int), List<Fun<(T), T>>>", "fun(x: Int) { [id] }"),
        ("Fun<(Int), Option<Fun<(Int), List<Any>>>>", "fun(x: Int) { Some(fun(z: Int) { [y] }) }"),
    ]
    for vname, c in nested:
        forms = [
            ("let in function", f"fun main_(y) {{\n  let @f = {c}\n  p(string_repr(f(1)).len() > 0)\n}}\n\nmain_(7)\n"),
            ("function return", f"fun @mk@(y) {{\n  {c}\n}}\n\np(string_repr(mk(7)(1)).len() > 0)\n"),
            ("closure return", f"fun main_(y) {{\n  let g = fun@() {{ {c} }}\n  p(string_repr(g()(1)).len() > 0)\n}}\n\nmain_(7)\n"),
        ]
        yield from _emit_forms(H, forms, "nested " + vname)
    yield from generic_then_plain_programs()


def generic_then_plain_programs():
    """A generic function directly followed by a non-generic one whose let / return positions have a type that mentions the
    generic function's type parameter: the parameter is not in scope there, so no annotation can be written."""
    H = TYPED_HELPERS[1] + "\n\n"
    first_or = "fun first_or<T>(items: List<T>, default: T): T {\n  match items.first() {\n    Some(x) => x\n    None => default\n  }\n}\n\n"
    pair_of = "fun pair_of<A, B>(x: A, y: B): (A, B) {\n  (x, y)\n}\n\n"
    pick = "fun pick<U>(x: U, y: U): U {\n  if True { x } else { y }\n}\n\n"
    cases = [
        ("one type parameter", first_or, "first_or", "c([1], 2)"),
        ("two type parameters", pair_of, "pair_of", "c(1, \"a\")"),
        ("first of two generic functions", first_or + pick, "first_or", "c([1], 2)"),
        ("second of two generic functions", first_or + pick, "pick", "c(1, 2)"),
        ("generic function in a list", first_or, "[first_or]", "c.len()"),
        ("generic function in an option", pair_of, "Some(pair_of)", "c.is_some()"),
    ]
    for cname, defs, value, use in cases:
        forms = [
            ("let in function", defs + f"fun main_() {{\n  let @c = {value}\n  p(string_repr({use}))\n}}\n\nmain_()\n"),
            ("function return", defs + f"fun @mk@() {{\n  {value}\n}}\n\nfun main_() {{\n  let c = mk()\n  p(string_repr({use}))\n}}\n\nmain_()\n"),
            ("closure return", defs + f"fun main_() {{\n  let g = fun@() {{ {value} }}\n  let c = g()\n  p(string_repr({use}))\n}}\n\nmain_()\n"),
            ("let at top level", defs + f"let @c = {value}\n\np(string_repr({use}))\n"),
        ]
        yield from _emit_forms(H, forms, "after generic function: " + cname)


def _emit_forms(H, forms, vname):
    if True:
        for fname, text in forms:
            offs = []
            out = []
            n = 0
            for ch in H + text:
                if ch == "@":
                    offs.append(n)
                else:
                    out.append(ch)
                    n += 1
            yield {"form": fname, "value": vname}, "".join(out), [(fname, o) for o in offs]
