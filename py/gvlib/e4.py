"""E4: TLA+ model of the nREPL session protocol (models/NreplSession.tla) bound to the code in both directions.

* TLC explores the whole state graph of the model for each client script (all interleavings, no deviation bound)
  and checks the C31 invariants on the part of the protocol outside the known dequeue/reset window.
* Conformance, code -> model: every execution of the real code recorded by E3 for the same scenario, projected onto
  the model's alphabet (the scheduling-point labels), must be a path of the dumped state graph. A trace that is not
  means the model misrepresents the code: a machinery error, never a verdict.
* Conformance, model -> code: every counterexample TLC finds in the full model (window included) is turned into a
  label-directed schedule and replayed on the real code; it counts only if the real execution violates the oracle.
"""
import os, re, shutil, subprocess

from .core import Machinery
from . import schedx

MODELS = os.path.join(os.path.dirname(os.path.dirname(os.path.dirname(os.path.abspath(__file__)))), "models")
VISIBLE = {"send.ch1", "interrupt.store", "client.await", "recv.ch1", "worker.reset", "eval.step"}
CLIENT_LABELS = {"send.ch1", "interrupt.store", "client.await"}
MAX_STEPS = 8


def _run_tlc(workdir, cfg, dump=None, timeout=600):
    cmd = ["tlc", "-config", cfg, "-workers", "4", "-metadir", os.path.join(workdir, "meta-" + cfg)]
    if dump:
        cmd += ["-dump", "dot,actionlabels", dump]
    cmd.append("MC_NreplSession.tla")
    env = dict(os.environ, JAVA_TOOL_OPTIONS=f"-Djava.io.tmpdir={workdir}")     # TLC's scratch files stay in the check's scratch directory
    p = subprocess.run(cmd, cwd=workdir, stdout=subprocess.PIPE, stderr=subprocess.STDOUT, timeout=timeout, env=env)
    return p.stdout.decode("utf-8", "replace")


def prepare(scratch):
    d = os.path.join(scratch, "tlc")
    shutil.rmtree(d, ignore_errors=True)
    os.makedirs(d)
    for f in os.listdir(MODELS):
        if f.endswith((".tla", ".cfg")):
            shutil.copy(os.path.join(MODELS, f), d)
    return d


def model_graph(workdir, script):
    """Check the no-window model and return its state graph: (init ids, {node: [(act label, target)]}, states, edges)."""
    dump = os.path.join(workdir, f"graph_{script}")
    out = _run_tlc(workdir, f"MC_{script}_nowindow.cfg", dump=dump)
    if "No error has been found" not in out:
        raise ModelViolation(script, out)
    m = re.search(r"(\d+) states generated, (\d+) distinct states found", out)
    text = open(dump + ".dot").read()
    act = {}
    for line in text.split("\n"):
        m2 = re.match(r'^(-?\d+) \[label="', line)
        if not m2:
            continue
        a = re.search(r'act = \\"([^\\]*)\\"', line)
        act[m2.group(1)] = a.group(1) if a else "?"
    edges = {}
    n_edges = 0
    for a, b in re.findall(r'^(-?\d+) -> (-?\d+) \[', text, re.M):
        edges.setdefault(a, []).append((act.get(b, "?"), b))
        n_edges += 1
    inits = [n for n, a in act.items() if a == "init"]
    if not inits:
        raise Machinery("E4: no initial state in the dumped graph")
    return inits, edges, int(m.group(2)) if m else len(act), n_edges


class ModelViolation(Exception):
    def __init__(self, script, out):
        self.script, self.out = script, out


def counterexample(workdir, script):
    """Label sequence of the counterexample TLC finds in the full model, or None."""
    out = _run_tlc(workdir, f"MC_{script}_full.cfg")
    if "is violated" not in out:
        return None
    labels = re.findall(r'/\\ act = "([^"]*)"', out)
    return [l for l in labels if l in VISIBLE]


def project(res):
    """Visible label sequence of a real execution, from the first request sent to the session."""
    ops = schedx.executed_ops(res)
    seq, started, steps = [], False, 0
    for (i, task, label, timeout) in ops:
        if label == "send.ch1":
            started = True
        if not started or label not in VISIBLE:
            continue
        if label == "eval.step":
            steps += 1
            if steps > MAX_STEPS:
                break
        seq.append(label)
    return seq


def accepts(graph, labels):
    """Is `labels` a path of the model graph (invisible `send.ch0` steps are taken freely)?"""
    inits, edges = graph[0], graph[1]

    def closure(states):
        todo, seen = list(states), set(states)
        while todo:
            s = todo.pop()
            for a, t in edges.get(s, []):
                if a == "send.ch0" and t not in seen:
                    seen.add(t)
                    todo.append(t)
        return seen
    cur = closure(inits)
    for k, l in enumerate(labels):
        nxt = {t for s in cur for a, t in edges.get(s, []) if a == l}
        if not nxt:
            return False, k
        cur = closure(nxt)
    return True, len(labels)


def directed_replay(binary, script, labels, horizon):
    """Drive the real code along a label sequence of the model: returns the execution, or None if it cannot be followed."""
    prefix = []
    for _ in range(400):
        res = schedx.run_exec(binary, script, prefix, horizon)
        trace = res["trace"]
        k, started = 0, False
        deviated = False
        for i, p in enumerate(trace):
            t, label, to = p["alts"][p["choice"]][0], p["alts"][p["choice"]][1], p["alts"][p["choice"]][2]
            want = labels[k] if k < len(labels) else None
            if want is None:
                return res
            if label == "send.ch1":
                started = True
            visible = started and label in VISIBLE and not to
            if visible and label == want:
                k += 1
                continue
            if i < len(prefix):
                continue
            want_client = want in CLIENT_LABELS
            # a visible op that is not the wanted one, or an invisible op of the task that must wait: deviate here
            runs_client = (t == 0)
            if visible or (runs_client != want_client):
                pick = None
                for j, (at, al, ato) in enumerate(p["alts"]):
                    if ato:
                        continue
                    if al == want and ((at == 0) == want_client):
                        pick = j
                        break
                if pick is None:
                    for j, (at, al, ato) in enumerate(p["alts"]):
                        if not ato and ((at == 0) == want_client) and not (started and al in VISIBLE and al != want):
                            pick = j
                            break
                if pick is None or pick == p["choice"]:
                    if visible:
                        return None
                    continue
                prefix = [q["choice"] for q in trace[:i]] + [pick]
                deviated = True
                break
        if not deviated:
            return res if k >= len(labels) else None
    return None
