"""Table of built-in / prelude functions and methods, extracted from the repository's own .gdn files."""
import os
from . import gast
from .rustdbg import parse_debug
from .build import REPO

FILES = ["__prelude.gdn", "__fs.gdn", "__shell.gdn", "__random.gdn", "__reflect.gdn", "__time.gdn"]


def load(ctx):
    """Returns list of dicts: {file, kind: fun|method, name, recv_hint, params: [(name, hint)], public}"""
    out = []
    jobs = [{"op": "front", "src": open(os.path.join(REPO, "src", f)).read(), "want": ["ast"]} for f in FILES]
    res = ctx.pool.map(jobs, batch=1, timeout=60)
    for f, r in zip(FILES, res):
        if r.get("parse_errors"):
            raise RuntimeError(f"{f} has parse errors")
        for it in gast.project(parse_debug(r["ast"])):
            if it[0] == "Fun":
                out.append({"file": f, "kind": "fun", "name": it[1], "public": it[2], "params": it[5], "recv_hint": None})
            elif it[0] == "Method":
                out.append({"file": f, "kind": "method", "name": it[5], "public": it[1], "params": it[7], "recv_hint": it[4]})
    return out


def default_for(hint):
    """A well-typed argument (source text) for a type hint."""
    if hint is None:
        return "1"
    name, args = hint[1], hint[2]
    if name == "Int": return "1"
    if name == "String": return '"a"'
    if name == "Bool": return "True"
    if name == "Float": return "1.5"
    if name == "Unit": return "Unit"
    if name == "Path": return 'Path{ p: "x" }'
    if name == "List": return "[" + (default_for(args[0]) if args else "1") + "]"
    if name == "Option": return "Some(" + (default_for(args[0]) if args else "1") + ")"
    if name == "Result": return "Ok(" + (default_for(args[0]) if args else "1") + ")"
    if name == "Dict": return 'Dict["k" => ' + (default_for(args[0]) if args else "1") + "]"
    if name == "Tuple": return "(" + ", ".join(default_for(a) for a in args) + ("," if len(args) == 1 else "") + ")"
    if name == "Fun":
        n = len(args[0][2]) if args and args[0][1] == "Tuple" else 1
        ps = ", ".join(f"p{i}" for i in range(n))
        ret = default_for(args[1]) if len(args) > 1 else "1"
        return f"fun({ps}) {{ {ret} }}"
    if name == "Namespace": return "nsfs"
    return "1"   # type parameter


PRELUDE_PREFIX = 'import "__fs.gdn" as nsfs\nimport "__shell.gdn" as nsshell\nimport "__random.gdn" as nsrandom\nimport "__reflect.gdn" as nsreflect\nimport "__time.gdn" as nstime\n'
NS = {"__fs.gdn": "nsfs::", "__shell.gdn": "nsshell::", "__random.gdn": "nsrandom::", "__reflect.gdn": "nsreflect::", "__time.gdn": "nstime::", "__prelude.gdn": ""}

# value pool (source text, type tag)
POOL = [("0", "Int"), ("1", "Int"), ("-1", "Int"), ("9223372036854775807", "Int"), ("-9223372036854775808", "Int"), ("1.5", "Float"), ("-0.0", "Float"),
        ('""', "String"), ('"a"', "String"), ('"é"', "String"), ("[]", "List"), ("[1]", "List"), ("(1, 2)", "Tuple"), ("Dict[]", "Dict"), ("None", "Option"),
        ("Some(1)", "Option"), ("True", "Bool"), ("Unit", "Unit"), ("fun(x) { x }", "Fun"), ('Path{ p: "" }', "Path")]
