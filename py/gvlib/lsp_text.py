"""Independent LSP text model, written from the LSP 3.17 specification (not from /repo/src/lsp.rs).

Specification facts implemented here (section "Text Documents" / "Position" / "Range" / "TextEdit"):

* `export const EOL: string[] = ['\\n', '\\r\\n', '\\r'];`  -- a document is split into lines at
  LF, CRLF and lone CR.  A document with n terminators has n + 1 lines (the last one may be empty).
* `Position.line` is zero-based.  `Position.character` is a zero-based offset into the line counted
  in code units of the negotiated encoding; the server announces UTF-16 (also the mandatory default).
* "If the character value is greater than the line length it defaults back to the line length."
  Positions are "line end character agnostic": the line length does not include the terminator, so
  no position denotes `\\r|\\n` or a place inside a terminator.
* A line number beyond the last line is not given a meaning by the text of the specification; every
  reference implementation (vscode-languageserver-textdocument `offsetAt`) clamps it to the end of
  the document, which is what `position_to_*` does (flagged `line_clamped`).
* `Range` is half-open: `end` is exclusive.  To include a line terminator the end position is the
  start of the next line.
* `TextEdit[]`: "all text edits ranges refer to positions in the document they are computed on ...
  they move the document from state S1 to S2 without describing any intermediate state.  Text edit
  ranges must never overlap ... multiple inserts at the same position are allowed and the order in
  the array defines the order in which the inserted strings appear in the resulting text."

Python strings are sequences of code points; "index" below means a code point index into the
Python string, "offset" means a UTF-8 byte offset (what Garden positions use).
"""


class EditError(Exception):
    """The edit list is not applicable as the specification defines (overlap, start after end)."""


# ------------------------------------------------------------------ encodings

def utf16_len(s):
    """Number of UTF-16 code units of `s`."""
    return sum(2 if ord(c) > 0xFFFF else 1 for c in s)


def utf8_len(s):
    return len(s.encode("utf-8"))


def offset_to_index(text, offset):
    """UTF-8 byte offset -> code point index.  The offset must be a character boundary (else ValueError).
    An offset beyond the end is clamped to the end."""
    raw = text.encode("utf-8")
    if offset >= len(raw):
        return len(text)
    if offset < 0:
        raise ValueError("negative offset")
    if raw[offset] & 0xC0 == 0x80:
        raise ValueError(f"offset {offset} is not a character boundary")
    return len(raw[:offset].decode("utf-8"))


def index_to_offset(text, index):
    return len(text[:index].encode("utf-8"))


# ------------------------------------------------------------------ lines

def lines(text):
    """[(start_index, end_index_without_terminator, end_index_with_terminator)] for every line.
    Always at least one line; n terminators give n + 1 lines."""
    out = []
    i, start, n = 0, 0, len(text)
    while i < n:
        c = text[i]
        if c == "\n":
            out.append((start, i, i + 1))
            i += 1
            start = i
        elif c == "\r":
            if i + 1 < n and text[i + 1] == "\n":
                out.append((start, i, i + 2))
                i += 2
            else:
                out.append((start, i, i + 1))
                i += 1
            start = i
        else:
            i += 1
    out.append((start, n, n))
    return out


def line_count(text):
    return len(lines(text))


def has_lone_cr(text):
    return any(c == "\r" and (i + 1 >= len(text) or text[i + 1] != "\n") for i, c in enumerate(text))


def has_crlf(text):
    return "\r\n" in text


# ------------------------------------------------------------------ positions

def position_to_index(text, line, character, flags=None):
    """LSP position -> code point index, with the specification's clamping.
    `flags` (a dict, optional) receives: line_clamped, character_clamped, inside_surrogate_pair."""
    ls = lines(text)
    if flags is None:
        flags = {}
    if line < 0 or character < 0:
        raise ValueError("negative position")
    if line >= len(ls):
        flags["line_clamped"] = True
        return len(text)
    start, end, _ = ls[line]
    units = 0
    i = start
    while i < end:
        if units >= character:
            break
        w = 2 if ord(text[i]) > 0xFFFF else 1
        if units + w > character:
            # the position points between the two code units of a surrogate pair: not a character
            # boundary; the specification gives it no meaning.  Round down and tell the caller.
            flags["inside_surrogate_pair"] = True
            break
        units += w
        i += 1
    if units < character and not flags.get("inside_surrogate_pair"):
        flags["character_clamped"] = True
    return i


def index_to_position(text, index, flags=None):
    """Code point index -> (line, UTF-16 character).  An index inside a CRLF terminator has no
    position (flag `inside_terminator`); the end of the line's content is returned for it."""
    if flags is None:
        flags = {}
    index = max(0, min(index, len(text)))
    ls = lines(text)
    for n, (start, end, end_t) in enumerate(ls):
        last = n == len(ls) - 1
        if index < end_t or last:
            if index > end:
                flags["inside_terminator"] = True
                index = end
            return n, utf16_len(text[start:index])
    raise AssertionError("unreachable")


def position_to_offset(text, line, character, flags=None):
    """LSP position -> UTF-8 byte offset."""
    return index_to_offset(text, position_to_index(text, line, character, flags))


def offset_to_position(text, offset, flags=None):
    """UTF-8 byte offset (on a character boundary) -> (line, UTF-16 character)."""
    return index_to_position(text, offset_to_index(text, offset), flags)


def end_position(text):
    """Position of the end of the document: (last line, its length)."""
    start, end, _ = lines(text)[-1]
    return len(lines(text)) - 1, utf16_len(text[start:end])


def normalise_position(text, line, character):
    """The position the specification's clamping turns (line, character) into."""
    return index_to_position(text, position_to_index(text, line, character))


# ------------------------------------------------------------------ edits

def _pos(p):
    return int(p["line"]), int(p["character"])


def edit_span(text, edit, flags=None):
    """(start_index, end_index, new_text) of one LSP TextEdit."""
    r = edit["range"]
    (sl, sc), (el, ec) = _pos(r["start"]), _pos(r["end"])
    a = position_to_index(text, sl, sc, flags)
    b = position_to_index(text, el, ec, flags)
    if (sl, sc) > (el, ec):
        raise EditError(f"range start {sl}:{sc} after end {el}:{ec}")
    return a, b, edit["newText"]


def apply_edits(text, edits, flags=None):
    """Apply a TextEdit[] to `text` as the specification defines: every range refers to the
    ORIGINAL text, ranges must not overlap, equal-position inserts keep array order.  The edits are
    sorted by start (stable) and applied from the end of the document."""
    spans = []
    for k, e in enumerate(edits):
        a, b, new = edit_span(text, e, flags)
        if a > b:
            raise EditError("start after end after clamping")
        spans.append((a, b, k, new))
    spans.sort(key=lambda s: (s[0], s[2]))        # stable on array order
    for (a1, b1, _, _), (a2, b2, _, _) in zip(spans, spans[1:]):
        if a2 < b1:
            raise EditError(f"overlapping edits [{a1},{b1}) and [{a2},{b2})")
    out = text
    for a, b, _, new in reversed(spans):
        out = out[:a] + new + out[b:]
    return out


def workspace_edit_for(uri, wedit):
    """The TextEdit[] a WorkspaceEdit holds for `uri` (only the `changes` form is used by garden)."""
    if not wedit:
        return None
    ch = wedit.get("changes") or {}
    if uri in ch:
        return ch[uri]
    for dc in wedit.get("documentChanges") or []:
        if dc.get("textDocument", {}).get("uri") == uri:
            return dc.get("edits", [])
    return None


def doc_class(text):
    """Coarse document class used in violation signatures."""
    cls = []
    if text == "":
        return "empty"
    if has_lone_cr(text):
        cls.append("lone-cr")
    if has_crlf(text):
        cls.append("crlf")
    if any(ord(c) > 0xFFFF for c in text):
        cls.append("astral")
    elif any(ord(c) > 0x7F for c in text):
        cls.append("non-ascii")
    if not text.endswith("\n") and not text.endswith("\r"):
        cls.append("no-trailing-newline")
    return "+".join(cls) if cls else "ascii-lf"
