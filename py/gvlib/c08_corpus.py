"""Corpus for C08: small programs, one construct each, so that every `Expression_` variant of src/parser/ast.rs is
interrupted in every `ExpressionState` it passes through in `eval_expr` (src/eval.rs).

Each entry: (stable name, definitions sent in a first request, expressions sent in the interrupted request).
Definitions are loaded without any interpreter step, so the step counter of the job counts only the second request.
Most programs end in a plain value; `for-last-expr*` end in a bare `for` loop (a session `run` request used to stop
such a loop after entering its first iteration; the check's run-vs-session comparison covers that).
"""

DEFS = """struct Pt { x: Int, y: Int }
enum Shape { Dot, Circle(Int), Box((Int, Int)) }
fun inc(n: Int): Int { n + 1 }
fun add3(a: Int, b: Int, c: Int): Int { a + b + c }
fun twice(n: Int): Int { inc(inc(n)) }
fun thrice(n: Int): Int { inc(twice(n)) }
fun shout(s: String): Unit { println(s ^ "!") }
fun fact(n: Int): Int { if n <= 1 { 1 } else { n * fact(n - 1) } }
fun early(n: Int): Int { if n > 0 { return n * 2 } 0 }
fun bare_return(n: Int) {
  if n > 0 {
    return
  }
  println("not reached")
}
fun first_big(xs: List<Int>): Int { for x in xs { if x > 1 { return x } } 0 }
fun area(s: Shape): Int { match s { Dot => 0 Circle(r) => r * r * 3 Box((w, h)) => w * h } }
fun make_adder(n: Int): Fun<(Int), Int> { fun(m: Int): Int { n + m } }
fun apply(f: Fun<(Int), Int>, v: Int): Int { f(v) }
fun noisy(n: Int): Int { print("n") n }
fun wrong_ret(n): String { n }
method norm1(this: Pt): Int { this.x + this.y }
method scale(this: Pt, k: Int): Pt { Pt{ x: this.x * k, y: this.y * k } }
"""

PROGRAMS = [
    # ---- literals, variables, parentheses
    ("lit-int", "", "42"),
    ("lit-float", "", "1.5"),
    ("lit-string", "", '"abc"'),
    ("lit-list", "", "[1, 2, 3]"),
    ("lit-list-nested", "", "[[1], [2, 3], []]"),
    ("lit-tuple", "", '(1, "a", True)'),
    ("lit-dict", "", 'Dict["a" => 1, "b" => 2]'),
    ("lit-struct", DEFS, "Pt{ x: 1, y: 2 }"),
    ("lit-fun", "", "let f = fun(a) { a }\nf"),
    ("parens", "", "((1 + 2)) * (3)"),
    ("variable", "", "let a = 7\na"),
    ("unit-values", "", "let u = Unit\nu"),
    # ---- let / assign / update
    ("let-hint", "", "let a: Int = 1 + 2\na"),
    ("let-destructure", "", 'let (a, b) = (1, "s")\nb'),
    ("let-underscore", "", "let _ = 5\nlet (_, c) = (1, 2)\nc"),
    ("assign", "", "let a = 1\na = a + 10\na"),
    ("assign-update-plus", "", "let a = 1\na += 5\na += a\na"),
    ("assign-update-minus", "", "let a = 9\na -= 4\na"),
    ("print-between-lets", "", 'let a = 1\nprint("p")\nlet b = a + 1\nprintln("q")\nb'),
    # ---- operators
    ("arith", "", "1 + 2 * 3 - 4 / 2 % 3"),
    ("arith-pow", "", "2 ** 5 + 1"),
    ("float-ops", "", "1.5 +. 2.0 *. 3.0 -. 1.0 /. 2.0"),
    ("compare", "", "[1 < 2, 2 <= 2, 3 > 4, 4 >= 4]"),
    ("equality", "", '[1 == 1, "a" != "b", [1] == [1], None == None]'),
    ("bool-ops", "", "(True && False) || (True && True)"),
    ("string-concat", "", '"a" ^ "b" ^ "c"'),
    ("bitwise", "", "(6 & 3) | 8"),
    ("binop-with-calls", DEFS, "inc(1) + inc(2) * inc(3)"),
    # ---- if
    ("if-then", "", 'let a = 1\nif a == 1 { println("t") }\na'),
    ("if-else-taken", "", 'let a = 2\nlet r = if a == 1 { "one" } else { "other" }\nr'),
    ("if-else-chain", "", 'let a = 3\nif a == 1 { println("1") } else if a == 2 { println("2") } else { println("3") }\na'),
    ("if-value-used", "", "let v = if True { 10 } else { 20 }\nv + 1"),
    ("if-nested-blocks-shadow", "", "let a = 1\nif True { let a = 2 if True { let a = 3 print(string_repr(a)) } print(string_repr(a)) }\na"),
    # ---- while
    ("while-count", "", "let i = 0\nwhile i < 3 { i += 1 }\ni"),
    ("while-print", "", 'let i = 0\nwhile i < 3 { print(string_repr(i)) i += 1 }\n"done"'),
    ("while-break", "", "let i = 0\nwhile True { i += 1 if i == 3 { break } }\ni"),
    ("while-continue", "", 'let i = 0\nwhile i < 4 { i += 1 if i == 2 { continue } print(string_repr(i)) }\ni'),
    ("while-false", "", 'while False { println("never") }\n1'),
    ("while-nested", "", 'let i = 0\nwhile i < 2 { let j = 0 while j < 2 { print(string_repr(i * 2 + j)) j += 1 } i += 1 }\ni'),
    ("while-nested-break-inner", "", 'let i = 0\nwhile i < 2 { i += 1 while True { break } print("o") }\ni'),
    # ---- for
    ("for-list", "", "let s = 0\nfor x in [1, 2, 3] { s += x }\ns"),
    ("for-print", "", 'for x in ["a", "b", "c"] { print(x) }\n0'),
    ("for-empty", "", 'for x in [] { println("never") }\n1'),
    ("for-destructure", "", 'let t = 0\nfor (a, b) in [(1, 2), (3, 4)] { t += a * b }\nt'),
    ("for-break", "", 'for x in [1, 2, 3] { if x == 2 { break } print(string_repr(x)) }\n0'),
    ("for-continue", "", 'for x in [1, 2, 3] { if x == 2 { continue } print(string_repr(x)) }\n0'),
    ("for-nested", "", 'for x in [1, 2] { for y in [10, 20] { print(string_repr(x + y)) print(" ") } }\n0'),
    ("for-in-while", "", 'let i = 0\nwhile i < 2 { for x in [1, 2] { print(string_repr(x + i)) } i += 1 }\ni'),
    ("for-range", "", "let s = 0\nfor x in range(0, 3) { s += x }\ns"),
    ("for-value-unused-last-in-fun", DEFS, "first_big([1, 2, 3])"),
    ("for-last-expr", "", 'for x in [1, 2] { print(string_repr(x)) }'),
    ("for-last-expr-nested", "", 'let n = 0\nfor x in [1, 2] { for y in [1, 2] { n += x * y } print(string_repr(n)) }'),
    # ---- match
    ("match-some", "", "match Some(5) { Some(x) => x + 1 None => 0 }"),
    ("match-none", "", 'match None { Some(x) => x None => { println("none") 0 } }'),
    ("match-enum-payload", DEFS, "area(Circle(2)) + area(Dot)"),
    ("match-tuple-payload", DEFS, "area(Box((2, 3)))"),
    ("match-wildcard", "", 'match Some(1) { None => "n" _ => "w" }'),
    ("match-result", "", 'let r = Ok(3)\nmatch r { Ok(v) => v Err(e) => 0 }'),
    ("match-bool", "", 'match 1 < 2 { True => "lt" False => "ge" }'),
    ("match-in-loop", "", 'for o in [Some(1), None, Some(3)] { match o { Some(v) => print(string_repr(v)) None => print("-") } }\n0'),
    ("match-value-unused", "", 'match Some(1) { Some(x) => println("s") None => println("n") }\n7'),
    # ---- calls
    ("call-1", DEFS, "inc(1)"),
    ("call-3-args", DEFS, "add3(1, 2, 3)"),
    ("call-nested-2", DEFS, "twice(5)"),
    ("call-nested-3", DEFS, "thrice(5)"),
    ("call-args-are-calls", DEFS, "add3(inc(1), twice(2), 3)"),
    ("call-args-print-order", DEFS, "add3(noisy(1), noisy(2), noisy(3))"),
    ("call-unit-fun", DEFS, 'shout("hey")\nshout("you")\n0'),
    ("call-recursive", DEFS, "fact(4)"),
    ("call-value-unused", DEFS, "inc(1)\ninc(2)\n3"),
    ("return-early", DEFS, "early(4) + early(0)"),
    ("return-bare", DEFS, "bare_return(1)\n5"),
    ("return-from-loop", DEFS, "first_big([0, 1, 5, 9])"),
    # ---- closures
    ("closure-call", "", "let f = fun(a: Int): Int { a * 2 }\nf(21)"),
    ("closure-capture", "", "let k = 10\nlet f = fun(a) { a + k }\nf(1) + f(2)"),
    ("closure-returned", DEFS, "let add5 = make_adder(5)\nadd5(1)"),
    ("closure-passed", DEFS, "apply(fun(v) { v * v }, 7)"),
    ("closure-immediate-arg", DEFS, "apply(make_adder(2), 3)"),
    # ---- methods, fields, namespaces
    ("method-builtin", "", '"hello".len()'),
    ("method-builtin-args", "", '"hello world".substring(0, 5)'),
    ("method-chain", "", '[1, 2, 3].append(4).len()'),
    ("method-prelude-garden", "", '"a,b".split(",")'),
    ("method-user", DEFS, "Pt{ x: 3, y: 4 }.norm1()"),
    ("method-user-arg", DEFS, "Pt{ x: 1, y: 2 }.scale(3).y"),
    ("method-map-closure", "", "[1, 2, 3].map(fun(x) { x * 2 })"),
    ("method-filter-closure", "", "[1, 2, 3, 4].filter(fun(x) { x % 2 == 0 })"),
    ("method-dict", "", 'let d = Dict["a" => 1].set("b", 2)\nd.get("b")'),
    ("method-option", "", "Some(3).or_value(0) + None.or_value(4)"),
    ("field-access", DEFS, "let p = Pt{ x: 5, y: 6 }\np.x * p.y"),
    ("field-access-nested-call", DEFS, "Pt{ x: inc(1), y: inc(2) }.y"),
    ("namespace-access", 'import "__fs.gdn" as fs\n', "let f = fs::working_directory\n1"),
    ("enum-constructor", DEFS, "let c = Circle(2)\nlet d = Dot\narea(c)"),
    # ---- built-ins with several args / printing
    ("builtin-print-seq", "", 'print("a")\nprint("b")\nprintln("c")\neprint("e")\neprintln("f")\n0'),
    ("builtin-string-repr", "", 'string_repr([1, 2]) ^ string_repr("s")'),
    ("builtin-range-minmax", "", "max(1, min(5, 3)) + range(1, 4).len()"),
    ("builtin-dbg", "", "dbg(1 + 2) + 1"),
    ("print-in-args", "", 'let l = [print("x"), print("y"), print("z")]\nl.len()'),
    ("print-in-tuple-dict", "", 'let t = (print("1"), print("2"))\nlet d = Dict["k" => print("3"), "j" => print("4")]\n0'),
    ("print-in-struct", DEFS, 'let p = Pt{ x: noisy(1), y: noisy(2) }\np.x'),
    # ---- try, assert
    ("try-no-throw", "", 'let v = try { println("in") 1 } catch (e) { 2 }\nv'),
    ("assert-true", "", "assert(True)\nassert(1 + 1 == 2)\nassert(1 < 2)\n1"),
    ("assert-in-fun", DEFS + "fun checked(n: Int): Int { assert(n > 0) n }\n", "checked(3)"),
    # ---- programs ending in a runtime error
    ("err-throw", "", 'println("before")\nthrow("boom")\nprintln("after")'),
    ("err-type-binop", "", 'print("a")\n1 + "x"'),
    ("err-unbound", "", 'print("a")\nnosuch + 1'),
    ("err-in-call", DEFS, 'print("a")\ninc("s")'),
    ("err-in-nested-fun", DEFS + 'fun bad(n) { print("in") throw("deep") }\nfun outer(n) { bad(n) + 1 }\n', "outer(1)"),
    ("err-assert", "", 'print("a")\nassert(1 == 2)'),
    ("err-assert-plain", "", 'print("a")\nassert(False)'),
    ("err-return-type", DEFS, 'print("a")\nwrong_ret(1)'),
    ("err-in-loop", "", 'for x in [1, 2, 0] { print(string_repr(6 / x)) }\n0'),
    ("err-match-none", "", 'print("a")\nmatch Some(1) { None => 0 }'),
    ("err-builtin-arg", "", 'print("a")\nprint(1)'),
    ("err-method-arg", "", 'print("a")\n[1].get("x")'),
    ("err-let-hint", "", 'print("a")\nlet x: String = 1\nx'),
    ("err-destructure", "", 'print("a")\nlet (p, q) = (1, 2, 3)\np'),
    ("err-struct-field", DEFS, 'print("a")\nPt{ x: 1, y: "s" }'),
    ("err-if-cond", "", 'print("a")\nif 1 { 2 }'),
    ("err-while-cond", "", 'print("a")\nwhile 1 { }'),
    ("err-for-iter", "", 'print("a")\nfor x in 1 { }\n0'),
    ("err-dict-key", "", 'print("a")\nDict[1 => 2]'),
    ("err-no-method", "", 'print("a")\n1.nosuch()'),
    ("err-arity", DEFS, 'print("a")\ninc(1, 2)'),
    ("err-not-callable", "", 'print("a")\nlet v = 1\nv(2)'),
]
