"""Reference interpreter for the Garden core fragment (property C05).

A deliberately boring environment-passing tree walker over the mini-AST of `gast.py`
(the same tuples the generator prints with `gast.program_src`).  It is written from the
language documentation (website/keyword:*.md, website/operator:*.md, the doc comments of
the prelude) and the statement of C05, not from the explicit-stack evaluator:

  * values: Int (i64), Bool, String, List, Tuple, enum variants (Unit, Option, Result, user
    enums), closures, named functions;
  * `let` declares in the innermost block, shadowing allowed; a variable declared in a block
    is gone when the block ends; assignment (`=`, `+=`, `-=`) updates the innermost visible
    declaration and is an error when there is none;
  * every `{ ... }` (if/else branch, loop body per iteration, match arm, function body) is a block;
  * named functions see their parameters and the global definitions only;
  * a closure captures the variables visible where it is created, by value at creation;
  * binary operators evaluate their left operand first, then the right one;
  * `+ - *` wrap at 64 bits, `**` raises on a negative exponent or overflow, `/` truncates towards zero, `%` is the Euclidean remainder, `/ 0`
    and `% 0` raise; comparisons are on Int; `==`/`!=` are structural; `&&`/`||` evaluate BOTH
    operands (documented: "does not currently use short-circuiting"); `^` concatenates strings;
  * `for` evaluates its list once and runs the body once per element; `break`/`continue`/`return`
    as documented; `match` takes the first arm whose variant matches (`_` matches anything) and
    raises when there is none; `assert(False)` is an assertion failure;
  * `println(s)` / `print(s)` write a String to stdout; `string_repr(v)` is the literal form.

Anything whose meaning the documentation leaves open raises `Unsupported`: the generator must
stay away from it, so it surfaces as a machinery problem and never as a verdict.
The outcome is one of ok | exception | assertion | budget, plus the exact stdout.
"""
import sys

MAX, MIN = 2**63 - 1, -2**63


def wrap(x):
    return (x + 2**63) % 2**64 - 2**63


class Unsupported(Exception):
    """The program left the fragment the reference defines."""


class GardenError(Exception):
    def __init__(self, kind, why):
        Exception.__init__(self, why)
        self.kind = kind      # "exception" | "assertion"


class Budget(Exception):
    pass


class _Break(Exception):
    pass


class _Continue(Exception):
    pass


class _Return(Exception):
    def __init__(self, value):
        self.value = value


class Variant:
    __slots__ = ("type", "name", "payload")

    def __init__(self, type_, name, payload=None):
        self.type, self.name, self.payload = type_, name, payload

    def __eq__(self, o):
        return isinstance(o, Variant) and self.type == o.type and self.name == o.name and equal(self.payload, o.payload)

    def __hash__(self):
        return hash((self.type, self.name))


class Ctor:
    __slots__ = ("type", "name")

    def __init__(self, type_, name):
        self.type, self.name = type_, name


class Closure:
    __slots__ = ("params", "body", "scopes")

    def __init__(self, params, body, scopes):
        self.params, self.body, self.scopes = params, body, scopes


class FunRef:
    __slots__ = ("name", "params", "body")

    def __init__(self, name, params, body):
        self.name, self.params, self.body = name, params, body


class Builtin:
    __slots__ = ("name",)

    def __init__(self, name):
        self.name = name


UNIT = Variant("Unit", "Unit")
NONE = Variant("Option", "None")


def is_int(v):
    return type(v) is int


def is_bool(v):
    return type(v) is bool


def equal(a, b):
    """Structural equality ("compound values are compared by their elements")."""
    if a is None or b is None:
        return a is None and b is None
    if type(a) is not type(b):
        if isinstance(a, (Closure, FunRef, Builtin, Ctor)) or isinstance(b, (Closure, FunRef, Builtin, Ctor)):
            raise Unsupported("equality on functions")
        return False
    if isinstance(a, (Closure, FunRef, Builtin, Ctor)):
        raise Unsupported("equality on functions")
    if isinstance(a, (list, tuple)):
        return len(a) == len(b) and all(equal(x, y) for x, y in zip(a, b))
    if isinstance(a, Variant):
        return a.type == b.type and a.name == b.name and equal(a.payload, b.payload)
    return a == b


def display(v):
    """`string_repr`: the literal form of a value."""
    if is_bool(v):
        return "True" if v else "False"
    if is_int(v):
        return str(v)
    if isinstance(v, str):
        return '"' + v.replace("\\", "\\\\").replace('"', '\\"').replace("\n", "\\n") + '"'
    if isinstance(v, list):
        return "[" + ", ".join(display(x) for x in v) + "]"
    if isinstance(v, tuple):
        return "(" + ", ".join(display(x) for x in v) + ("," if len(v) == 1 else "") + ")"
    if isinstance(v, Variant):
        return v.name if v.payload is None else f"{v.name}({display(v.payload)})"
    raise Unsupported("display of a function value")


class Frame:
    __slots__ = ("scopes", "kind")

    def __init__(self, scopes, kind):
        self.scopes, self.kind = scopes, kind      # kind: "top" | "fun" | "closure"


class Interp:
    def __init__(self, items, step_limit=4000, depth_limit=60):
        self.out = []
        self.steps = 0
        self.step_limit = step_limit
        self.depth = 0
        self.depth_limit = depth_limit
        self.globals = {}
        self.stats = {"loop_iterations": 0, "fun_calls": 0, "closure_calls": 0, "breaks": 0, "continues": 0, "returns": 0,
                      "arms": 0, "branches": 0, "max_depth": 0, "shadowing_lets": 0}
        for n in ("println", "print", "string_repr", "not"):
            self.globals[n] = Builtin(n)
        self.globals["True"] = True
        self.globals["False"] = False
        self.globals["Unit"] = UNIT
        self.globals["None"] = NONE
        self.globals["Some"] = Ctor("Option", "Some")
        self.globals["Ok"] = Ctor("Result", "Ok")
        self.globals["Err"] = Ctor("Result", "Err")
        self.items = items
        for it in items:
            if it[0] == "Fun":
                _, name, _public, _doc, tps, params, _ret, body = it
                if tps:
                    raise Unsupported("type parameters")
                self.globals[name] = FunRef(name, [p for p, _ in params], body)
            elif it[0] == "Enum":
                _, name, _public, _doc, tps, variants = it
                for vname, hint in variants:
                    self.globals[vname] = Ctor(name, vname) if hint is not None else Variant(name, vname)
            elif it[0] != "Expr":
                raise Unsupported(f"item {it[0]}")

    # ------------------------------------------------------------------ driver
    def run(self):
        top = Frame([{}], "top")
        kind = "ok"
        try:
            for it in self.items:
                if it[0] == "Expr":
                    self.ev(it[1], top)
        except GardenError as e:
            kind = e.kind
        except Budget:
            kind = "budget"
        except (_Break, _Continue, _Return):
            raise Unsupported("break/continue/return at top level")
        return {"kind": kind, "stdout": "".join(self.out), "steps": self.steps, "stats": self.stats}

    # ------------------------------------------------------------------ helpers
    def err(self, why):
        raise GardenError("exception", why)

    def lookup(self, name, fr):
        for sc in reversed(fr.scopes):
            if name in sc:
                return sc[name]
        if name in self.globals:
            return self.globals[name]
        self.err(f"no such variable {name}")

    def block(self, body, fr, bind=None):
        """Run a `{ ... }`: its declarations vanish at the end, however the block is left."""
        fr.scopes.append(dict(bind) if bind else {})
        self.stats["max_depth"] = max(self.stats["max_depth"], len(fr.scopes))
        try:
            v = UNIT
            for e in body:
                v = self.ev(e, fr)
            return v
        finally:
            fr.scopes.pop()

    def bind_dest(self, dest, v, scope):
        if dest[0] == "Sym":
            if dest[1] != "_":
                scope[dest[1]] = v
            return
        names = dest[1]
        if not isinstance(v, tuple) or len(v) != len(names):
            self.err("destructuring a value that is not a tuple of that size")
        for n, x in zip(names, v):
            if n != "_":
                scope[n] = x

    def want_int(self, v):
        if not is_int(v):
            self.err("expected Int")
        return v

    def want_bool(self, v):
        if not is_bool(v):
            self.err("expected Bool")
        return v

    def want_str(self, v):
        if not isinstance(v, str):
            self.err("expected String")
        return v

    # ------------------------------------------------------------------ calls
    def call(self, f, args):
        if isinstance(f, Ctor):
            if len(args) != 1:
                self.err("constructor arity")
            return Variant(f.type, f.name, args[0])
        if isinstance(f, Builtin):
            return self.builtin(f.name, args)
        if isinstance(f, FunRef):
            if len(args) != len(f.params):
                self.err("arity")
            self.stats["fun_calls"] += 1
            fr = Frame([], "fun")
            return self.enter(f.body, fr, dict(zip(f.params, args)))
        if isinstance(f, Closure):
            if len(args) != len(f.params):
                self.err("arity")
            self.stats["closure_calls"] += 1
            fr = Frame([dict(sc) for sc in f.scopes], "closure")
            return self.enter(f.body, fr, dict(zip(f.params, args)))
        self.err("calling something that is not a function")

    def enter(self, body, fr, params):
        self.depth += 1
        if self.depth > self.depth_limit:
            self.depth -= 1
            raise Budget()
        try:
            return self.block(body, fr, params)
        except _Return as r:
            self.stats["returns"] += 1
            return r.value
        except (_Break, _Continue):
            raise Unsupported("break/continue leaving a function body")
        finally:
            self.depth -= 1

    def builtin(self, name, args):
        if len(args) != 1:
            self.err("arity")
        a = args[0]
        if name == "println":
            self.out.append(self.want_str(a) + "\n")
            return UNIT
        if name == "print":
            self.out.append(self.want_str(a))
            return UNIT
        if name == "string_repr":
            return display(a)
        if name == "not":
            return not self.want_bool(a)
        raise Unsupported(name)

    def method(self, recv, name, args):
        if isinstance(recv, list):
            if name == "len" and not args:
                return len(recv)
            if name == "append" and len(args) == 1:
                return recv + [args[0]]
            if name == "get" and len(args) == 1:
                i = self.want_int(args[0])
                return Variant("Option", "Some", recv[i]) if 0 <= i < len(recv) else NONE
            if name == "is_empty" and not args:
                return len(recv) == 0
            if name == "contains" and len(args) == 1:
                return any(equal(x, args[0]) for x in recv)
        if isinstance(recv, Variant) and recv.type == "Option":
            if name == "or_value" and len(args) == 1:
                return recv.payload if recv.name == "Some" else args[0]
            if name == "or_throw" and not args:
                if recv.name == "Some":
                    return recv.payload
                self.err("or_throw on None")
            if name == "is_some" and not args:
                return recv.name == "Some"
            if name == "is_none" and not args:
                return recv.name == "None"
        if isinstance(recv, Variant) and recv.type == "Result":
            if name == "or_throw" and not args:
                if recv.name == "Ok":
                    return recv.payload
                self.err("or_throw on Err")
        if isinstance(recv, str):
            if name == "len" and not args:
                return len(recv)
        raise Unsupported(f"method {name} on {type(recv).__name__}")

    # ------------------------------------------------------------------ operators
    def binop(self, op, a, b):
        if op in ("+", "-", "*", "/", "%", "**", "<", "<=", ">", ">="):
            self.want_int(a)
            self.want_int(b)
            if op == "+": return wrap(a + b)
            if op == "-": return wrap(a - b)
            if op == "*": return wrap(a * b)
            if op == "/":
                if b == 0:
                    self.err("division by zero")
                q = abs(a) // abs(b)
                if (a < 0) != (b < 0):
                    q = -q
                if not MIN <= q <= MAX:
                    self.err("division overflow")
                return q
            if op == "%":
                if b == 0:
                    self.err("modulo by zero")
                return a % abs(b)
            if op == "**":
                if b < 0:
                    self.err("negative exponent")
                if abs(a) > 1 and b > 64:
                    self.err("exponent overflow")
                r = a ** b if b <= 64 else (0 if a == 0 else (1 if a == 1 or b % 2 == 0 else -1))
                if not MIN <= r <= MAX:
                    self.err("exponent overflow")
                return r
            if op == "<": return a < b
            if op == "<=": return a <= b
            if op == ">": return a > b
            return a >= b
        if op == "==":
            return equal(a, b)
        if op == "!=":
            return not equal(a, b)
        if op in ("&&", "||"):
            self.want_bool(a)
            self.want_bool(b)
            return (a and b) if op == "&&" else (a or b)
        if op == "^":
            return self.want_str(a) + self.want_str(b)
        raise Unsupported(f"operator {op}")

    # ------------------------------------------------------------------ expressions
    def ev(self, e, fr):
        self.steps += 1
        if self.steps > self.step_limit:
            raise Budget()
        k = e[0]
        if k == "Int":
            if not MIN <= e[1] <= MAX:
                raise Unsupported("literal out of range")
            return e[1]
        if k == "Str":
            return e[1]
        if k == "Var":
            return self.lookup(e[1], fr)
        if k == "Paren":
            return self.ev(e[1], fr)
        if k == "Bin":
            a = self.ev(e[1], fr)
            b = self.ev(e[3], fr)       # both operands always (no short-circuit, as documented)
            return self.binop(e[2], a, b)
        if k == "List":
            return [self.ev(x, fr) for x in e[1]]
        if k == "Tuple":
            return tuple(self.ev(x, fr) for x in e[1])
        if k == "Call":
            f = self.ev(e[1], fr)
            args = [self.ev(a, fr) for a in e[2]]
            return self.call(f, args)
        if k == "MethodCall":
            recv = self.ev(e[1], fr)
            args = [self.ev(a, fr) for a in e[3]]
            return self.method(recv, e[2], args)
        if k == "Lambda":
            return Closure([p for p, _ in e[1]], e[3], [dict(sc) for sc in fr.scopes])
        if k == "Let":
            v = self.ev(e[3], fr)
            sc = fr.scopes[-1]
            if e[1][0] == "Sym" and any(e[1][1] in s for s in fr.scopes):
                self.stats["shadowing_lets"] += 1
            self.bind_dest(e[1], v, sc)
            return UNIT
        if k == "Assign":
            v = self.ev(e[2], fr)
            for sc in reversed(fr.scopes):
                if e[1] in sc:
                    sc[e[1]] = v
                    return UNIT
            self.err("assignment to an undeclared variable")
        if k == "AssignUpdate":
            v = self.ev(e[3], fr)
            for sc in reversed(fr.scopes):
                if e[1] in sc:
                    cur = self.want_int(sc[e[1]])
                    self.want_int(v)
                    sc[e[1]] = wrap(cur + v) if e[2] == "+=" else wrap(cur - v)
                    return UNIT
            self.err("update of an undeclared variable")
        if k == "If":
            c = self.want_bool(self.ev(e[1], fr))
            if c:
                self.stats["branches"] += 1
                v = self.block(e[2], fr)
                return v if e[3] is not None else UNIT
            if e[3] is not None:
                self.stats["branches"] += 1
                return self.block(e[3], fr)
            return UNIT
        if k == "While":
            while True:
                self.steps += 1
                if self.steps > self.step_limit:
                    raise Budget()
                if not self.want_bool(self.ev(e[1], fr)):
                    break
                self.stats["loop_iterations"] += 1
                try:
                    self.block(e[2], fr)
                except _Break:
                    self.stats["breaks"] += 1
                    break
                except _Continue:
                    self.stats["continues"] += 1
            return UNIT
        if k == "For":
            items = self.ev(e[2], fr)
            if not isinstance(items, list):
                self.err("for over something that is not a list")
            for x in items:
                self.steps += 1
                if self.steps > self.step_limit:
                    raise Budget()
                self.stats["loop_iterations"] += 1
                bind = {}
                self.bind_dest(e[1], x, bind)
                try:
                    self.block(e[3], fr, bind)
                except _Break:
                    self.stats["breaks"] += 1
                    break
                except _Continue:
                    self.stats["continues"] += 1
            return UNIT
        if k == "Match":
            v = self.ev(e[1], fr)
            if is_bool(v):
                v = Variant("Bool", "True" if v else "False")
            if not isinstance(v, Variant):
                self.err("match on a value that is not an enum")
            for (variant, dest), body in e[2]:
                if variant == "_":
                    if dest is not None:
                        raise Unsupported("payload on _")
                    self.stats["arms"] += 1
                    return self.block(body, fr)
                if variant == v.name:
                    bind = {}
                    if dest is not None:
                        if v.payload is None:
                            raise Unsupported("payload pattern on a variant without payload")
                        self.bind_dest(dest, v.payload, bind)
                    self.stats["arms"] += 1
                    return self.block(body, fr, bind)
            self.err("no match arm applies")
        if k == "Return":
            if fr.kind == "top":
                raise Unsupported("return at top level")
            raise _Return(self.ev(e[1], fr) if e[1] is not None else UNIT)
        if k == "Break":
            raise _Break()
        if k == "Continue":
            raise _Continue()
        if k == "Assert":
            if not self.want_bool(self.ev(e[1], fr)):
                raise GardenError("assertion", "assertion failed")
            return UNIT
        raise Unsupported(f"expression {k}")


def run_program(items, step_limit=4000, depth_limit=60):
    """items: gast top-level items.  -> {"kind": ok|exception|assertion|budget, "stdout", "steps", "stats"}"""
    if sys.getrecursionlimit() < 20000:
        sys.setrecursionlimit(20000)
    return Interp(items, step_limit, depth_limit).run()
