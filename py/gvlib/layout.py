"""Layout layer: the token list of a program with the separator of every inter-token gap, and
bounded-exhaustive enumeration of the layouts that deviate from the canonical one in <= k gaps.

A `Base` is a program in its canonical layout, cut into pieces by the REAL lexer (`front` job,
`tokens` + `comments`): pieces are lexer tokens and comments (a comment piece is the `// ...` text
without its line terminator, so the gap after a comment canonically starts with a newline), gaps are
the exact texts between them, plus the gap before the first and after the last piece
(len(gaps) == len(pieces) + 1, "".join(interleave) == src).

Deviating a gap may change the program (Garden has same-line rules, `f (x)` is not a call; gluing
two tokens may merge them; a comment swallows the rest of its line). Nothing here predicts that: every
layout is classified by parsing it with the real parser -- "same" (no parse errors and the blanked
Debug tree equals the base's), "tree-changed", "parse-error" -- and callers use only what their
property quantifies over.

String-literal variants and non-ASCII variants are token substitutions on a Base (the expected tree
is re-derived from the real parser on the substituted canonical text, never predicted).
"""
import hashlib
import itertools

import json
import os
import select
import time

from . import gast, gen
from . import pool as _pool
from .core import Machinery


def _fast_call(self, payload, timeout):
    """Same protocol and failure attribution as pool.Worker.call, but reads with a 64 KiB buffer and joins the chunks once.
    (`os.read(fd, 1 << 20)` allocates and shrinks a 1 MiB bytes object per read; with ~10^6 small replies that is about half
    of the Python-side time of a layout exploration.) Process-local: only checks that import this module get it.
    Set GV_NO_FASTREAD=1 to use the stock implementation."""
    try:
        self.p.stdin.write((json.dumps(payload) + "\n").encode())
        self.p.stdin.flush()
    except (BrokenPipeError, OSError):
        rc = self.p.wait()
        self.start()
        return None, f"died rc={rc}"
    fd = self.p.stdout.fileno()
    deadline = time.time() + timeout
    chunks = []
    while True:
        left = deadline - time.time()
        if left <= 0:
            self.start()
            return None, "timeout"
        r, _, _ = select.select([fd], [], [], left)
        if not r:
            continue
        chunk = os.read(fd, 65536)
        if not chunk:
            rc = self.p.wait()
            self.start()
            return None, f"died rc={rc}"
        chunks.append(chunk)
        if chunk.endswith(b"\n"):
            try:
                return json.loads(b"".join(chunks).decode()), None
            except ValueError as e:
                self.start()
                return None, f"bad reply: {e}"


if not os.environ.get("GV_NO_FASTREAD"):
    _pool.Worker.call = _fast_call

GAPS = ["", " ", "   ", "\n", "\n    ", "\n\n\n", " // c\n", "\t"]
GAP_NAME = {"": "glued", " ": "space", "   ": "3-spaces", "\n": "newline", "\n    ": "newline+indent", "\n\n\n": "blank-lines",
            " // c\n": "comment", "\t": "tab",
            " // é😀\n": "comment"}

# Comment separators whose TEXT looks like code (an `=`, brackets, a quote). They are tried only in the gaps next to the tokens
# whose spacing the formatter rewrites by searching the text between two nodes (`=`, `:`, `{`, `,`, `=>`, `+=`, `-=`).
TOKEN_COMMENT_GAPS = [" // a = b\n", " // { \" (\n"]
TOKEN_COMMENT_AROUND = {"=", ":", "{", ",", "=>", "+=", "-="}
GAP_NAME[TOKEN_COMMENT_GAPS[0]] = "comment-with-equals"
GAP_NAME[TOKEN_COMMENT_GAPS[1]] = "comment-with-brackets"

# string-literal content alphabet (raw text between the quotes; newlines are REAL newlines inside the literal)
STR_VARIANTS = [("multi-line", "a\n  x"), ("brace-line", "a\n} b"), ("slashes", "a // b"), ("blank-lines", "a\n\n\n  x")]
NONASCII = "é😀"


def h(s):
    return hashlib.blake2b(s.encode("utf-8", "surrogatepass"), digest_size=12).digest()


class Base:
    __slots__ = ("label", "kind", "pieces", "classes", "gaps", "ast", "comments", "variant", "extra", "_canon")

    def __init__(self, label, kind, pieces, classes, gaps, variant="plain"):
        self.label, self.kind, self.pieces, self.classes, self.gaps, self.variant = label, kind, pieces, classes, gaps, variant
        self.ast = None          # blanked Debug tree of the canonical text (filled by prepare/derive)
        self.comments = None
        self.extra = None
        self._canon = None

    @property
    def canon(self):
        """The canonical text (no deviation)."""
        if self._canon is None:
            self._canon = self.render()
        return self._canon

    def render(self, devs=()):
        """devs: iterable of (gap_index, separator)."""
        g = self.gaps
        if devs:
            g = list(g)
            for i, s in devs:
                g[i] = s
        out = [g[0]]
        for p, s in zip(self.pieces, g[1:]):
            out.append(p)
            out.append(s)
        return "".join(out)

    @property
    def src(self):
        return self.render()

    def str_positions(self):
        return [i for i, c in enumerate(self.classes) if c == "str"]

    def gap_context(self, gi):
        """Classes of the pieces around gap gi (for reports): punctuation and keywords verbatim, else ident/num/str/comment."""
        def name(i):
            if i < 0:
                return "BOF"
            if i >= len(self.pieces):
                return "EOF"
            c, t = self.classes[i], self.pieces[i]
            if c != "tok":
                return c
            if t in KEYWORDS or not (t[0].isalnum() or t[0] == "_" or (t[0] == "-" and len(t) > 1 and t[1].isdigit())):
                return t
            return "num" if (t[0].isdigit() or t[0] == "-") else "ident"
        return f"{name(gi - 1)}|{name(gi)}"


KEYWORDS = {"let", "fun", "enum", "struct", "public", "import", "if", "else", "while", "return", "test", "match", "break", "continue", "for", "in",
            "assert", "as", "method", "try", "catch", "Dict"}


def kind_of(items):
    """Root production / item kind of a program (list of mini-AST items), for signatures."""
    it = items[0]
    if it[0] == "Expr":
        return it[1][0]
    if it[0] == "Block":
        return "Block:" + (it[1][0][0] if it[1] else "empty")
    k = it[0]
    if len(items) > 1:
        k += "+" + (items[1][1][0] if items[1][0] == "Expr" else items[1][0])
    return k


def program_of(tree):
    """Wrap an expression tree as a program the way c33 does (`fun(` cannot start a top-level expression)."""
    return [("Block", [tree])] if gen.leftmost_kind(tree) == "Lambda" else [("Expr", tree)]


def cut(src, tokens, comments):
    """pieces/classes/gaps of src from the lexer's token spans and comment positions (byte offsets)."""
    b = src.encode("utf-8")
    spans = [(s, e, "t") for s, e in tokens] + [(c["position"]["start_offset"], c["position"]["end_offset"], "c") for c in comments]
    spans.sort()
    pieces, classes, gaps = [], [], []
    at = 0
    for s, e, k in spans:
        if s < at:
            raise Machinery(f"overlapping lexer spans in {src!r}")
        gaps.append(b[at:s].decode("utf-8"))
        t = b[s:e].decode("utf-8")
        pieces.append(t)
        classes.append("comment" if k == "c" else ("str" if t.startswith('"') else "tok"))
        at = e
    gaps.append(b[at:].decode("utf-8"))
    return pieces, classes, gaps


def prepare(ctx, programs, extra_want=()):
    """programs: list of (label, kind, src). Returns a list of Base with .ast/.comments filled (one front job each).
    A generated program that does not parse is a machinery problem."""
    want = ["ast_blank", "tokens", "comments"] + list(extra_want)
    res = ctx.pool.map([{"op": "front", "src": s, "want": want} for _, _, s in programs], batch=64, timeout=60)
    out = []
    for (label, kind, src), r in zip(programs, res):
        if "ast_blank" not in r:
            raise Machinery(f"front job failed on canonical text {src!r}: {str(r)[:200]}")
        if r["parse_errors"]:
            raise Machinery(f"canonical text does not parse: {src!r}: {r['parse_errors'][0]['message']}")
        pieces, classes, gaps = cut(src, r["tokens"], r["comments"])
        b = Base(label, kind, pieces, classes, gaps)
        if b.render() != src:
            raise Machinery(f"cut/render mismatch on {src!r}")
        b.ast = r["ast_blank"]
        b.comments = [c["text"] for c in r["comments"]]
        b.extra = r
        out.append(b)
    return out


def derive(ctx, variants):
    """variants: list of Base built by substitution (ast unknown). Parses each canonical text; returns (ok_list, n_rejected):
    substitutions whose text does not parse are dropped (counted)."""
    res = ctx.pool.map([{"op": "front", "src": v.render(), "want": ["ast_blank", "comments"]} for v in variants], batch=64, timeout=60)
    ok, bad = [], 0
    for v, r in zip(variants, res):
        if "ast_blank" not in r or r["parse_errors"]:
            bad += 1
            continue
        v.ast = r["ast_blank"]
        v.comments = [c["text"] for c in r["comments"]]
        v.extra = r
        ok.append(v)
    return ok, bad


def substitute(base, repl, variant):
    """New Base with pieces[i] replaced for (i, text) in repl."""
    p = list(base.pieces)
    for i, t in repl:
        p[i] = t
    return Base(base.label, base.kind, p, base.classes, base.gaps, variant)


def string_variants(base, each=True, all_at_once=True):
    """Every string-literal piece replaced, one at a time (every literal position) and all together, by each content variant."""
    pos = base.str_positions()
    out = []
    for name, content in STR_VARIANTS:
        lit = '"' + content + '"'
        if each:
            for n, i in enumerate(pos):
                out.append(substitute(base, [(i, lit)], f"{name}@{n}" if len(pos) > 1 else name))
        if all_at_once and len(pos) > 1:
            out.append(substitute(base, [(i, lit) for i in pos], f"{name}@all"))
    return out


def nonascii_variant(base):
    """Identifiers stay ASCII; string contents and comments get é/😀."""
    repl = []
    for i, (p, c) in enumerate(zip(base.pieces, base.classes)):
        if c == "str":
            repl.append((i, p[:1] + NONASCII + p[1:]))
        elif c == "comment":
            k = 3 if p.startswith("///") else 2
            repl.append((i, p[:k] + " " + NONASCII + p[k:]))
    if not repl:
        return None
    return substitute(base, repl, base.variant + "+non-ascii" if base.variant != "plain" else "non-ascii")


def nonascii_leading_variant(base):
    """A `// é😀` comment line as the first piece of the file, and é😀 at the start of every string literal and comment:
    every byte offset after the first line differs from the character offset."""
    repl = []
    for i, (p, c) in enumerate(zip(base.pieces, base.classes)):
        if c == "str":
            repl.append((i, p[:1] + NONASCII + p[1:]))
        elif c == "comment":
            k = 3 if p.startswith("///") else 2
            repl.append((i, p[:k] + " " + NONASCII + p[k:]))
    v = substitute(base, repl, "non-ascii")
    v.pieces = ["// " + NONASCII] + v.pieces
    v.classes = ["comment"] + list(base.classes)
    v.gaps = [base.gaps[0], "\n"] + list(base.gaps[1:])
    return v


def deviations(base, k, alphabet=GAPS, token_comments=False):
    """Every set of <= k (gap, separator) deviations from the canonical layout, k = 0 excluded... in order: 1 deviation, then 2.
    token_comments: also the TOKEN_COMMENT_GAPS separators, in the gaps next to a TOKEN_COMMENT_AROUND piece."""
    n = len(base.gaps)
    singles = []
    P = base.pieces
    for i in range(n):
        singles += [(i, s) for s in alphabet if s != base.gaps[i]]
        if token_comments and ((i > 0 and P[i - 1] in TOKEN_COMMENT_AROUND) or (i < len(P) and P[i] in TOKEN_COMMENT_AROUND)):
            singles += [(i, s) for s in TOKEN_COMMENT_GAPS]
    if k >= 1:
        for d in singles:
            yield (d,)
    if k >= 2:
        for a, b in itertools.combinations(singles, 2):
            if a[0] != b[0]:
                yield (a, b)


def dev_name(base, devs):
    return "+".join(GAP_NAME.get(s, repr(s)) for _, s in devs) or "canonical"


def tree_pairs_differ(ctx, pairs, per_job=256):
    """For (a, b) source pairs: {index: (errors_a, errors_b)} of the pairs that do NOT parse to structurally equal trees
    (`ast_eq` job: the parser's own structural equality, which ignores positions, ids and comma positions; compared in Rust,
    ~10x cheaper than shipping Debug dumps)."""
    jobs = [{"op": "ast_eq", "pairs": [list(p) for p in pairs[j:j + per_job]]} for j in range(0, len(pairs), per_job)]
    out = {}
    for j, r in zip(range(0, len(pairs), per_job), ctx.pool.map(jobs, batch=1, timeout=120)):
        if "bad" not in r:
            # a pair that kills the job: attribute singly
            for i, p in enumerate(pairs[j:j + per_job]):
                r1 = ctx.pool.one({"op": "ast_eq", "pairs": [list(p)]}, timeout=60)
                if "bad" not in r1:
                    out[j + i] = ("failed", str(r1)[:200])
                elif r1["bad"]:
                    out[j + i] = (r1["bad"][0]["errors_a"], r1["bad"][0]["errors_b"])
            continue
        for bad in r["bad"]:
            out[j + bad["i"]] = (bad["errors_a"], bad["errors_b"])
    return out


def explore(ctx, bases, k, want, alphabet=GAPS, chunk=40000, include_canonical=True, classify=True, token_comments=True):
    """Run one front job (want) on every layout with <= k deviating gaps of every base.
    Yields (base, devs, text, result, status) with status in same | tree-changed | parse-error | failed
    (classify=False: same is reported as "unclassified": no tree comparison is made).
    The canonical layout itself is yielded first for every base (devs == ())."""
    want = [w for w in dict.fromkeys(want) if w != "ast_blank"]
    buf = []

    def flush():
        res = ctx.pool.map([{"op": "front", "src": t, "want": want} for _, _, t in buf], batch=64, timeout=60)
        st = []
        for (b, d, t), r in zip(buf, res):
            if "parse_errors" not in r:
                st.append("failed")
            elif r["parse_errors"]:
                st.append("parse-error")
            else:
                st.append("same" if classify else "unclassified")
        if classify:
            idx = [i for i, ((b, d, t), s) in enumerate(zip(buf, st)) if s == "same" and d]
            diff = tree_pairs_differ(ctx, [(buf[i][0].canon, buf[i][2]) for i in idx])
            for j, (ea, eb) in diff.items():
                if ea == "failed" or ea:
                    raise Machinery(f"ast_eq failed on the canonical text {buf[idx[j]][0].canon!r}: {ea} {eb}")
                st[idx[j]] = "tree-changed"
        for (b, d, t), r, s in zip(buf, res, st):
            yield b, d, t, r, s

    for b in bases:
        if include_canonical:
            buf.append((b, (), b.render()))
        for d in deviations(b, k, alphabet, token_comments):
            buf.append((b, d, b.render(d)))
        if len(buf) >= chunk:
            yield from flush()
            buf = []
    if buf:
        yield from flush()


# ---------------------------------------------------------------- program sets shared by C17 / C18 / C23

X, Y = ("Var", "x"), ("Var", "y")
S_AB = ("Str", "a b")


def quick_trees():
    """Depth-1 set over a reduced leaf pool (every production, every operator), as c33's depth1() but 5 leaves."""
    Lq = [("Int", -3), S_AB, X, ("Var", "Foo"), ("List", [])]
    S = gen.leaf_statements()
    B = gen.bodies(Lq + S, [X, ("Int", -3), ("Break",)])
    return list(gen.productions(Lq, B, S))


def rep_trees():
    """Depth-1/2 representatives of every production (children of the C33 depth-2 set) and statements."""
    return gen.representatives() + gen.statement_representatives()


def string_position_trees():
    """Trees that put a string literal in every literal position that matters to a line-based formatter:
    first/last in a block, before another expression on the same line, as argument, in nested blocks, in items."""
    s = S_AB
    out = [
        ("If", X, [s, X], None), ("If", X, [X, s], [s]), ("While", X, [("Let", ("Sym", "v"), None, s), X]),
        ("Call", X, [s, X]), ("Call", X, [X, s]), ("MethodCall", s, "meth", [s]), ("List", [s, X]), ("List", [X, s]),
        ("Dict", [(s, X), (X, s)]), ("Tuple", [s, X]), ("Struct", "Foo", [("f", s), ("g", X)]),
        ("Bin", s, "^", s), ("Bin", ("Bin", s, "^", X), "^", s), ("Let", ("Sym", "v"), None, s), ("Assign", "x", s), ("Return", s), ("Assert", ("Bin", s, "==", s)),
        ("Match", s, [(("Some", ("Sym", "v")), [s]), (("None", None), [X, s])]), ("Try", [s], "e", [s, X]),
        ("For", ("Sym", "v"), ("List", [s]), [("Call", X, [s])]), ("Lambda", [("a", None)], None, [s, X]),
        ("If", X, [("If", Y, [s, ("Call", X, [s])], None)], None), ("Call", X, [("Lambda", [], None, [s, X])]),
        ("Paren", s), ("Dot", s, "fld"),
    ]
    return out


T_EMPTY_TUPLE = ("T", "Tuple", [])
T_FUN0 = ("T", "Fun", [T_EMPTY_TUPLE, gen.T_INT])


def sig_fun(kind, nparams, target_len, body=(), doc=None, tps=(), ret=None, public=False, hints=None):
    """A function / method item whose signature line is exactly target_len characters long (parameter names padded)."""
    hints = hints or [gen.T_INT, gen.T_LIST_INT, gen.T_TUPLE, gen.T_FUN]

    def build(pad):
        params = [("p%d" % i + ("a" * (pad if i == nparams - 1 else 0)), hints[i % 4]) for i in range(nparams)]
        name = "f" + ("a" * pad if nparams == 0 else "")
        if kind == "Fun":
            return ("Fun", name, public, doc, list(tps), params, ret, list(body))
        return ("Method", public, doc, "this", gen.T_LIST_INT, name, list(tps), params, ret, list(body))

    def sig_line_len(it):
        src = gast.item_src(it)
        for line in src.split("\n"):
            if not line.startswith("///"):
                return len(line)

    base = sig_line_len(build(0))
    if base > target_len:
        return None
    it = build(target_len - base)
    assert sig_line_len(it) == target_len, (sig_line_len(it), target_len)
    return it


def definition_items(quick=True):
    """Definition-level set: signatures swept across the 100-column wrap limit, methods, enums, structs, tests, imports,
    doc comments, item pairs. Returns a list of programs (lists of items)."""
    progs = []
    lens = [99, 100, 101, 102] if quick else list(range(95, 108))
    bodies = [[], [X]] if quick else [[], [X], [("Let", ("Sym", "v"), None, ("Int", 7)), ("Return", ("Var", "v"))]]
    for L in lens:
        for n in (0, 1, 2, 3) if quick else (0, 1, 2, 3, 4, 5):
            for body in bodies:
                for kind, doc, tps, ret, public in (("Fun", None, (), None, False), ("Fun", "Doc line.", ("T",), gen.T_INT, True),
                                                    ("Method", None, (), None, False), ("Method", "Two\nlines", (), gen.T_FUN, True)):
                    it = sig_fun(kind, n, L, body, doc, tps, ret, public)
                    if it is not None:
                        progs.append([it])
                # hints whose text is special-cased by the printer the wrapper uses: the empty tuple, alone and inside Fun<..>
                if n >= 1:
                    it = sig_fun("Fun", n, L, body, None, (), T_FUN0, False, hints=[T_FUN0, T_EMPTY_TUPLE, gen.T_INT, gen.T_INT])
                    if it is not None:
                        progs.append([it])
    # every item kind with optional parts on/off (c33's item set over a small body pool)
    body_pool = [[], [X], [("Let", ("Sym", "v"), None, ("Int", 7)), ("Return", ("Var", "v"))], [S_AB, X]]
    items = list(gen.toplevel_items(body_pool if not quick else [[], [S_AB, X]]))
    if quick:
        # drop the pure cross product over type parameters x return hints: keep items where at most one optional part is at its 3rd value
        keep = []
        for it in items:
            if it[0] == "Fun":
                _, name, public, doc, tps, params, ret, body = it
                if (len(tps) == 2) + (ret == gen.T_FUN) + (doc == "Two\nlines") + (len(params) == 2) > 1:
                    continue
                if public and (tps or ret or params) and doc is None:
                    continue
            if it[0] == "Method":
                _, public, doc, recv, recv_hint, name, tps, params, ret, body = it
                if public and doc is None:
                    continue
            keep.append(it)
        items = keep
    progs += [[it] for it in items]
    # item pairs (blank-line normalisation between definitions, imports stay grouped, comments between items)
    reps = [("Expr", X), ("Expr", S_AB), ("Block", [X]), ("Fun", "f", False, None, [], [], None, []), ("Fun", "g", True, "Doc.", [], [("a", gen.T_INT)], gen.T_INT, [X]),
            ("Test", "t", None, [X]), ("Test", "u", "Doc.", []), ("Enum", "E", False, None, [], [("A", None), ("B", gen.T_INT)]), ("StructDef", "S", True, "Doc.", [], [("a", gen.T_INT, "Field doc.")]),
            ("Import", "./foo.gdn", None), ("Import", "__fs.gdn", "ns"), ("Method", False, None, "this", gen.T_INT, "m", [], [], None, [X])]
    for a in reps:
        for b in reps:
            progs.append([a, b])
    return progs


def wrap_string_pairs(quick=True):
    """Two-item programs: a function / method whose signature line is over the wrap limit (so the formatter rewrites the file and
    every later line number shifts) before, and after, an item that holds a string literal in a let, a call argument and a
    function body. The string-content variants (multi-line, blank lines, ...) are derived from these by the callers."""
    if quick:
        sigs = [sig_fun("Fun", 1, 101), sig_fun("Fun", 3, 101, [X], "Doc line.", ("T",), gen.T_INT, True),
                sig_fun("Method", 2, 102), sig_fun("Method", 1, 101, [], "Two\nlines", (), gen.T_FUN, True)]
    else:
        sigs = []
        for L in (101, 104):
            for n in (1, 2, 3, 4, 5):
                sigs += [sig_fun("Fun", n, L), sig_fun("Fun", n, L, [X], "Doc line.", ("T",), gen.T_INT, True),
                         sig_fun("Method", n, L), sig_fun("Method", n, L, [], "Two\nlines", (), gen.T_FUN, True)]
    holders = [("Expr", ("Let", ("Sym", "v"), None, S_AB)), ("Expr", ("Call", X, [S_AB, X])), ("Fun", "g", False, None, [], [], None, [S_AB, X])]
    progs = []
    for sig in sigs:
        if sig is None:
            continue
        for h in holders:
            progs.append([sig, h])
            progs.append([h, sig])
    return progs
