"""Garden mini-AST: tuple nodes, canonical printer, projection of the parser's Debug dump, enumerators.

Expression nodes (tuples):
  ("Int", n) ("Float", "1.5") ("Str", s) ("Var", name) ("Paren", e)
  ("Bin", l, op, r)            op is source text, e.g. "+"
  ("Call", f, [args]) ("MethodCall", recv, name, [args]) ("Dot", recv, name) ("Ns", recv, name)
  ("List", [e]) ("Tuple", [e]) ("Dict", [(k, v)]) ("Struct", TypeName, [(field, e)])
  ("Lambda", [(param, hint|None)], ret_hint|None, [body])
  ("If", c, [then], [else] | None) ("While", c, [body]) ("For", dest, e, [body])
  ("Match", e, [((variant, dest|None), [body])]) ("Try", [body], name, [body])
  ("Let", dest, hint|None, e) ("Assign", name, e) ("AssignUpdate", name, "+=", e)
  ("Return", e|None) ("Break",) ("Continue",) ("Assert", e)
dest: ("Sym", name) | ("Destructure", [names]);  hint: ("T", name, [hint...])
Top-level items:
  ("Fun", name, public, doc|None, [type_params], [(param, hint|None)], ret|None, [body])
  ("Method", public, doc, recv_name, recv_hint, name, [type_params], [(param, hint)], ret, [body])
  ("Test", name, doc, [body]) ("Enum", name, public, doc, [tparams], [(variant, hint|None)])
  ("StructDef", name, public, doc, [tparams], [(field, hint, doc|None)]) ("Import", path, as|None)
  ("Expr", e) ("Block", [e])
"""
import itertools
from .rustdbg import Node

OPS = ["+", "+.", "-", "-.", "*", "*.", "/", "/.", "%", "**", "==", "!=", "<", "<=", ">", ">=", "&&", "||", "&", "|", "^"]
OP_KIND = {"+": "Add", "+.": "AddFloat", "-": "Subtract", "-.": "SubtractFloat", "*": "Multiply", "*.": "MultiplyFloat",
           "/": "Divide", "/.": "DivideFloat", "%": "Modulo", "**": "Exponent", "==": "Equal", "!=": "NotEqual", "<": "LessThan",
           "<=": "LessThanOrEqual", ">": "GreaterThan", ">=": "GreaterThanOrEqual", "&&": "And", "||": "Or", "&": "BitwiseAnd",
           "|": "BitwiseOr", "^": "StringConcat"}
KIND_OP = {v: k for k, v in OP_KIND.items()}


def esc(s):
    return '"' + s.replace("\\", "\\\\").replace('"', '\\"').replace("\n", "\\n").replace("\t", "\\t") + '"'


def hint_src(h):
    if h is None:
        return ""
    _, name, args = h
    if name == "Tuple":
        return "(" + ", ".join(hint_src(a) for a in args) + ("," if len(args) == 1 else "") + ")"
    if args:
        return f"{name}<{', '.join(hint_src(a) for a in args)}>"
    return name


def dest_src(d):
    if d[0] == "Sym":
        return d[1]
    return "(" + ", ".join(d[1]) + ")"


def params_src(params):
    return "(" + ", ".join(p + (": " + hint_src(h) if h else "") for p, h in params) + ")"


def block_src(body, ind):
    if not body:
        return "{}"
    pad = "  " * (ind + 1)
    return "{\n" + "".join(pad + expr_src(e, ind + 1) + "\n" for e in body) + "  " * ind + "}"


def expr_src(e, ind=0):
    k = e[0]
    if k == "Int": return str(e[1])
    if k == "Float": return e[1]
    if k == "Str": return esc(e[1])
    if k == "Var": return e[1]
    if k == "Paren": return "(" + expr_src(e[1], ind) + ")"
    if k == "Bin": return f"{expr_src(e[1], ind)} {e[2]} {expr_src(e[3], ind)}"
    if k == "Call": return expr_src(e[1], ind) + "(" + ", ".join(expr_src(a, ind) for a in e[2]) + ")"
    if k == "MethodCall": return expr_src(e[1], ind) + "." + e[2] + "(" + ", ".join(expr_src(a, ind) for a in e[3]) + ")"
    if k == "Dot": return expr_src(e[1], ind) + "." + e[2]
    if k == "Ns": return expr_src(e[1], ind) + "::" + e[2]
    if k == "List": return "[" + ", ".join(expr_src(a, ind) for a in e[1]) + "]"
    if k == "Tuple":
        return "(" + ", ".join(expr_src(a, ind) for a in e[1]) + ("," if len(e[1]) == 1 else "") + ")"
    if k == "Dict": return "Dict[" + ", ".join(f"{expr_src(a, ind)} => {expr_src(b, ind)}" for a, b in e[1]) + "]"
    if k == "Struct": return e[1] + "{ " + ", ".join(f"{f}: {expr_src(v, ind)}" for f, v in e[2]) + " }" if e[2] else e[1] + "{}"
    if k == "Lambda":
        return "fun" + params_src(e[1]) + (": " + hint_src(e[2]) if e[2] else "") + " " + block_src(e[3], ind)
    if k == "If":
        s = f"if {expr_src(e[1], ind)} {block_src(e[2], ind)}"
        if e[3] is not None:
            s += " else " + block_src(e[3], ind)
        return s
    if k == "While": return f"while {expr_src(e[1], ind)} {block_src(e[2], ind)}"
    if k == "For": return f"for {dest_src(e[1])} in {expr_src(e[2], ind)} {block_src(e[3], ind)}"
    if k == "Match":
        pad = "  " * (ind + 1)
        arms = ""
        for (variant, dest), body in e[2]:
            pat = variant + (f"({dest_src(dest)})" if dest else "")
            arms += f"{pad}{pat} => {block_src(body, ind + 1)}\n"
        return f"match {expr_src(e[1], ind)} {{\n{arms}{'  ' * ind}}}"
    if k == "Try": return f"try {block_src(e[1], ind)} catch ({e[2]}) {block_src(e[3], ind)}"
    if k == "Let": return f"let {dest_src(e[1])}{': ' + hint_src(e[2]) if e[2] else ''} = {expr_src(e[3], ind)}"
    if k == "Assign": return f"{e[1]} = {expr_src(e[2], ind)}"
    if k == "AssignUpdate": return f"{e[1]} {e[2]} {expr_src(e[3], ind)}"
    if k == "Return": return "return" + (" " + expr_src(e[1], ind) if e[1] is not None else "")
    if k == "Break": return "break"
    if k == "Continue": return "continue"
    if k == "Assert": return f"assert({expr_src(e[1], ind)})"
    raise ValueError(f"unknown expr {e!r}")


def doc_src(doc):
    if doc is None:
        return ""
    return "".join(f"/// {l}\n" if l else "///\n" for l in doc.split("\n"))


def tparams_src(tps):
    return f"<{', '.join(tps)}>" if tps else ""


def item_src(it):
    k = it[0]
    if k == "Expr": return expr_src(it[1])
    if k == "Block": return block_src(it[1], 0)
    if k == "Fun":
        _, name, public, doc, tps, params, ret, body = it
        return (doc_src(doc) + ("public " if public else "") + f"fun {name}{tparams_src(tps)}{params_src(params)}" +
                (": " + hint_src(ret) if ret else "") + " " + block_src(body, 0))
    if k == "Method":
        _, public, doc, recv, recv_hint, name, tps, params, ret, body = it
        return (doc_src(doc) + ("public " if public else "") + f"method {name}{tparams_src(tps)}" +
                params_src([(recv, recv_hint)] + list(params)) + (": " + hint_src(ret) if ret else "") + " " + block_src(body, 0))
    if k == "Test":
        return doc_src(it[2]) + f"test {it[1]} {block_src(it[3], 0)}"
    if k == "Enum":
        _, name, public, doc, tps, variants = it
        body = "".join(f"  {v}{'(' + hint_src(h) + ')' if h else ''},\n" for v, h in variants)
        return doc_src(doc) + ("public " if public else "") + f"enum {name}{tparams_src(tps)} {{\n{body}}}" if variants else \
            doc_src(doc) + ("public " if public else "") + f"enum {name}{tparams_src(tps)} {{}}"
    if k == "StructDef":
        _, name, public, doc, tps, fields = it
        body = "".join((("  " + doc_src(d)) if d else "") + f"  {f}: {hint_src(h)},\n" for f, h, d in fields)
        return doc_src(doc) + ("public " if public else "") + f"struct {name}{tparams_src(tps)} {{\n{body}}}" if fields else \
            doc_src(doc) + ("public " if public else "") + f"struct {name}{tparams_src(tps)} {{}}"
    if k == "Import":
        return f'import {esc(it[1])}' + (f" as {it[2]}" if it[2] else "")
    raise ValueError(f"unknown item {it!r}")


def program_src(items):
    return "\n\n".join(item_src(i) for i in items) + "\n"


# ---------------------------------------------------------------- projection of the parser's Debug tree

def _sym(n):
    # Symbol"foo" / TypeSymbol"Foo"
    return n.args[0][1]


def p_hint(n):
    if n is None or (isinstance(n, Node) and n.name == "None"):
        return None
    if n.name == "Some":
        n = n.args[0]
    return ("T", _sym(n.fields["sym"]), [p_hint(a) for a in n.fields["args"]])


def p_opt(n):
    if isinstance(n, Node) and n.name == "None":
        return None
    if isinstance(n, Node) and n.name == "Some":
        return n.args[0]
    return n


def p_dest(n):
    if n.name == "Symbol" and n.args and isinstance(n.args[0], Node):
        return ("Sym", _sym(n.args[0]))
    if n.name == "Destructure":
        return ("Destructure", [_sym(s) for s in n.args[0]])
    raise ValueError(f"dest {n!r}")


def p_block(n):
    return [p_expr(e) for e in n.fields["exprs"]]


def p_params(n):
    return [(_sym(p.fields["symbol"]), p_hint(p.fields["hint"])) for p in n.fields["params"]]


def p_args(n):
    return [p_expr(a.fields["expr"]) for a in n.fields["arguments"]]


def p_funinfo(fi):
    f = fi.fields
    doc = p_opt(f["doc_comment"])
    return {"doc": doc[1] if doc is not None else None, "name": (_sym(p_opt(f["name_sym"])) if p_opt(f["name_sym"]) is not None else None),
            "tparams": [_sym(t) for t in f["type_params"]], "params": p_params(f["params"]), "ret": p_hint(f["return_hint"]),
            "body": p_block(f["body"])}


def p_expr(n):
    if isinstance(n, Node) and n.name == "Expression":
        n = n.fields["expr_"]
    k = n.name
    a = n.args
    if k == "IntLiteral": return ("Int", int(a[0][1]))
    if k == "FloatLiteral":
        return ("Float", a[0].args[0][1] if isinstance(a[0], Node) else a[0][1])
    if k == "StringLiteral": return ("Str", a[0][1])
    if k == "Variable": return ("Var", _sym(a[0]))
    if k == "Parentheses": return ("Paren", p_expr(a[0].fields["expr"]))
    if k == "BinaryOperator": return ("Bin", p_expr(a[0]), KIND_OP[a[1].fields["kind"].name], p_expr(a[2]))
    if k == "Call": return ("Call", p_expr(a[0]), p_args(a[1]))
    if k == "MethodCall": return ("MethodCall", p_expr(a[0]), _sym(a[1]), p_args(a[2]))
    if k == "DotAccess": return ("Dot", p_expr(a[0]), _sym(a[1]))
    if k == "NamespaceAccess": return ("Ns", p_expr(a[0]), _sym(a[1]))
    if k == "ListLiteral": return ("List", [p_expr(x.fields["expr"]) for x in a[0]])
    if k == "TupleLiteral": return ("Tuple", [p_expr(x) for x in a[0]])
    if k == "DictLiteral": return ("Dict", [(p_expr(x.fields["key"]), p_expr(x.fields["value"])) for x in a[0]])
    if k == "StructLiteral": return ("Struct", _sym(a[0]), [(_sym(f.args[0]), p_expr(f.args[1])) for f in a[1]])
    if k == "FunLiteral":
        fi = p_funinfo(a[0])
        return ("Lambda", fi["params"], fi["ret"], fi["body"])
    if k == "If":
        els = p_opt(a[2])
        return ("If", p_expr(a[0]), p_block(a[1]), p_block(els) if els is not None else None)
    if k == "While": return ("While", p_expr(a[0]), p_block(a[1]))
    if k == "ForIn": return ("For", p_dest(a[0]), p_expr(a[1]), p_block(a[2]))
    if k == "Match":
        arms = []
        for case in a[1]:
            pat, blk = case.args
            payload = p_opt(pat.fields["payload"])
            arms.append(((_sym(pat.fields["variant_sym"]), p_dest(payload) if payload is not None else None), p_block(blk)))
        return ("Match", p_expr(a[0]), arms)
    if k == "Try": return ("Try", p_block(a[0]), _sym(a[1]), p_block(a[2]))
    if k == "Let": return ("Let", p_dest(a[0]), p_hint(a[1]), p_expr(a[2]))
    if k == "Assign": return ("Assign", _sym(a[0]), p_expr(a[1]))
    if k == "AssignUpdate": return ("AssignUpdate", _sym(a[0]), {"Add": "+=", "Subtract": "-="}[a[1].name], p_expr(a[2]))
    if k == "Return":
        v = p_opt(a[0])
        return ("Return", p_expr(v) if v is not None else None)
    if k == "Break": return ("Break",)
    if k == "Continue": return ("Continue",)
    if k == "Assert": return ("Assert", p_expr(a[0]))
    if k == "Invalid": return ("Invalid",)
    raise ValueError(f"unknown expression node {k}")


def _vis(n):
    return n.name == "Public"


def p_item(n):
    k = n.name
    a = n.args
    if k == "Expr": return ("Expr", p_expr(a[0].args[0]))
    if k == "Block": return ("Block", p_block(a[0]))
    if k == "Fun":
        fi = p_funinfo(a[1])
        return ("Fun", _sym(a[0]), _vis(a[2]), fi["doc"], fi["tparams"], fi["params"], fi["ret"], fi["body"])
    if k == "Method":
        mi = a[0].fields
        kind = mi["kind"]
        fi = p_funinfo(kind.args[0] if kind.name == "UserDefinedMethod" else p_opt(kind.args[1]))
        return ("Method", _vis(a[1]), fi["doc"], _sym(mi["receiver_sym"]), p_hint(mi["receiver_hint"]), _sym(mi["name_sym"]),
                fi["tparams"], fi["params"], fi["ret"], fi["body"])
    if k == "Test":
        f = a[0].fields
        doc = p_opt(f["doc_comment"])
        return ("Test", _sym(f["name_sym"]), doc[1] if doc is not None else None, p_block(f["body"]))
    if k == "Enum":
        f = a[0].fields
        doc = p_opt(f["doc_comment"])
        return ("Enum", _sym(f["name_sym"]), _vis(f["visibility"]), doc[1] if doc is not None else None, [_sym(t) for t in f["type_params"]],
                [(_sym(v.fields["name_sym"]), p_hint(v.fields["payload_hint"])) for v in f["variants"]])
    if k == "Struct":
        f = a[0].fields
        doc = p_opt(f["doc_comment"])
        fields = []
        for fl in f["fields"]:
            d = p_opt(fl.fields["doc_comment"])
            fields.append((_sym(fl.fields["sym"]), p_hint(fl.fields["hint"]), d[1] if d is not None else None))
        return ("StructDef", _sym(f["name_sym"]), _vis(f["visibility"]), doc[1] if doc is not None else None,
                [_sym(t) for t in f["type_params"]], fields)
    if k == "Import":
        f = a[0].fields
        ns = p_opt(f["namespace_sym"])
        return ("Import", f["path"][1], _sym(ns) if ns is not None else None)
    raise ValueError(f"unknown item {k}")


def project(items_node):
    return [p_item(i) for i in items_node]


def norm(t):
    """lists -> tuples, recursively, so that trees compare structurally."""
    if isinstance(t, (list, tuple)):
        return tuple(norm(x) for x in t)
    return t


# ---------------------------------------------------------------- emitter of the normalised Debug form
# Mirrors `norm_debug(..., blank=true)` in the hook: syntax ids, value_is_used and comma positions blanked.

P = "Position { ... }"


def _rstr(s):
    """Rust `{:?}` of a str."""
    out = ['"']
    for ch in s:
        o = ord(ch)
        if ch == '"': out.append('\\"')
        elif ch == "\\": out.append("\\\\")
        elif ch == "\n": out.append("\\n")
        elif ch == "\t": out.append("\\t")
        elif ch == "\r": out.append("\\r")
        elif ch == "\0": out.append("\\0")
        elif ch == "'": out.append("'")
        elif o < 0x20 or o == 0x7f: out.append("\\u{%x}" % o)
        else: out.append(ch)
    out.append('"')
    return "".join(out)


def d_sym(name): return f'Symbol"{name}"'
def d_tsym(name): return f'TypeSymbol"{name}"'


def d_opt(x): return "None" if x is None else f"Some({x})"


def d_hint(h):
    return f"TypeHint {{ sym: {d_tsym(h[1])}, args: [{', '.join(d_hint(a) for a in h[2])}], position: {P} }}"


def d_hint_opt(h): return d_opt(d_hint(h) if h is not None else None)


def d_dest(d):
    if d[0] == "Sym": return f"Symbol({d_sym(d[1])})"
    return f"Destructure([{', '.join(d_sym(n) for n in d[1])}])"


def d_block(b):
    return f"Block {{ open_brace: {P}, exprs: [{', '.join(d_expr(e) for e in b)}], close_brace: {P} }}"


def d_args(args):
    inner = ", ".join(f"ExpressionWithComma {{ expr: {d_expr(a)}, comma: None }}" for a in args)
    return f"ParenthesizedArguments {{ open_paren: {P}, arguments: [{inner}], close_paren: {P} }}"


def d_params(params):
    inner = ", ".join(f"SymbolWithHint {{ symbol: {d_sym(p)}, hint: {d_hint_opt(h)} }}" for p, h in params)
    return f"ParenthesizedParameters {{ open_paren: {P}, params: [{inner}], close_paren: {P} }}"


def d_funinfo(doc, name, toplevel, tps, params, ret, body):
    return (f"FunInfo {{ pos: {P}, doc_comment: {d_opt(_rstr(doc) if doc is not None else None)}, name_sym: {d_opt(d_sym(name) if name else None)}, "
            f"item_id: {d_opt('ToplevelItemId()' if toplevel else None)}, type_params: [{', '.join(d_tsym(t) for t in tps)}], "
            f"params: {d_params(params)}, return_hint: {d_hint_opt(ret)}, body: {d_block(body)} }}")


def _float_dbg(text):
    v = float(text.replace("_", ""))
    r = repr(v)
    if "e" in r or "inf" in r:
        r = format(v, "f").rstrip("0")
        if r.endswith("."): r += "0"
    return r


def d_expr_(e):
    k = e[0]
    if k == "Int": return f"IntLiteral({e[1]})"
    if k == "Float": return f"FloatLiteral(OrderedFloat({_float_dbg(e[1])}))"
    if k == "Str": return f"StringLiteral({_rstr(e[1])})"
    if k == "Var": return f"Variable({d_sym(e[1])})"
    if k == "Paren": return f"Parentheses(ParenthesizedExpression {{ open_paren: {P}, expr: {d_expr(e[1])}, close_paren: {P} }})"
    if k == "Bin": return f"BinaryOperator({d_expr(e[1])}, BinaryOperatorSymbol {{ position: {P}, kind: {OP_KIND[e[2]]} }}, {d_expr(e[3])})"
    if k == "Call": return f"Call({d_expr(e[1])}, {d_args(e[2])})"
    if k == "MethodCall": return f"MethodCall({d_expr(e[1])}, {d_sym(e[2])}, {d_args(e[3])})"
    if k == "Dot": return f"DotAccess({d_expr(e[1])}, {d_sym(e[2])})"
    if k == "Ns": return f"NamespaceAccess({d_expr(e[1])}, {d_sym(e[2])})"
    if k == "List": return "ListLiteral([" + ", ".join(f"ExpressionWithComma {{ expr: {d_expr(a)}, comma: None }}" for a in e[1]) + "])"
    if k == "Tuple": return "TupleLiteral([" + ", ".join(d_expr(a) for a in e[1]) + "])"
    if k == "Dict": return "DictLiteral([" + ", ".join(f"DictKeyValue {{ key: {d_expr(a)}, arrow_pos: {P}, value: {d_expr(b)} }}" for a, b in e[1]) + "])"
    if k == "Struct": return f"StructLiteral({d_tsym(e[1])}, [" + ", ".join(f"({d_sym(f)}, {d_expr(v)})" for f, v in e[2]) + "])"
    if k == "Lambda": return f"FunLiteral({d_funinfo(None, None, False, [], e[1], e[2], e[3])})"
    if k == "If": return f"If({d_expr(e[1])}, {d_block(e[2])}, {d_opt(d_block(e[3]) if e[3] is not None else None)})"
    if k == "While": return f"While({d_expr(e[1])}, {d_block(e[2])})"
    if k == "For": return f"ForIn({d_dest(e[1])}, {d_expr(e[2])}, {d_block(e[3])})"
    if k == "Match":
        arms = ", ".join(f"(Pattern {{ variant_sym: {d_sym(v)}, payload: {d_opt(d_dest(d) if d else None)} }}, {d_block(b)})" for (v, d), b in e[2])
        return f"Match({d_expr(e[1])}, [{arms}])"
    if k == "Try": return f"Try({d_block(e[1])}, {d_sym(e[2])}, {d_block(e[3])})"
    if k == "Let": return f"Let({d_dest(e[1])}, {d_hint_opt(e[2])}, {d_expr(e[3])})"
    if k == "Assign": return f"Assign({d_sym(e[1])}, {d_expr(e[2])})"
    if k == "AssignUpdate": return f"AssignUpdate({d_sym(e[1])}, {'Add' if e[2] == '+=' else 'Subtract'}, {d_expr(e[3])})"
    if k == "Return": return f"Return({d_opt(d_expr(e[1]) if e[1] is not None else None)})"
    if k == "Break": return "Break"
    if k == "Continue": return "Continue"
    if k == "Assert": return f"Assert({d_expr(e[1])})"
    if k == "Invalid": return "Invalid"
    raise ValueError(k)


def d_expr(e):
    return f"Expression {{ position: {P}, expr_: {d_expr_(e)}, value_is_used: _, id: SyntaxId() }}"


def d_vis(public): return f"Public({P})" if public else "CurrentFile"


def d_item(it):
    k = it[0]
    if k == "Expr": return f"Expr(ToplevelExpression({d_expr(it[1])}))"
    if k == "Block": return f"Block({d_block(it[1])})"
    if k == "Fun":
        _, name, public, doc, tps, params, ret, body = it
        return f"Fun({d_sym(name)}, {d_funinfo(doc, name, True, tps, params, ret, body)}, {d_vis(public)})"
    if k == "Method":
        _, public, doc, recv, recv_hint, name, tps, params, ret, body = it
        fi = d_funinfo(doc, name, True, tps, params, ret, body)
        return (f"Method(MethodInfo {{ pos: {P}, receiver_hint: {d_hint(recv_hint)}, receiver_sym: {d_sym(recv)}, name_sym: {d_sym(name)}, "
                f"kind: UserDefinedMethod({fi}) }}, {d_vis(public)})")
    if k == "Test":
        return f"Test(TestInfo {{ pos: {P}, doc_comment: {d_opt(_rstr(it[2]) if it[2] is not None else None)}, name_sym: {d_sym(it[1])}, body: {d_block(it[3])} }})"
    if k == "Enum":
        _, name, public, doc, tps, variants = it
        vs = ", ".join(f"VariantInfo {{ name_sym: {d_sym(v)}, payload_hint: {d_hint_opt(h)}, comma: None }}" for v, h in variants)
        return (f"Enum(EnumInfo {{ pos: {P}, visibility: {d_vis(public)}, doc_comment: {d_opt(_rstr(doc) if doc is not None else None)}, "
                f"name_sym: {d_tsym(name)}, type_params: [{', '.join(d_tsym(t) for t in tps)}], variants: [{vs}] }})")
    if k == "StructDef":
        _, name, public, doc, tps, fields = it
        fs = ", ".join(f"FieldInfo {{ sym: {d_sym(f)}, hint: {d_hint(h)}, doc_comment: {d_opt(_rstr(d) if d is not None else None)}, comma: None }}" for f, h, d in fields)
        return (f"Struct(StructInfo {{ pos: {P}, visibility: {d_vis(public)}, doc_comment: {d_opt(_rstr(doc) if doc is not None else None)}, "
                f"name_sym: {d_tsym(name)}, type_params: [{', '.join(d_tsym(t) for t in tps)}], fields: [{fs}] }})")
    if k == "Import":
        return (f"Import(ImportInfo {{ pos: {P}, path: {_rstr(it[1])}, path_pos: {P}, namespace_sym: {d_opt(d_sym(it[2]) if it[2] else None)}, id: SyntaxId() }})")
    raise ValueError(k)


def d_program(items):
    return "[" + ", ".join(d_item(i) for i in items) + "]"
