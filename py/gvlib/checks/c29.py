"""C29 LSP positions and edits map exactly onto the document."""
REG = dict(
    engine='E1-enum',
    technique='bounded-exhaustive enumeration of documents x offsets on the real conversion functions (in-Rust loop), and of documents x positions/selections x edit-producing requests on the real LSP handlers, edits applied by an independent LSP 3.17 text model and compared with the real command-line refactorings',
    text="(a) every document of length <=5 (quick) / <=7 (thorough) over {a, e-acute, euro, emoji, CR, LF} x every character-boundary offset: offset -> (line, UTF-16 column) -> offset must be the identity (real offset_to_lsp_position / line_char_to_offset); for every such document the range of whole_document_range, read with the specification's line terminators and clamping, must cover the document, and the position of every offset must be the UTF-16 position of the independent model. (b) a pool of ~40 documents (ASCII, non-ASCII in strings and comments, CRLF, lone CR, no trailing newline, empty, multi-line strings, parse errors) x {formatting, rename at every character-boundary position, codeAction at every empty selection and every token/node span (thorough: every pair of token boundaries)}: the TextEdits returned by the real handlers are applied by gvlib/lsp_text.py and must give exactly the text of format::format / rename / extract_variable / extract_function / wrap_in_dbg / add_type_annotation / destructure / the autofix splice at the byte offsets the server itself derives from the request positions.",
    note='The command-line side is called in-process (the same functions the reftest-* / format / check --fix subcommands call); each violation signature is replayed through `garden-verif reftest-lsp` and the matching CLI subcommand. Documents longer than the bounds and outside the pool are not covered. Lone-CR documents are reported under their own signatures (the specification treats CR as a line terminator).',
    design_ref='DESIGN.md §6 C29',
)
LEVEL = "model_checking"

import json, os
from ..core import Machinery
from .. import lsp_text as T

ALPHABET = ["a", "é", "€", "😀", "\r", "\n"]
URI = "file:///verif_scratch/main.gdn"
PATH = "/verif_scratch/main.gdn"
NEW_NAME = "zz9_new"

TOOL_OF_TITLE = {"Extract function": "extract_function", "Extract variable": "extract_variable", "Destructure enum": "destructure",
                 "Wrap in dbg()": "wrap_in_dbg", "Add type annotation": "add_type_annotation"}
TOOL_NAME = {"extract_function": "extracted", "extract_variable": "extracted"}
CLI_OF_TOOL = {"extract_function": "reftest-extract-function", "extract_variable": "reftest-extract-variable", "destructure": "reftest-destructure",
               "wrap_in_dbg": "reftest-wrap-in-dbg", "add_type_annotation": "reftest-add-type-annotation", "rename": "reftest-rename"}

BASE = {
    "fun_call": 'fun add_one(n: Int): Int {\n  n + 1\n}\n\nlet total = add_one(2)\nprintln(string_repr(total))\n',
    "non_ascii": '// café 😀 comment\nfun greet(name: String): String {\n  "héllo 😀 " ^ name\n}\n\nlet who = "wörld€"\nprintln(greet(who)) // 😀 trailing\n',
    "enum_match": 'enum Shape {\n  Circle(Int),\n  Square,\n}\n\nfun pick(): Option<Int> {\n  Some(1)\n}\n\nfun area(s: Shape): Int {\n  pick()\n  match s {\n    Circle(r) => r * r\n    Square => 1\n  }\n}\n',
    "struct_method": 'struct Point {\n  x: Int,\n  y: Int,\n}\n\nmethod norm(this: Point): Int {\n  this.x + this.y\n}\n\nlet p = Point{ x: 1, y: 2 }\np.norm()\n',
    "multiline_string": 'let s = "line one\nline 😀 two\nthree"\nlet t = s ^ "é"\nprintln(t)\n',
    "quickfix": 'fun main() {\n  Path{ p: "/foo😀" }.existts()\n}\n',
    "unformatted": 'fun   f( a:Int,b :Int ) :Int{a+b}\n\n\n\nlet   x=f(1,2)   // é\nx\n',
    "unused": 'fun foo() {\n  let x = "é"\n  let y = 1.0 + 2.0\n  ()\n}\n',
    "while_loop": 'let i = 0\nwhile i < 3 {\n  i += 1\n  println("é😀")\n}\n',
    "lambda": 'let f = fun(a: Int) { a * 2 }\nlet xs = [1, 2, 3].map(f)\nxs\n',
    "test_item": 'fun dbl(n: Int): Int { n + n }\n\ntest dbl_works {\n  assert(dbl(2) == 4) // ✓\n}\n',
    "doc_comment": '/// Adds é to `s`.\n///\n/// 😀\nfun acute(s: String): String {\n  s ^ "é"\n}\n\nacute("x")\n',
    "string_concat": 'fun hello(): String {\n  "a😀" + "b"\n}\n',
    "one_line": 'let a = 1 let b = a + 2 b\n',
    "comment_only": '// only a comment é😀\n',
    "blank_lines": '\n\nlet x = 1\n\n\n\nx\n\n',
    "parse_error": 'fun f( {\n  "é" 😀\n',
    "tuple_let": 'let (a, b) = (1, "😀")\nlet c = b ^ "é"\n[a].len()\n',
    "match_missing": 'enum Color {\n  Red,\n  Green,\n}\n\npublic fun describe(c: Color): String {\n  match c {\n    Red => "réd"\n  }\n}\n',
    "ret": 'fun foo(): Int {\n  return 1\n}\n',
}
CRLF_OF = ["fun_call", "non_ascii", "enum_match", "multiline_string", "quickfix", "unformatted", "unused", "one_line", "comment_only", "blank_lines"]
NO_NL_OF = ["fun_call", "non_ascii", "quickfix", "unformatted", "one_line", "comment_only", "multiline_string"]


def pool(quick):
    docs = [("empty", ""), ("newline_only", "\n"), ("crlf_only", "\r\n"), ("cr_only", "\r")]
    docs += list(BASE.items())
    for k in CRLF_OF:
        docs.append((k + "+crlf", BASE[k].replace("\n", "\r\n")))
    for k in NO_NL_OF:
        docs.append((k + "+nonl", BASE[k].rstrip("\n")))
    docs.append(("non_ascii+crlf+nonl", BASE["non_ascii"].replace("\n", "\r\n")[:-2]))
    # lone CR: Garden treats CR as plain whitespace, the LSP specification as a line terminator
    docs.append(("fun_call+lonecr_mid", BASE["fun_call"].replace("\n\n", "\r\n\r", 1)))
    docs.append(("one_line+lonecr", 'let a = 1\rlet b = a + 2\rb\n'))
    docs.append(("non_ascii+lonecr_end", BASE["non_ascii"] + "\r"))
    docs.append(("unformatted+mixed", 'fun   f( a:Int ) :Int{a}\r\n\rlet   x=f(1)   // é\nx'))
    return docs


def primary_class(text):
    if text == "":
        return "empty"
    if T.has_lone_cr(text):
        return "lone-cr"
    if T.has_crlf(text):
        return "crlf"
    if any(ord(c) > 0x7F for c in text):
        return "non-ascii" + ("" if text.endswith("\n") else "+no-trailing-newline")
    if not text.endswith("\n"):
        return "no-trailing-newline"
    return "ascii-lf"


def diff_kind(old, got, want):
    """Coarse description of how the text produced from the edits differs from the expected text."""
    if got.startswith(want) and len(got) > len(want) and old.endswith(got[len(want):]):
        tail = got[len(want):]
        return "tail of the old document is kept after the new text (" + "+".join(sorted({("CR" if c == "\r" else "LF" if c == "\n" else "text") for c in tail})) + ")"
    if want.startswith(got):
        return "end of the new text is missing"
    if got.endswith(want) and old.startswith(got[:len(got) - len(want)]):
        return "head of the old document is kept before the new text"
    if len(got) == len(want):
        return "same length, characters differ (edit shifted)"
    return "text differs"


def pos_json(lc):
    return {"line": lc[0], "character": lc[1]}


def msg_open(text):
    return {"jsonrpc": "2.0", "method": "textDocument/didOpen", "params": {"textDocument": {"uri": URI, "languageId": "garden", "version": 1, "text": text}}}


# ---------------------------------------------------------------- part (a)

def part_a(ctx):
    maxlen = 5 if ctx.quick else 7
    ctx.bound("conversion_document_length", maxlen)
    ctx.bound("conversion_alphabet", "a é € 😀 CR LF")
    jobs = [{"op": "lsp_conv", "alphabet": ALPHABET, "len": 0, "first": 0, "ranges": True}]
    for n in range(1, maxlen + 1):
        jobs += [{"op": "lsp_conv", "alphabet": ALPHABET, "len": n, "first": i, "ranges": True} for i in range(len(ALPHABET))]
    res = ctx.pool.map(jobs, batch=1, timeout=300)
    docs = offsets = 0
    all_docs = []
    n_multibyte = n_multiline = 0
    for job, r in zip(jobs, res):
        if "docs" not in r:
            raise Machinery(f"lsp_conv job failed: {job} -> {str(r)[:200]}")
        docs += r["docs"]
        offsets += r["offsets"]
        for f in r["failures"]:
            cls = primary_class(f["src"])
            if "panic" in f:
                ctx.violation(f"conversion [{cls}]: panic in offset -> position -> offset", f, cli_cmd=None)
            else:
                ctx.violation(f"conversion [{cls}]: offset -> (line, UTF-16 column) -> offset is not the identity", f, cli_cmd=None)
        if r["n_fail"] and not r["failures"]:
            raise Machinery("lsp_conv reports failures without examples")
        for src, sl, sc, el, ec in r["ranges"]:
            all_docs.append(src)
            if any(ord(c) > 0x7F for c in src):
                n_multibyte += 1
            if "\n" in src or "\r" in src:
                n_multiline += 1
            a = T.position_to_index(src, sl, sc)
            b = T.position_to_index(src, el, ec)
            if a == 0 and b == len(src):
                ctx.outcome("whole-range:covers" + ("" if (el, ec) == T.end_position(src) else "-by-clamping"))
                continue
            cls = primary_class(src)
            eline, echar = T.end_position(src)
            what = "end line too small" if el < eline else ("end line too large" if el > eline else "end character differs")
            ctx.outcome(f"whole-range:short[{cls}]")
            ctx.violation(f"whole_document_range [{cls}]: does not cover the document ({what})",
                          {"src": src, "server_range": [sl, sc, el, ec], "spec_end": [eline, echar], "selected": [a, b], "length": len(src)},
                          cli_cmd="garden-verif reftest-lsp <didOpen + textDocument/formatting>")
    expect = sum(len(ALPHABET) ** n for n in range(maxlen + 1))
    if docs != expect or len(all_docs) != expect:
        raise Machinery(f"lsp_conv enumerated {docs} documents, expected {expect}")
    if n_multibyte == 0 or n_multiline == 0:
        raise Machinery("vacuous: no multi-byte or no multi-line document")
    ctx.outcome("conv:documents", docs)
    ctx.outcome("conv:offsets", offsets)
    ctx.outcome("conv:documents-with-multibyte", n_multibyte)
    ctx.outcome("conv:documents-with-terminators", n_multiline)

    # offset -> position against the independent model (same documents)
    queries = []
    for src in all_docs:
        raw = src.encode("utf-8")
        offs = [o for o in range(len(raw) + 1) if o == len(raw) or raw[o] & 0xC0 != 0x80]
        queries.append({"src": src, "offsets": offs})
    jobs2 = [{"op": "lsp_points", "queries": queries[i:i + 2000]} for i in range(0, len(queries), 2000)]
    res2 = ctx.pool.map(jobs2, batch=1, timeout=300)
    n_cmp = 0
    for job, r in zip(jobs2, res2):
        if "results" not in r:
            raise Machinery(f"lsp_points failed: {str(r)[:200]}")
        for q, rr in zip(job["queries"], r["results"]):
            src = q["src"]
            for o, (l, c) in zip(q["offsets"], rr["positions"]):
                n_cmp += 1
                flags = {}
                want = T.offset_to_position(src, o, flags)
                if (l, c) == tuple(want) and not flags:
                    ctx.outcome("ext-model:agree")
                elif T.has_lone_cr(src):
                    ctx.outcome("ext-model:differs[lone-cr document]")
                elif flags.get("inside_terminator"):
                    ctx.outcome("ext-model:offset inside a CRLF terminator (no position exists)")
                else:
                    ctx.violation(f"conversion [{primary_class(src)}]: position of an offset is not (line, UTF-16 column) of the specification",
                                  {"src": src, "offset": o, "server": [l, c], "spec": list(want)})
    ctx.add(states=docs, transitions=offsets + docs + n_cmp, nontrivial=n_multibyte)
    ctx.sample({"part": "a", "document": all_docs[len(all_docs) // 2], "offsets": "every character boundary"})
    return docs


# ---------------------------------------------------------------- part (b)

def boundaries(text):
    raw = text.encode("utf-8")
    return [o for o in range(len(raw) + 1) if o == len(raw) or raw[o] & 0xC0 != 0x80]


def part_b(ctx):
    docs = pool(ctx.quick)
    ctx.bound("edit_document_pool", len(docs))
    names = [n for n, _ in docs]
    if len(set(names)) != len(names):
        raise Machinery("duplicate pool names")
    # 1. front end facts
    fr = ctx.pool.map([{"op": "front", "src": t, "path": PATH, "want": ["check", "format", "positions", "tokens"]} for _, t in docs], batch=4, timeout=60)
    fx = ctx.pool.map([{"op": "fix", "src": t, "path": PATH} for _, t in docs], batch=4, timeout=60)
    plans = []
    for (name, text), f, x in zip(docs, fr, fx):
        if "parse_errors" not in f:
            raise Machinery(f"front job failed on pool document {name}: {str(f)[:200]}")
        if f["parse_errors"] and not name.startswith("parse_error") and name not in ("cr_only",):
            raise Machinery(f"pool document {name} does not parse: {f['parse_errors'][0]['message']}")
        bs = boundaries(text)
        pos_of = {}
        for o in bs:
            flags = {}
            lc = T.offset_to_position(text, o, flags)
            if not flags:
                pos_of[o] = tuple(lc)
        # selections as byte spans
        sel = [(o, o) for o in bs if o in pos_of]
        spans = set()
        for p in f.get("positions", []):
            spans.add((p["start_offset"], p["end_offset"]))
        for a, b in f.get("tokens", []):
            spans.add((a, b))
        spans.add((0, len(text.encode("utf-8"))))
        if not ctx.quick:
            tb = sorted({o for s in spans for o in s})
            if len(tb) <= 70:
                spans |= {(a, b) for a in tb for b in tb if a < b}
            else:
                ctx.outcome("pairs-of-token-boundaries:skipped-large-doc")
        sel += sorted(s for s in spans if s[0] < s[1] and s[0] in pos_of and s[1] in pos_of)
        plans.append({"name": name, "text": text, "front": f, "fix": x, "pos_of": pos_of, "sel": sel, "rename_at": [o for o in bs if o in pos_of]})

    # 2. which byte offsets the server derives from the positions we send
    pts = ctx.pool.map([{"op": "lsp_points", "queries": [{"src": p["text"], "line_chars": [list(lc) for lc in sorted(set(p["pos_of"].values()))]}]} for p in plans], batch=4, timeout=60)
    for p, r in zip(plans, pts):
        rr = r["results"][0]
        lcs = sorted(set(p["pos_of"].values()))
        p["server_off"] = dict(zip(lcs, rr["offsets"]))
        for o, lc in p["pos_of"].items():
            ctx.outcome("request-position:server offset == model offset" if p["server_off"][lc] == o else f"request-position:server offset differs [{primary_class(p['text'])}]")
            if p["server_off"][lc] != o and not T.has_lone_cr(p["text"]):
                ctx.violation(f"conversion [{primary_class(p['text'])}]: position -> offset differs from the specification's text model",
                              {"document": p["name"], "text": p["text"], "position": list(lc), "server_offset": p["server_off"][lc], "model_offset": o})

    # 3. LSP requests
    lsp_jobs, lsp_meta = [], []
    CH = 24
    for pi, p in enumerate(plans):
        reqs = [("formatting", None, {"jsonrpc": "2.0", "id": 0, "method": "textDocument/formatting",
                                      "params": {"textDocument": {"uri": URI}, "options": {"tabSize": 2, "insertSpaces": True}}})]
        for o in p["rename_at"]:
            lc = p["pos_of"][o]
            reqs.append(("rename", (lc,), {"jsonrpc": "2.0", "id": 0, "method": "textDocument/rename",
                                           "params": {"textDocument": {"uri": URI}, "position": pos_json(lc), "newName": NEW_NAME}}))
        for a, b in p["sel"]:
            la, lb = p["pos_of"][a], p["pos_of"][b]
            reqs.append(("codeAction", (la, lb), {"jsonrpc": "2.0", "id": 0, "method": "textDocument/codeAction",
                                                  "params": {"textDocument": {"uri": URI}, "range": {"start": pos_json(la), "end": pos_json(lb)}, "context": {"diagnostics": []}}}))
        for i in range(0, len(reqs), CH):
            chunk = reqs[i:i + CH]
            msgs = [msg_open(p["text"])]
            for k, (_, _, m) in enumerate(chunk):
                m = dict(m)
                m["id"] = k + 1
                msgs.append(m)
            lsp_jobs.append({"op": "lsp", "messages": msgs})
            lsp_meta.append((pi, chunk))
    import time
    t0 = time.time()
    lsp_res = ctx.pool.map(lsp_jobs, batch=1, timeout=120)
    print(f"  [c29] b: {len(lsp_jobs)} lsp jobs {time.time()-t0:.1f}s", flush=True)
    t0 = time.time()

    # 4. oracle jobs: the command-line functions at the server-derived offsets
    want_spans = {}      # (pi, tool) -> set of spans
    for pi, p in enumerate(plans):
        so = p["server_off"]
        want_spans[(pi, "rename")] = sorted({(so[p["pos_of"][o]],) * 2 for o in p["rename_at"]})
        ss = sorted({(so[p["pos_of"][a]], so[p["pos_of"][b]]) for a, b in p["sel"]})
        for tool in TOOL_OF_TITLE.values():
            if tool.startswith("extract"):
                want_spans[(pi, tool)] = [s for s in ss if s[0] < s[1]]
            else:
                want_spans[(pi, tool)] = ss
    or_jobs, or_meta = [], []
    for (pi, tool), spans in want_spans.items():
        for i in range(0, len(spans), 40):
            ch = spans[i:i + 40]
            job = {"op": "refactor", "tool": tool, "src": plans[pi]["text"], "path": PATH, "spans": [list(s) for s in ch]}
            job["name"] = NEW_NAME if tool == "rename" else TOOL_NAME.get(tool, "zz9")
            or_jobs.append(job)
            or_meta.append((pi, tool, ch))
    or_res = ctx.pool.map(or_jobs, batch=1, timeout=120)
    print(f"  [c29] b: {len(or_jobs)} refactor jobs ({sum(len(m[2]) for m in or_meta)} spans) {time.time()-t0:.1f}s", flush=True)
    oracle = {}
    for (pi, tool, ch), r in zip(or_meta, or_res):
        if "results" not in r:
            raise Machinery(f"refactor job failed ({tool} on {plans[pi]['name']}): {str(r)[:200]}")
        for s, rr in zip(ch, r["results"]):
            oracle[(pi, tool, tuple(s))] = rr

    # 5. compare
    counts = {"formatting": 0, "rename": 0, "quickfix": 0}
    counts.update({t: 0 for t in TOOL_OF_TITLE.values()})
    edits_multibyte = edits_multiline = 0
    n_requests = 0
    first_fail = {}

    def report(source, p, what, detail):
        cls = primary_class(p["text"])
        if cls == "lone-cr":
            # one signature per edit source for this class (triaged separately: the specification
            # treats a lone CR as a line terminator, the server does not)
            if not what.startswith("edits overlap"):
                what = "replaced range stops before the end of the document" if what.startswith("tail of the old") else "edit range misplaced"
        sig = f"{source} [{cls}]: {what}"
        detail = dict(detail, document=p["name"], text=p["text"])
        first_fail.setdefault(sig, detail)
        ctx.violation(sig, detail, cli_cmd="garden-verif reftest-lsp <file.jsonl>")

    def apply(source, p, edits, want, req, offsets=None):
        nonlocal edits_multibyte, edits_multiline
        text = p["text"]
        req = dict(req, _server_offsets=offsets)
        try:
            flags = {}
            got = T.apply_edits(text, edits, flags)
        except T.EditError as e:
            report(source, p, "edits cannot be applied as the specification defines (overlap or inverted range)", {"request": req, "edits": edits, "error": str(e)})
            return
        for e in edits:
            a, b, _ = T.edit_span(text, e)
            if any(ord(c) > 0x7F for c in text[:b]):
                edits_multibyte += 1
            if e["range"]["end"]["line"] > 0:
                edits_multiline += 1
        if got != want:
            report(source, p, diff_kind(text, got, want), {"request": req, "edits": edits, "applied": got, "expected": want, "clamping": flags})
        else:
            ctx.outcome(f"{source}:edit text equal")

    for (pi, chunk), job, r in zip(lsp_meta, lsp_jobs, lsp_res):
        p = plans[pi]
        if "results" not in r:
            raise Machinery(f"lsp job failed on {p['name']}: {str(r)[:200]}")
        results = r["results"]
        for k, (kind, lcs, m) in enumerate(chunk):
            n_requests += 1
            req = job["messages"][k + 1]
            if k + 1 >= len(results) or "panic" in results[k + 1]:
                pan = results[-1].get("panic", "no result")
                report(kind, p, "server panics: " + norm_panic(pan), {"request": req, "panic": pan})
                # the rest of the chunk was not executed: re-run it without the culprit
                rest = [msg_open(p["text"])] + job["messages"][k + 2:]
                if len(rest) > 1:
                    r2 = ctx.pool.one({"op": "lsp", "messages": rest})
                    results = results[:k + 1] + [{"skipped": True}] + r2["results"][1:]
                continue
            if results[k + 1].get("skipped"):
                continue
            out = results[k + 1]["out"]
            resp = [o for o in out if o.get("id") == req["id"]]
            if len(resp) != 1 or "error" in resp[0]:
                raise Machinery(f"unexpected reply to {kind} on {p['name']}: {str(out)[:300]}")
            result = resp[0]["result"]
            so = p["server_off"]
            if kind == "formatting":
                if not result:
                    raise Machinery("formatting returned no edit")
                counts["formatting"] += 1
                apply("formatting", p, result, p["front"]["formatted"], req)
            elif kind == "rename":
                o = so[lcs[0]]
                orc = oracle[(pi, "rename", (o, o))]
                if result is None:
                    if "ok" in orc and orc["ok"] != p["text"]:
                        ctx.outcome("rename:no edit offered although the command line renames")
                    else:
                        ctx.outcome("rename:nothing to rename")
                    continue
                edits = T.workspace_edit_for(URI, result)
                if edits is None:
                    raise Machinery(f"rename result has no edits for the document: {result}")
                try:
                    T.apply_edits(p["text"], edits)
                except T.EditError as e:
                    dup = len({json.dumps(x["range"], sort_keys=True) for x in edits}) < len(edits)
                    report("rename", p, "edits overlap (%s); the specification forbids overlapping TextEdit ranges" % ("the same range twice" if dup else "ranges intersect"),
                           {"request": dict(req, _server_offsets=[o, o]), "edits": edits, "error": str(e), "cli": orc})
                    continue
                if "panic" in orc:
                    ctx.outcome("rename:command-line function panics (not C29)")
                    continue
                if "ok" not in orc:
                    report("rename", p, "edits returned where the command line refuses", {"request": req, "edits": edits, "cli": orc})
                    continue
                counts["rename"] += 1
                apply("rename", p, edits, orc["ok"], req, [o, o])
            else:
                a, b = so[lcs[0]], so[lcs[1]]
                offered = set()
                fixes_left = None
                if not p["front"]["parse_errors"]:
                    fixes_left = [fxx for d in p["front"].get("diagnostics", []) for fxx in d["fixes"]]
                qf_edits = []
                for act in result:
                    if "edit" not in act:
                        raise Machinery(f"code action without edit (command?): {act}")
                    edits = T.workspace_edit_for(URI, act["edit"])
                    if edits is None:
                        raise Machinery(f"code action edit has no changes for the document: {act}")
                    if act.get("kind") == "quickfix":
                        if fixes_left is None:
                            ctx.outcome("quickfix:document has parse errors (no command-line counterpart)")
                            continue
                        raw = p["text"].encode("utf-8")
                        cands = [fxx for fxx in fixes_left if fxx["description"] == act["title"]]
                        wants = [(raw[:fxx["position"]["start_offset"]] + fxx["new_text"].encode("utf-8") + raw[fxx["position"]["end_offset"]:]).decode("utf-8") for fxx in cands]
                        if not cands:
                            report("quickfix", p, "fix offered that `garden check` does not report", {"request": req, "action": act})
                            continue
                        counts["quickfix"] += 1
                        try:
                            got = T.apply_edits(p["text"], edits)
                        except T.EditError:
                            got = None
                        if got in wants:
                            fixes_left.remove(cands[wants.index(got)])
                            ctx.outcome("quickfix:edit text equal")
                            for e in edits:
                                if any(ord(c) > 0x7F for c in p["text"][:T.edit_span(p["text"], e)[1]]):
                                    edits_multibyte += 1
                                if e["range"]["end"]["line"] > 0:
                                    edits_multiline += 1
                        else:
                            apply("quickfix", p, edits, wants[0], req)
                        qf_edits += edits
                        continue
                    tool = TOOL_OF_TITLE.get(act["title"])
                    if tool is None:
                        raise Machinery(f"unknown code action {act['title']!r}: extend TOOL_OF_TITLE")
                    offered.add(tool)
                    orc = oracle.get((pi, tool, (a, b)))
                    if orc is None:
                        raise Machinery(f"{tool} offered for an empty selection {a},{b}?")
                    if "ok" not in orc:
                        report(tool, p, "edits returned where the command line refuses", {"request": req, "action": act, "cli": orc})
                        continue
                    counts[tool] += 1
                    apply(tool, p, edits, orc["ok"], req, [a, b])
                for tool in TOOL_OF_TITLE.values():
                    if tool not in offered and "ok" in (oracle.get((pi, tool, (a, b))) or {}):
                        ctx.outcome(f"{tool}:not offered although the command line succeeds")
                # all quick fixes of the whole document together == `garden check --fix`
                if (a, b) == (0, len(p["text"].encode("utf-8"))) and qf_edits and fixes_left is not None:
                    try:
                        got = T.apply_edits(p["text"], qf_edits)
                        if got != p["fix"]["fixed"]:
                            if p["fix"]["n_fixes"] == len(qf_edits):
                                report("quickfix", p, "all fixes together differ from `check --fix`: " + diff_kind(p["text"], got, p["fix"]["fixed"]),
                                       {"request": req, "edits": qf_edits, "applied": got, "expected": p["fix"]["fixed"]})
                            else:
                                ctx.outcome("quickfix:whole-document request returns fewer fixes than check --fix applies")
                        else:
                            ctx.outcome("quickfix:all together == check --fix")
                    except T.EditError:
                        ctx.outcome("quickfix:fixes of one document overlap (not applied together)")
    for k, v in counts.items():
        ctx.outcome(f"edits-checked:{k}", v)
    ctx.outcome("edits over multi-byte text", edits_multibyte)
    ctx.outcome("edits ending beyond line 0", edits_multiline)
    missing = [k for k, v in counts.items() if v == 0]
    if missing:
        raise Machinery(f"vacuous: no edit was produced for {missing}")
    if edits_multibyte == 0 or edits_multiline == 0:
        raise Machinery("vacuous: no edit over multi-byte text or none beyond the first line")
    n_edits = sum(counts.values())
    ctx.add(states=len(docs) + n_requests, transitions=n_requests + len(oracle), nontrivial=n_edits)
    ctx.sample({"part": "b", "document": plans[5]["name"], "text": plans[5]["text"], "requests": "formatting, rename at every position, codeAction at every selection"})
    confirm(ctx, plans, first_fail)
    return n_requests, n_edits


def norm_panic(msg):
    import re
    head, _, loc = msg.partition(" @ ")
    loc = loc.split(":")[0]
    loc = loc[loc.find("src/"):] if "src/" in loc else loc
    head = re.sub(r"`[^`]*`", "`…`", head)
    head = re.sub(r"'[^']*'", "'…'", head)
    head = re.sub(r"\d+", "N", head)
    return f"{head[:100]} ({loc})"


def parse_reftest_output(out):
    """`reftest-lsp` prints pretty JSON objects back to back."""
    dec = json.JSONDecoder()
    i, objs = 0, []
    while True:
        while i < len(out) and out[i].isspace():
            i += 1
        if i >= len(out):
            return objs
        o, i = dec.raw_decode(out, i)
        objs.append(o)


def confirm(ctx, plans, first_fail):
    """Replay one instance per signature through `garden-verif reftest-lsp`, apply the edits it
    prints, and compare with the text the matching CLI subcommand prints."""
    for sig, d in list(first_fail.items())[:30]:
        v = ctx.violations.get(sig)
        if v is None or "request" not in d:
            continue
        req = dict(d["request"])
        offs = req.pop("_server_offsets", None)
        req["id"] = 1
        lines = [json.dumps(msg_open(d["text"]), ensure_ascii=False), json.dumps(req, ensure_ascii=False)]
        path = ctx.tmpfile("confirm.jsonl", "\n".join(lines) + "\n")
        rc, out, err = ctx.cli(["reftest-lsp", path], timeout=60)
        det = v["detail"]
        det["cli_reftest_lsp_exit"] = rc
        if rc == 101:
            det["cli_confirmed"] = "panic"
            ctx.cov["cli_confirmed"] += 1
            continue
        try:
            objs = parse_reftest_output(out)
        except ValueError:
            raise Machinery(f"cannot parse reftest-lsp output: {out[:200]}")
        resp = [o for o in objs if o.get("id") == 1]
        if len(resp) != 1:
            raise Machinery(f"adapter drift: reftest-lsp gave {len(resp)} responses")
        result = resp[0].get("result")
        method = req["method"]
        if method == "textDocument/formatting":
            edits_list = [result]
        elif method == "textDocument/rename":
            edits_list = [T.workspace_edit_for(URI, result)] if result else []
        else:
            edits_list = [T.workspace_edit_for(URI, a["edit"]) for a in result or []]
        in_proc = d.get("edits")
        if in_proc is not None and in_proc not in edits_list:
            raise Machinery(f"adapter drift: reftest-lsp does not return the edits seen in-process for {sig}")
        # CLI side
        src_path = ctx.tmpfile("confirm.gdn", d["text"])
        source = sig.split(" [")[0]
        cmd = None
        if method == "textDocument/formatting":
            cmd = ["format", src_path]
        elif source == "rename" and offs:
            cmd = ["reftest-rename", src_path, str(offs[0]), "--new-name", NEW_NAME]
        elif source in CLI_OF_TOOL and offs:
            cmd = [CLI_OF_TOOL[source], src_path, str(offs[0]), str(offs[1])] + (["--name", TOOL_NAME[source]] if source in TOOL_NAME else [])
        if cmd and "expected" in d:
            rc2, out2, err2 = ctx.cli(cmd, timeout=60)
            det["cli_cmd"] = "garden " + " ".join(cmd[:1] + ["<file>"] + cmd[2:])
            det["cli_exit"] = rc2
            # reftest-* subcommands print the new source followed by a newline
            if out2 != d["expected"] and out2.rstrip("\n") != d["expected"].rstrip("\n"):
                raise Machinery(f"adapter drift: `{det['cli_cmd']}` prints a text different from the in-process function for {sig}: {out2[:120]!r} vs {d['expected'][:120]!r}")
        if "error" in d and source == "rename" and offs:
            # overlapping edits: reftest-lsp returned the same (overlapping) edit list (checked above)
            rc2, out2, err2 = ctx.cli(["reftest-rename", src_path, str(offs[0]), "--new-name", NEW_NAME], timeout=60)
            det["cli_cmd"] = f"garden reftest-rename <file> {offs[0]} --new-name {NEW_NAME}"
            det["cli_exit"] = rc2
            det["cli_confirmed"] = "reftest-lsp returns the same overlapping edits"
            ctx.cov["cli_confirmed"] += 1
        if "applied" in d and "expected" in d:
            det["cli_confirmed"] = "reftest-lsp returns the same edits; applied text != expected"
            ctx.cov["cli_confirmed"] += 1


def run(ctx):
    import time
    t0 = time.time()
    ndocs = part_a(ctx)
    print(f"  [c29] a {time.time()-t0:.1f}s", flush=True)
    t0 = time.time()
    nreq, nedits = part_b(ctx)
    print(f"  [c29] b {time.time()-t0:.1f}s", flush=True)
    return ("(a) every document of length <= bound over {a, é, €, 😀, CR, LF} (all %d of them) x every character-boundary offset through the real conversion functions; "
            "(b) %d requests (formatting, rename at every position, codeAction at every empty selection and every token/node span) over the document pool; "
            "non-trivial = documents with a multi-byte character in (a), requests that returned an edit which was applied and compared (%d) in (b)." % (ndocs, nreq, nedits))
