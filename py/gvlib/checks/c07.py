"""C07 resuming after a runtime error reproduces the same error."""
REG = dict(
    engine='E1-enum',
    technique='bounded-exhaustive enumeration of error sites (the C02 call grid plus user-call / syntax-form errors, in three contexts), each replayed as run + 3 x :resume on the real JSON-session handler',
    text="Every case of the C02 grid (every public built-in/prelude function and method x argument vectors over the 20-value pool, full product for <=2 positions and deviation-bounded beyond, arity n-1/n+1; every binary operator and +=/-= over pool x pool and over 10 operand pairs whose swap changes the outcome; the syntax forms x pool) plus user-function/closure/method arity and type errors, throw, assert, let hints, destructuring, match without a case, struct-literal errors, return-type errors, unknown variable/method/field and failing subexpressions with live siblings. A first pass (`run` job) keeps the cases that raise a Garden exception or assertion. Each is then sent to a fresh JSON session (real handle_request_in_worker on one Env) at top level, inside a called function and inside a block inside a loop, followed by three `:resume` requests with nothing changed (prefixes cover 1 and 2 resumes). Oracle: every resume response is an error with the same message text and the same position as the first one. Exhaustive within the pool and deviation bound.",
    note="Quick tier: deviation bound 1 and, per context, one representative per (callee, argument-kind vector, first-error class); thorough: every vector, deviation bound 2. `stack` text is not compared. The first response renders every assertion as 'Assertion failed' (json_session::err_to_response) whereas :resume renders the assertion's own message (eval_to_response): for assertions the reference message is the one the `run` job reports. Effectful built-ins run unsandboxed in a scratch directory (not the shell's run); read_line is excluded. One violation signature per (callee, first-error class, how the resumed error differs); argument-kind vectors, contexts and the index of the first differing resume are in the detail.",
    design_ref='DESIGN.md §6 C07',
)

import itertools, json, re
from ..core import Machinery
from .. import builtins as bi
from .c02 import OPS, NO_UNSANDBOXED, arg_vectors, call_src

TICKS = 50000
POOL_KIND = dict(bi.POOL)
CONTEXTS = ("top", "fun", "loop")

DEFS = ("struct Foo { f: Int, g: String }\nenum Col { Red, Cust(Int) }\nfun typed(x: Int): String { x }\n"
        "fun opt(x: Option<Int>): Int { match x { Some(i) => i None => 0 } }\n"
        "fun two(a: Int, b: String): Int { a }\nfun badret(x): Int { x }\nfun earlyret(x): Int { return x }\n"
        "fun nohint(x): NoSuchType { x }\nfun deep(x) { typed(x) }\nfun thrower(x) { throw(x) }\n"
        "method m(this: Foo, x: Int): Int { x }\nmethod badm(this: Foo, x): Int { x }\nfun badparam(x: NoSuchType) { x }\n")

# (name, statements) - {v} ranges over the pool. The last statement is the one that raises.
C02_FORMS = [
    "for x in {v} {{ println(string_repr(x)) }}", "let (a, b) = {v}\nprintln(string_repr(a))", "match {v} {{ Some(x) => 1 None => 2 }}", "match {v} {{ Ok(x) => 1 Err(e) => 2 }}",
    "match {v} {{ Red => 1 Cust(i) => i }}", "match {v} {{ Some((a, b)) => a _ => 0 }}", "let v = {v}\nv.f", "let v = {v}\nv()", "let v = {v}\nv(1)", "let v = {v}\nv(1, 2)", "let v = {v}\nv.nosuch()",
    "if {v} {{ 1 }} else {{ 2 }}", "while {v} {{ break }}", "assert({v})", "let v = {v}\nv::x", "Foo{{ f: {v}, g: {v} }}", "Foo{{ f: {v} }}", "Foo{{ f: 1, g: \"\", h: {v} }}", "throw({v})",
    "let x: Int = {v}\nx", "let x: List<Int> = {v}\nx", "let x: Fun<(Int), Int> = {v}\nx", "typed({v})", "opt({v})", "Dict[{v} => 1]", "[{v}, 1]", "Cust({v})", "Some({v})", "Red({v})",
    "let x = 1\nx = {v}\nx + 1", "try {{ throw({v}) }} catch (e) {{ 1 }}", "dbg({v})", "string_repr({v})", "let f = fun(a: Int): Int {{ a }}\nf({v})", "let f = fun(a) {{ a }}\nf({v}, {v})",
    "[1, 2].map({v})", "[1, 2].filter({v})", "assert({v} == {v})", "assert({v} < 1)", "let l = [{v}]\nl.contains({v})", "let d = Dict[\"a\" => {v}]\nd.get(\"a\")",
    "println({v})", "{v}.or_throw()", "{v}.or_value(1)"]
EXTRA_FORMS = [
    # user function / closure / method: arity and parameter types
    "two({v}, {v})", "two({v})", "two(1, \"\", {v})", "deep({v})", "thrower({v})", "let f = fun(a: String) {{ a }}\nf({v})", "let f = fun() {{ 1 }}\nf({v})",
    "Foo{{ f: 1, g: \"\" }}.m({v})", "Foo{{ f: 1, g: \"\" }}.m({v}, 1)", "Foo{{ f: 1, g: \"\" }}.m()", "Foo{{ f: 1, g: \"\" }}.badm({v})", "{v}.m(1)",
    # return types
    "badret({v})", "earlyret({v})", "nohint({v})", "badparam({v})", "let f = fun(a): String {{ a }}\nf({v})", "let f = fun(a): String {{ return a }}\nf({v})",
    # let hints / destructuring
    "let x: String = {v}", "let x: Option<Int> = {v}", "let x: (Int, Int) = {v}", "let x: NoSuchType = {v}", "let (a, b, c) = {v}", "let (a, b) = ({v}, 1, 2)", "for (a, b) in [{v}] {{ a }}", "for (a, b) in {v} {{ a }}",
    # match without a matching case
    "match Cust({v}) {{ Red => 1 }}", "match Some({v}) {{ None => 1 }}", "match {v} {{ None => 1 }}", "match {v} {{ True => 1 }}", "let r = Red\nmatch r {{ Cust(i) => {v} }}",
    # struct literals / fields
    "NoSuchStruct{{ f: {v} }}", "Foo{{ g: {v} }}", "Foo{{ f: 1, g: {v} }}.nosuch", "Foo{{ f: 1, g: {v} }}.nosuch()", "Col{{ f: {v} }}",
    # unknown names
    "nosuchvar", "nosuchfun({v})", "let v = {v}\nnosuchvar + v", "nosuchvar = {v}", "nosuchvar += {v}", "let v = {v}\nv.nosuch", "[{v}, nosuchvar]", "({v}, nosuchvar)", "println(nosuchvar)",
    # assert / throw shapes
    "assert({v} == 1)", "assert(1 == {v})", "assert({v} && True)", "assert(({v}))", "throw({v}, 1)", "throw()", "let v = {v}\nassert(v)",
    # enum constructors, nested failing subexpression with live siblings
    "Cust()", "Cust({v}, 1)", "Some()", "[1, typed({v}), 2]", "two(typed({v}), \"\")", "two(1, typed({v}))", "\"a\".len() + typed({v})", "typed({v}) + 1", "Dict[\"a\" => typed({v})]",
    "Dict[\"a\" => 1, {v} => 2]", "Foo{{ f: typed({v}), g: \"\" }}", "if typed({v}) {{ 1 }}", "let v = {v}\nif v {{ 1 }}", "let v = {v}\nwhile v {{ 1 }}", "{v}.len()", "return typed({v})",
]
TOP_ONLY_FORMS = ["test t {{ assert({v}) }}", "test t {{ typed({v}) }}"]


def kind_of(src):
    """Type tag of an argument's source text (pool tag, or by shape for the well-typed defaults)."""
    if src in POOL_KIND:
        return POOL_KIND[src]
    s = src.strip()
    for pre, k in (('"', "String"), ("[", "List"), ("fun", "Fun"), ("Some(", "Option"), ("None", "Option"), ("Ok(", "Result"), ("Err(", "Result"), ("Dict[", "Dict"),
                   ("(", "Tuple"), ("Path{", "Path"), ("True", "Bool"), ("False", "Bool"), ("Unit", "Unit"), ("ns", "Namespace")):
        if s.startswith(pre):
            return k
    return "Float" if "." in s else "Int"


def wrap(stmts, context):
    """Source of one `run` request: definitions, then the statements in the given context."""
    if context == "top":
        return "\n".join(stmts) + "\n"
    body = "\n".join("    " + s for s in stmts)
    if context == "fun":
        return "fun c07ctx() {\n" + body + "\n}\nc07ctx()\n"
    if context == "loop":
        # the trailing `0` keeps the loop from being the last top-level expression (which a session request used to only enter, not run)
        body = "\n".join("        " + s for s in stmts)
        return "for c07i in [1] {\n    if True {\n" + body + "\n    }\n}\n0\n"
    raise ValueError(context)


def cases(ctx, dev):
    """Yields (name, kinds, prefix, stmts, contexts, effectful). prefix = imports/definitions sent in the same request."""
    funs = [f for f in bi.load(ctx) if f["public"]]
    pool = [p for p, _ in bi.POOL]
    out = []
    for f in funs:
        if f["name"] in NO_UNSANDBOXED:
            continue
        hints = ([f["recv_hint"]] if f["kind"] == "method" else []) + [h for _, h in f["params"]]
        defaults = [bi.default_for(h) for h in hints]
        n = len(hints)
        name = ("method " + (f["recv_hint"][1] + "::" if f["recv_hint"] else "") if f["kind"] == "method" else "fun " + bi.NS[f["file"]]) + f["name"]
        vecs = set(arg_vectors(defaults, pool, full_upto=2, dev=dev))
        if n > (1 if f["kind"] == "method" else 0):
            vecs.add(tuple(defaults[:-1]))
        vecs.add(tuple(defaults + ["1"]))
        effectful = f["file"] in ("__fs.gdn", "__shell.gdn") or f["name"] in ("read_line", "exists", "info", "source_file", "built_in_files")
        prefix = bi.PRELUDE_PREFIX if (f["file"] != "__prelude.gdn" or any(v.startswith("ns") for v in defaults)) else ""
        for v in sorted(vecs):
            kinds = "(" + ", ".join(kind_of(a) for a in v) + ")"
            out.append((name, kinds, prefix, [call_src(f, list(v))], CONTEXTS, effectful))
    for op in OPS:
        for a in pool:
            for b in pool:
                a2 = f"({a})" if a.startswith("fun") else a
                out.append((f"operator {op}", f"({POOL_KIND[a]}, {POOL_KIND[b]})", "", [f"{a2} {op} {b}"], CONTEXTS, False))
    for u in ("+=", "-="):
        for a in pool:
            for b in pool:
                out.append((f"operator {u}", f"({POOL_KIND[a]}, {POOL_KIND[b]})", "", [f"let x = {a}", f"x {u} {b}"], CONTEXTS, False))
    # operand pairs whose swap changes the outcome (a resume that re-applies the operator to its operands in the other order
    # gives a value, or another error, instead of the same error): small with large, zero with non-zero, negative with positive
    ASYM = [("7", "40"), ("40", "7"), ("1", "0"), ("0", "1"), ("2", "-1"), ("-1", "2"), ("-7", "3"), ("3", "-7"), ("3", "9223372036854775807"), ("9223372036854775807", "3")]
    for op in ("+", "-", "*", "/", "%", "**", "<", "<="):
        for a, b in ASYM:
            out.append((f"operator {op}", f"(Int {a}, Int {b})", "", [f"{a} {op} {b}"], CONTEXTS, False))
    for op in ("+.", "-.", "*.", "/."):
        for a, b in (("7.0", "0.0"), ("0.0", "7.0"), ("1.5", "0.0")):
            out.append((f"operator {op}", f"(Float {a}, Float {b})", "", [f"{a} {op} {b}"], CONTEXTS, False))
    for u in ("+=", "-="):
        for a, b in ASYM[-2:]:
            out.append((f"operator {u}", f"(Int {a}, Int {b})", "", [f"let x = {a}", f"x {u} {b}"], CONTEXTS, False))
    seen_forms = set()
    for form, ctxs in [(f, CONTEXTS) for f in C02_FORMS + EXTRA_FORMS] + [(f, ("top",)) for f in TOP_ONLY_FORMS]:
        if form in seen_forms:
            raise Machinery(f"duplicate form {form}")
        seen_forms.add(form)
        label = "form " + re.sub(r"\s+", " ", form.replace("{{", "{").replace("}}", "}").replace("{v}", "_"))
        vals = pool if "{v}" in form else [None]
        for v in vals:
            if v is None:
                src, kinds = form.format(), "()"
            else:
                v2 = f"({v})" if (v.startswith("fun") or v.startswith("-")) and ("{v}." in form) else v
                src, kinds = form.format(v=v2), f"({POOL_KIND[v]})"
            out.append((label, kinds, DEFS, src.split("\n"), ctxs, False))
    return out, len(funs)


def norm_msg(msg):
    """Error-site class of a message: values, actual types and numbers blanked; the expected type of a type error kept."""
    msg = re.sub(r"\s+", " ", msg or "")
    m = re.match(r"^(.*?Expected `[^`]*` but )(?:`.*` has type `[^`]*`|got `.*`)(.*)$", msg)
    if m:
        msg = m.group(1) + "got …" + re.sub(r"`[^`]*`", "`…`", m.group(2))
    else:
        msg = re.sub(r"`[^`]*`", "`…`", msg)
        msg = re.sub(r"(, but got ).*$", r"\1…", msg)
    msg = re.sub(r"-?\d+", "N", msg)
    return msg[:90]


def parse_response(texts):
    """One request's captured response lines -> ('err', message, position) | ('ok', value) | ('other', text)."""
    ev = None
    for t in texts:
        try:
            j = json.loads(t)
        except ValueError:
            continue
        k = j.get("kind", {})
        if isinstance(k, dict) and "evaluate" in k:
            ev = k["evaluate"]
    if ev is None:
        return ("other", " ".join(texts)[:200], None)
    val = ev["value"]
    if "Err" in val:
        e = val["Err"][0]
        return ("err", e.get("message"), e.get("position"), ev.get("stack_frame_name"))
    return ("ok", val.get("Ok"), None, ev.get("stack_frame_name"))


def pos_key(p):
    if p is None:
        return None
    return (p.get("path"), p.get("start_offset"), p.get("end_offset"), p.get("line_number"))


def judge(result, assertion_msg=None):
    """Returns None if the session's first response is not an error, else (first, verdict, trace) where verdict is
    None (property holds) or (resume_index, how). `assertion_msg`: what EvalError::AssertionFailed carries for this case
    (from the `run` job); the first response renders every assertion as 'Assertion failed', :resume renders the message."""
    resp = result.get("responses", [])
    panic = result.get("panic")
    if not resp or (panic and panic["request"] == 0):
        return ("panic0", None, [])
    first = parse_response(resp[0])
    if first[0] != "err":
        return None
    trace = [first]
    ref_msg, ref_pos = first[1], pos_key(first[2])
    # a closure is displayed with the file and line it was written at, which differ between the `run` job and the contexts
    unclosure = (lambda m: re.sub(r"<closure [^>]*>", "<closure>", m)) if (ref_msg == "Assertion failed" and assertion_msg is not None) else (lambda m: m)
    if ref_msg == "Assertion failed" and assertion_msg is not None:
        ref_msg = unclosure(assertion_msg)
    verdict = None
    for i in (1, 2, 3):
        if panic and panic["request"] == i:
            trace.append(("panic", panic["message"]))
            verdict = verdict or (i, "panic")
            break
        if i >= len(resp):
            raise Machinery(f"session job returned {len(resp)} response groups and no panic")
        r = parse_response(resp[i])
        trace.append(r)
        if verdict:
            continue
        if r[0] == "ok":
            verdict = (i, "became-ok")
        elif r[0] != "err":
            verdict = (i, "no-evaluate-response")
        elif unclosure(r[1]) != ref_msg:
            verdict = (i, "message")
        elif pos_key(r[2]) != ref_pos:
            verdict = (i, "position")
    return (first, verdict, trace)


def run(ctx):
    dev = 1 if ctx.quick else 2
    allcases, nfuns = cases(ctx, dev)
    ctx.bound("value_pool", len(bi.POOL))
    ctx.bound("functions_and_methods", nfuns)
    ctx.bound("deviation_bound_for_arity>=3", dev)
    ctx.bound("syntax_forms", len(C02_FORMS) + len(EXTRA_FORMS) + len(TOP_ONLY_FORMS))
    ctx.bound("resumes_per_history", 3)
    ctx.bound("grid_cases", len(allcases))

    # ---- pass 1: which cases raise (plain `run` job, top-level shape, sandboxed; effectful ones that stop at the
    # sandbox check are re-run unsandboxed in the scratch directory, as C02 does - except the shell's `run`)
    def mkjob(c, sandbox):
        return {"op": "run", "src": c[2] + wrap(c[3], "top"), "tick_limit": TICKS, "sandbox": sandbox}
    jobs = [mkjob(c, True) for c in allcases]
    res = ctx.pool.map(jobs, batch=32, timeout=20)
    again = [i for i, (c, r) in enumerate(zip(allcases, res)) if c[5] and not c[0].endswith("::run") and r.get("outcome", {}).get("kind") == "sandbox"]
    for i, r in zip(again, ctx.pool.map([mkjob(allcases[i], False) for i in again], batch=32, timeout=20)):
        res[i] = r
    raising = []
    for c, job, r in zip(allcases, jobs, res):
        if "parse_errors" in r:
            raise Machinery(f"generated program does not parse: {job['src']!r}: {r['parse_errors'][0]['message']}")
        if "outcome" not in r:
            ctx.outcome("pass1:" + ("panic" if "panic" in r else "crash-or-timeout"))     # C02's business
            continue
        k = r["outcome"]["kind"]
        ctx.outcome("pass1:" + k)
        if k in ("exception", "assertion"):
            raising.append((c, norm_msg(r["outcome"].get("message", "")), r["outcome"].get("message") if k == "assertion" else None))
    if not raising or len(raising) == len(allcases):
        raise Machinery("vacuous: pass 1 did not split the grid into raising and non-raising cases")
    ctx.bound("raising_cases", len(raising))

    # ---- pass 2: sessions. Quick: one representative (first in enumeration order) per (callee, kind vector, error class, context)
    sess = []      # (case, context, src, assertion message)
    rep_seen = set()
    for c, m, amsg in raising:
        name, kinds, prefix, stmts, ctxs, eff = c
        for context in ctxs:
            if ctx.quick:
                rep = (name, kinds, m, context)
                if rep in rep_seen:
                    continue
                rep_seen.add(rep)
            sess.append((c, context, prefix + wrap(stmts, context), amsg))
    req = lambda s: json.dumps({"method": "run", "input": s})
    jobs = [{"op": "session", "tick_limit": TICKS, "requests": [req(src), req(":resume"), req(":resume"), req(":resume")]} for _, _, src, _ in sess]
    res = ctx.pool.map(jobs, batch=32, timeout=30)

    held = 0
    by_context = {c: 0 for c in CONTEXTS}
    classes = {}       # (callee, first error class, how) -> {by_context, kinds, n, example}
    for (c, context, src, amsg), r in zip(sess, res):
        name, kinds = c[0], c[1]
        if "responses" not in r:
            what = "worker-crash" if "crash" in r else "does-not-end"
            ctx.violation(f"{name}: {what} during run + 3 x :resume", {"kinds": kinds, "context": context, "requests": [src] + [":resume"] * 3, "result": r})
            ctx.outcome(what)
            continue
        j = judge(r, amsg)
        if j is None:
            ctx.outcome("session-first-response-not-an-error")
            continue
        first, verdict, trace = j
        if first == "panic0":
            ctx.outcome("panic-in-first-request")       # C02/C09's business, not a resume
            continue
        by_context[context] += 1
        ctx.outcome("first-error:assertion" if first[1] == "Assertion failed" else "first-error:exception")
        if verdict is None:
            held += 1
            ctx.outcome("resume x3 identical")
            if held in (1, 500):
                ctx.sample({"context": context, "requests": [src] + [":resume"] * 3, "every_response": {"message": first[1], "position": first[2]}})
            continue
        i, how = verdict
        ctx.outcome(f"resume {i}: {how}")
        if how == "panic":
            how = "panic: " + re.sub(r"\d+", "N", trace[-1][1].split(" @ ")[0])[:70]
        cl = classes.setdefault((name, norm_msg(first[1]), how), {"by_context": {}, "kinds": set(), "n": 0, "example": None})
        cl["by_context"].setdefault(context, set()).add(i)
        cl["kinds"].add(kinds)
        cl["n"] += 1
        if cl["example"] is None:
            cl["example"] = {"context": context, "kinds": kinds, "requests": [src, ":resume", ":resume", ":resume"],
                             "responses": [{"kind": t[0], "message": t[1], "position": (t[2] if len(t) > 2 else None)} for t in trace]}
    n = sum(by_context.values())
    if n == 0 or held == 0:
        raise Machinery("vacuous: no session reproduced an error, or no resume ever reproduced it")
    if min(by_context.values()) * 20 < max(by_context.values()):
        raise Machinery(f"vacuous: a context hardly ever reproduces the error: {by_context}")

    # ---- one violation per (callee, error-site class, how the resumed error differs). The argument-kind vectors, the contexts
    # and the index of the first differing resume are aggregated in the detail: a signature per kind vector x context gave
    # >2600 classes for what are ~70 faulty error sites.
    confirm = []
    for (name, m, how), cl in sorted(classes.items()):
        sig = f"{name} [{m}]: :resume differs ({how})"
        detail = dict(cl["example"], kind_vectors=sorted(cl["kinds"])[:40], n_kind_vectors=len(cl["kinds"]), instances=cl["n"],
                      first_differing_resume_by_context={c: sorted(v) for c, v in sorted(cl["by_context"].items())})
        ctx.violation(sig, detail, cli_cmd="garden reftest-json-session <file with one {\"method\":\"run\",\"input\":REQUEST} line per entry of detail.requests>")
        ctx.violations[sig]["count"] = cl["n"]
        confirm.append((sig, detail))
    # ---- confirm through the real CLI (`garden reftest-json-session`): first 12 classes, simplest first
    for sig, detail in confirm[:: max(1, len(confirm) // 12)][:12]:
        path = ctx.tmpfile("confirm.jsonl", "".join(req(s) + "\n" for s in detail["requests"]))
        rc, out, err = ctx.cli(["reftest-json-session", path], stdin=b"", timeout=60)
        got = []
        dec, k = json.JSONDecoder(), 0
        while k < len(out):
            if out[k].isspace():
                k += 1
                continue
            try:
                obj, k = dec.raw_decode(out, k)
            except ValueError:
                break
            ev = obj.get("kind", {}).get("evaluate") if isinstance(obj.get("kind"), dict) else None
            if ev is not None:
                e = ev["value"].get("Err")
                got.append(("err", e[0].get("message"), pos_key(e[0].get("position"))) if e else ("ok", ev["value"].get("Ok"), None))
        want = [(t["kind"], t["message"], pos_key(t["position"])) for t in detail["responses"] if t["kind"] != "panic"]
        panicked = any(t["kind"] == "panic" for t in detail["responses"])
        if got[:len(want)] != want or (panicked and rc != 101) or (not panicked and rc != 0):
            raise Machinery(f"adapter drift: `reftest-json-session` (exit {rc}) disagrees with the in-process session for {sig}: {got} vs {want}")
        ctx.cov["cli_confirmed"] += 1

    for c, k in by_context.items():
        ctx.bound(f"error_histories_in_{c}", k)
    ctx.add(states=n, transitions=4 * n + len(allcases) + len(again), nontrivial=n)
    return ("C02 grid (every public built-in/prelude function and method x argument vectors over the 20-value pool, full product for <=2 positions, else deviation-bounded; arity n-1/n+1; "
            "every operator and +=/-= over pool x pool) plus the syntax forms x pool; a `run` job keeps the cases that raise an exception or assertion; each "
            + ("class representative (callee, argument-kind vector, error class) " if ctx.quick else "") +
            "is sent to a fresh JSON session at top level, inside a called function, inside a block inside a loop, followed by 3 x `:resume`. Oracle: each resume is an error with "
            "the message and position of the first. Non-trivial = a history whose first response is a runtime error (all counted states).")
