"""C16 programs that pass `check` raise no runtime type errors."""
REG = dict(   # rename to REG once the findings below are triaged (fixed in /repo or listed in known_findings.json)
    engine='E1-enum',
    technique='bounded-exhaustive enumeration of fully annotated programs of a typed grammar and of every single-point mutation of each (deviation bound 1, 2 for small programs), real `check` then real interpreter',
    text=("Base programs: fixed prefix (user enum Color, user struct Pt) + one function f with <=2 parameters over {Int, String, Bool, List<Int>, "
          "Option<Int>, Color, Pt} whose body is one of 84 typed templates (arithmetic/comparison/equality/logic/concat operators, String/List/Option methods, "
          "match on Option/enum incl. wildcard, field access, struct and list literals, if, let with and without annotation, for loop with assignment, explicit early `return` (in an if, a match arm, a for and a while body, bare in a Unit function, and inside annotated closures bound by let or passed to map/filter), closures "
          "passed to map/filter, calls to a second user function, to built-ins and to constructors) + a main part calling f with two well-typed literal argument "
          "vectors. Depth 2 = one slot of a template expanded by every expression template of the slot's type. "
          "Mutants = EVERY single-point edit of each base program: each subexpression replaced by each of 19 literal alternatives (every grammar type, wrong-payload "
          "Option/List, empty list, tuple, closure, constructor, Float, Unit, throw) and by every name in scope, an unbound name and the function names; operator, "
          "callee, method name (17), field name, struct field/type name, pattern (11) and every annotation (10) replaced; an argument / parameter / struct field / "
          "closure parameter dropped or added; a match arm or an else dropped; a returned value dropped or added; binders renamed. Plus, for every binder whose scope ends before the function body does (for variable, let inside an if/else/match-arm/for/while block, match payload, closure parameter, parameter of the other function), a reference to the bound name in a later statement of the function (variable referenced out of scope). Plus 99 frame-boundary programs: a local variable of the top level (plain, annotated, defined later, inside a top-level block) used in nine positions of a function or method body, which runs in a frame of its own; and 72 programs reading a field whose hint is a type parameter of its struct from a receiver with a known type argument, used at its own and at every other type of a small pool; and 42 programs with tuple patterns in `let`, `for` and match payloads against tuple types of the same and of another size. "
          "quick: depth 1 (canonical parameter fill) with all edits + depth 2 for one outer context per (inner template, role of the slot) with all edits inside "
          "the expanded slot (11-literal alphabet): ~46k programs. thorough: depth 1 with every parameter/literal fill and depth 2 for every outer context, all "
          "edits (~395k), plus every PAIR of disjoint edits (11-literal alphabet, leaves only) of the 84 depth-1 programs (~393k): deviation bound 2. "
          "Each program goes through the code path of `garden check`; programs with no error and no type-related warning are run (tick limit 50000). "
          "Oracle: the run does not end in an exception whose message matches one of the type-related templates of src/eval.rs "
          "(wrong type, arity, unbound variable, unknown method/field/type, non-exhaustive or ill-formed match). Exhaustive within these bounds; "
          "an enumeration at this level is what relates the checker's rules to the interpreter's runtime checks, which no reftest does."),
    note=("'check reports no errors' is read strictly: no diagnostic of severity error AND no warning other than the listed lints (unused, never called, "
          "unnecessary let, ...); programs whose only type-related report is a warning (comparing values of different types) count as reported, are tallied "
          "separately and are never flagged. Annotations range over the core types only (no `Any`, no type parameters: gradual typing makes the property "
          "trivially false there). Every runtime message is classified by an explicit template table; an unclassified message is a machinery error, not a pass. "
          "Value-level exceptions (division by zero, or_throw on None, substring range, throw, tick/stack limit) are not violations. A well-typed base program "
          "that check rejects (checker incompleteness) is counted, not flagged. Signature = mutation class (syntactic category, role of the mutated node, type "
          "family before→after) + runtime error class; one checker defect can surface under several signatures. "
          "Not covered: programs deeper than depth 2, while loops, user generics, user-defined methods, imports, tests."),
    design_ref='DESIGN.md §6 C16',
)
LEVEL = "model_checking"

import collections, hashlib, json, re
from ..core import Machinery
from .. import typedgen as tg

TICKS = 50000

# ---------------------------------------------------------------- classification of runtime messages (templates of src/eval.rs)
TYPE_CLASSES = [
    ("wrong-type", re.compile(r"^Expected `[^`]*` but (`.*` has type `.*`|got `Unit`)\.", re.S)),
    ("wrong-type", re.compile(r"^Incorrect type for field: ")),
    ("arity", re.compile(r"^Function .* requires \d+ arguments?, but got \d+")),
    ("arity", re.compile(r"^Closure expects \d+ arguments?, but got \d+")),
    ("arity", re.compile(r"^Expected a tuple (with|of) \d+ items")),
    ("unbound-variable", re.compile(r"^No such variable `")),
    ("unbound-variable", re.compile(r" is not currently bound\. ")),
    ("unknown-method", re.compile(r"^`.*` has type `.*` which has no method named `", re.S)),
    ("unknown-method", re.compile(r"^No methods defined on `")),
    ("unknown-field", re.compile(r"^This struct has no field named `")),
    ("unknown-field", re.compile(r"^`[^`]*` does not have a field named `")),
    ("unknown-field", re.compile(r"^Missing fields from `")),
    ("unknown-type", re.compile(r"^No type exists named `")),
    ("unknown-type", re.compile(r"^`[^`]*` is not a struct, so it cannot be initialized")),
    ("unknown-type", re.compile(r"^Unbound type in hint: ")),
    ("unknown-type", re.compile(r"^Could not find an enum type named ")),
    ("match-not-exhaustive", re.compile(r"^No cases in this `match` statement were reached\.")),
    ("match-on-non-enum", re.compile(r"^Expected an enum value, but got ")),
    ("match-bad-pattern", re.compile(r"^Expected an enum variant named `")),
    ("match-bad-pattern", re.compile(r"^Patterns must be enum variants, got ")),
    ("unknown-namespace-member", re.compile(r"^Namespace .* does not contain a function named ")),
    ("unknown-namespace-member", re.compile(r" is not marked as ")),
    ("invalid-syntax", re.compile(r"^Tried to evaluate a syntactically invalid expression")),
]
VALUE_CLASSES = [
    ("division-by-zero", re.compile(r"^Tried to (divide .* by zero|calculate the remainder of dividing .* by zero)\.")),
    ("integer-overflow", re.compile(r"^Integer overflow ")),
    ("negative-power", re.compile(r"^Cannot raise an integer to a negative power")),
    ("or_throw-on-None", re.compile(r"^Called `or_throw` on a `None` value\.")),
    ("substring-range", re.compile(r"^The first argument (to|\(-?\d+\) to) ")),
    ("user-throw", re.compile(r"^boom$")),
]

# diagnostics of severity "warning" that do not concern types (lints); ANY other warning makes the program "reported"
LINT_WARNINGS = [re.compile(p) for p in (
    r"^`[^`]*` is unused\.", r"^`[^`]*` is never called\.", r"^Unnecessary `let`, this value is immediately returned\.",
    r"^`[^`]*` is only used in recursion, so is effectively unused\.", r"^Both sides of `[^`]*` are identical\.",
    r"^Function `[^`]*` calls itself on every code path, which will cause infinite recursion\.",
    r"^`[^`]*` cases after `_` are never executed\.", r"^All code paths in `[^`]*` return the same value `[^`]*`\.",
    r"^This expression has already appeared in this `[^`]*` chain\.", r"^This `_` case matches everything\.",
    r"^`[^`]*` is assigned to itself\.", r"^Unused value\.", r"^Unreachable code after `while` loop which never terminates\.",
)]


def classify_exception(msg):
    for name, rx in TYPE_CLASSES:
        if rx.search(msg):
            return "type", name
    for name, rx in VALUE_CLASSES:
        if rx.search(msg):
            return "value", name
    return "unknown", norm(msg)


def norm(msg):
    msg = re.sub(r"`[^`]*`", "`…`", msg)
    msg = re.sub(r"-?\d+", "N", msg)
    return msg[:100]


def is_lint(msg):
    return any(rx.search(msg) for rx in LINT_WARNINGS)


def key_of(src):
    return hashlib.blake2b(src.encode(), digest_size=10).digest()


def second_call_only(src):
    """The program with the same definitions and only the second main call (None when there is just one)."""
    head, tail = src.rstrip("\n").rsplit("\n\n", 1)
    lines = tail.split("\n")
    if len(lines) != 2:
        return None
    return head + "\n\n" + lines[1] + "\n"


class Explorer:
    def __init__(self, ctx):
        self.ctx = ctx
        self.seen = set()
        self.n = collections.Counter()
        self.verdict = {}          # key -> ("rejected"|"warned"|"ok"|"value"|"type:<class>"|...) for programs whose verdict is needed later
        self.keep_verdicts = False
        self.unknown = collections.Counter()
        self.warn_kinds = collections.Counter()
        self.samples = {}
        self.rejected_bases = []

    def fresh(self, items):
        """Drop programs already explored (same text)."""
        out = []
        for it in items:
            k = key_of(it["src"])
            if k in self.seen:
                self.n["duplicate text (explored once)"] += 1
                continue
            self.seen.add(k)
            it["key"] = k
            out.append(it)
        return out

    def process(self, items, followup=True):
        """items: dicts with src, label, fine, base, kind ('base'|'mutant'|'pair'), in_main. Check all, run the accepted ones, classify."""
        ctx = self.ctx
        items = self.fresh(items)
        if not items:
            return
        res = ctx.pool.map([{"op": "front", "src": it["src"], "want": ["check"]} for it in items], batch=32, timeout=30)
        torun = []
        for it, r in zip(items, res):
            self.n["programs"] += 1
            self.n["kind " + it["kind"]] += 1
            if "diagnostics" not in r:
                if r.get("parse_errors"):
                    # e.g. two parameters renamed to the same name: a syntax error is an error `check` reports
                    if it["kind"] == "base":
                        raise Machinery(f"base program does not parse ({it['base']}): {r['parse_errors'][0]['message']}\n{it['src']}")
                    ctx.outcome("check: rejected (syntax error: " + norm(r["parse_errors"][0]["message"]) + ")")
                    self.n["mutants that do not parse"] += 1
                    self.setv(it, "rejected")
                    continue
                if "timeout" in r or "crash" in r or "panic" in r:
                    # not this property's subject (C01/C02); never a verdict here
                    ctx.outcome("check: worker " + ("timeout" if "timeout" in r else "crash/panic") + " (no verdict)")
                    self.setv(it, "rejected")
                    continue
                raise Machinery(f"check job gave no diagnostics: {r}")
            errs = [d for d in r["diagnostics"] if d["severity"] == "error"]
            warns = [d for d in r["diagnostics"] if d["severity"] != "error"]
            for d in warns:
                self.warn_kinds[norm(d["message"])] += 1
            if errs:
                ctx.outcome("check: rejected (error diagnostic)")
                self.setv(it, "rejected")
                if it["kind"] == "base":
                    # a well-typed program the (incomplete) checker rejects: not this property's subject; counted, bounded below
                    self.n["base programs rejected by check (checker incompleteness, not flagged)"] += 1
                    self.rejected_bases.append((it["base"], errs[0]["message"]))
                    continue
                self.samples.setdefault("rejected", {"mutation": it["fine"], "src": it["src"], "check": errs[0]["message"]})
                continue
            tw = [d for d in warns if not is_lint(d["message"])]
            it["type_warnings"] = [d["message"] for d in tw]
            it["lint"] = [d["message"] for d in warns if is_lint(d["message"])]
            if tw:
                if it["kind"] == "base":
                    raise Machinery(f"base program {it['base']} gets a type-related warning: {tw[0]['message']}\n{it['src']}")
                ctx.outcome("check: type-related warning only (counts as reported)")
            else:
                ctx.outcome("check: accepted" + (" with lint warnings" if warns else ""))
            torun.append(it)
        rres = ctx.pool.map([{"op": "run", "src": it["src"], "tick_limit": TICKS} for it in torun], batch=32, timeout=40)
        more = []
        for it, r in zip(torun, rres):
            warned = bool(it["type_warnings"])
            pre = "run of warned program: " if warned else "run: "
            self.n["executions"] += 1
            if not warned:
                self.n["accepted"] += 1
            if "outcome" not in r:
                if "parse_errors" in r:
                    raise Machinery(f"run job reports parse errors for a program check parsed: {it['src']}")
                ctx.outcome(pre + ("timeout" if "timeout" in r else "panic/crash") + " (no verdict; C02's subject)")
                self.setv(it, "warned" if warned else "other")
                continue
            o = r["outcome"]
            kind = o["kind"]
            if kind != "exception":
                ctx.outcome(pre + kind)
                self.setv(it, "warned" if warned else kind)
                if kind == "ok" and not warned and it["kind"] != "base":
                    self.samples.setdefault("accepted-ok", {"mutation": it["fine"], "src": it["src"], "values": r.get("values")})
                if kind == "assertion" and followup:
                    more.append(it)
                continue
            ek, cls = classify_exception(o.get("message", ""))
            if ek == "unknown":
                self.unknown[cls] += 1
                self.setv(it, "other")
                continue
            if ek == "value":
                ctx.outcome(pre + "value-level exception " + cls)
                self.setv(it, "warned" if warned else "value")
                if not warned:
                    self.n["accepted, raised value-level exception"] += 1
                    self.samples.setdefault("accepted-value-exception", {"mutation": it["fine"], "src": it["src"], "exception": o["message"]})
                if followup:
                    more.append(it)
                continue
            # type-related runtime error
            if warned:
                ctx.outcome(pre + "TYPE ERROR " + cls + " (check had warned: not a violation)")
                self.setv(it, "warned")
                continue
            if it["kind"] == "base":
                raise Machinery(f"base program {it['base']} of the typed grammar raises a type error: {o['message']}\n{it['src']}")
            ctx.outcome(pre + "TYPE ERROR " + cls)
            self.setv(it, "type:" + cls)
            self.report(it, cls, o["message"])
        if more:
            fu = []
            for it in more:
                if it["in_main"]:
                    continue      # the edit was in the first call: the remainder is an unmutated program
                s2 = second_call_only(it["src"])
                if s2 is not None:
                    fu.append(dict(it, src=s2, kind=it["kind"], followup=True))
            self.n["follow-up programs (second call only, after a value-level exception in the first)"] += len(fu)
            self.process(fu, followup=False)

    def setv(self, it, v):
        if self.keep_verdicts:
            self.verdict[it["key"]] = v

    def report(self, it, cls, message):
        ctx = self.ctx
        label = it["label"]
        if it["kind"] == "pair":
            # a pair whose violation is already produced by one of its two edits alone is an instance of that finding
            for single_label, single_key in it["singles"]:
                if self.verdict.get(single_key) == "type:" + cls:
                    label = single_label
                    self.n["pair violations subsumed by a single edit"] += 1
                    break
            else:
                label = "pair: " + label
        sig = f"{label} => {cls}"
        detail = {"src": it["src"], "base": it["base"], "mutation": it["fine"], "runtime_error": message, "lint_warnings": it.get("lint", [])}
        if sig not in ctx.violations:
            self.confirm(it, cls, detail)
            print(f"[C16] new signature: {sig}   ({it['fine']} of {it['base']})", flush=True)
        ctx.violation(sig, detail, cli_cmd="garden check <file with src>   # no error, no type warning;   garden run <file with src>   # raises the runtime error")

    def confirm(self, it, cls, detail):
        """Re-run through the real CLI: `garden check --json` must report nothing type-related, `garden run` must print the error."""
        ctx = self.ctx
        path = ctx.tmpfile("confirm.gdn", it["src"])
        rc, out, err = ctx.cli(["check", "--json", path], timeout=60)
        diags = []
        for line in out.split("\n"):
            line = line.strip()
            if line.startswith("{"):
                diags.append(json.loads(line))
        bad = [d for d in diags if d["severity"] == "error" or not is_lint(d["message"])]
        rc2, out2, err2 = ctx.cli(["run", path], timeout=60)
        first = (err2 + out2)
        ek = None
        for line in first.split("\n"):
            if line.startswith("Exception: "):
                ek = classify_exception(line[len("Exception: "):])
                break
        detail["cli_check_exit"] = rc
        detail["cli_check_diagnostics"] = [d["message"] for d in diags]
        detail["cli_run_first_lines"] = first[:300]
        if bad or ek != ("type", cls):
            raise Machinery(f"adapter drift: in-process verdict not reproduced by the CLI (check: {bad}, run: {first[:200]!r})\n{it['src']}")
        ctx.cov["cli_confirmed"] += 1


def item(prog, bname, kind="base", label="base", fine="base", in_main=False):
    return {"src": tg.src_prog(prog), "label": label, "fine": fine, "base": bname, "kind": kind, "in_main": in_main}


def mutants(prog, bname, **kw):
    for path, label, repl, fine in tg.Edits(prog, **kw).out:
        yield item(tg.apply_edit(prog, path, repl), bname, "mutant", label, fine, in_main=(path[0] == 2))


def frame_boundary_items():
    """Local variables of the top level referenced from bodies that run in a frame of their own. A function, method or closure-in-function
    body cannot see a `let` of the enclosing file at run time ("No such variable"), so an accepted program must not contain such a use."""
    uses = [("result", "g"), ("operand", "a + g"), ("if branch", "if a > 0 { g } else { 0 }"), ("argument", "max(a, g)"),
            ("closure inside the body", "let h = fun(): Int { g }\n  h()"), ("list item", "[g, a].len()"), ("let value", "let b: Int = g\n  b + a"),
            ("loop body", "let t = 0\n  for i in [a] { t = t + g }\n  t"), ("assignment target", "g = a\n  a")]
    tops = [("let", "let g = 1\n"), ("annotated let", "let g: Int = 1\n"), ("let after the definition", None), ("let in a top-level block", "{\n  let g = 1\n}\n"),
            ("two lets", "let g = 1\nlet g2 = g\n")]
    for tl, top in tops:
        for ul, use in uses:
            for owner in ("function", "method"):
                if owner == "function":
                    d = f"fun f(a: Int): Int {{\n  {use}\n}}\n"
                    call = "println(string_repr(f(2)))\n"
                else:
                    d = f"method m(this: Int, a: Int): Int {{\n  {use}\n}}\n"
                    call = "println(string_repr(3.m(2)))\n"
                src = (d + "let g = 1\n" + call) if top is None else (top + d + call)
                label = f"top-level local referenced from a {owner} body ({tl}; {ul})"
                yield {"src": src, "label": f"top-level local referenced from a {owner} body", "fine": label, "base": "frame-boundary", "kind": "mutant", "in_main": False}
    # the same uses with the variable as a parameter: accepted and fine (the family is not vacuous)
    for ul, use in uses:
        yield {"src": f"fun f(a: Int, g: Int): Int {{\n  {use}\n}}\nprintln(string_repr(f(2, 1)))\n", "label": "frame boundary control", "fine": f"control ({ul})",
               "base": "frame-boundary", "kind": "mutant", "in_main": False}


def generic_field_items():
    """A field whose hint is a type parameter of its struct, read from a receiver with a known type argument and used where another
    type is required (and, as controls, where its own type is required)."""
    args = [("Int", "1"), ("String", '"s"'), ("List<Int>", "[1]"), ("Option<Int>", "Some(1)")]
    uses = [("Int", "b.v + 1"), ("String", 'b.v ^ "x"'), ("Int", "let w: Int = b.v\n  w"), ("String", "let w: String = b.v\n  w"),
            ("Int", "takes_int(b.v)"), ("List<Int>", "b.v.len()"), ("Option<Int>", "b.v.or_value(0)"), ("Int", "[b.v, 2].len()"),
            ("String", 'if True { b.v } else { "t" }')]
    ret = {"b.v + 1": "Int", 'b.v ^ "x"': "String", "let w: Int = b.v\n  w": "Int", "let w: String = b.v\n  w": "String", "takes_int(b.v)": "Int",
           "b.v.len()": "Int", "b.v.or_value(0)": "Int", "[b.v, 2].len()": "Int", 'if True { b.v } else { "t" }': "String"}
    for shape, decl, lit in (("one parameter", "struct Bx<T> { v: T }", "Bx{{ v: {x} }}", ), ("second of two parameters", "struct Bx<S, T> { u: S, v: T }", "Bx{{ u: True, v: {x} }}")):
        for aty, alit in args:
            for need, use in uses:
                hint = f"Bx<{aty}>" if shape == "one parameter" else f"Bx<Bool, {aty}>"
                src = f"{decl}\nfun takes_int(i: Int): Int {{ i }}\nfun g(b: {hint}): {ret[use]} {{\n  {use}\n}}\nprintln(string_repr(g({lit.format(x=alit)})))\n"
                kind = "control" if need == aty else "misuse"
                yield {"src": src, "label": f"field of a generic struct ({shape}) used at another type" if kind == "misuse" else "generic field control",
                       "fine": f"generic field {shape}: {aty} used as {need} in `{use.splitlines()[0]}`", "base": "generic-field", "kind": "mutant", "in_main": False}


def destructuring_items():
    """Tuple patterns in `let`, `for` and match payloads against tuple types of the same and of another size, and a component used at its
    own and at another type."""
    tys = {2: ("(Int, String)", '(1, "s")'), 3: ("(Int, String, Int)", '(1, "s", 2)')}
    pats = {2: ("(a, b)", ["a + 1", 'b ^ "x"', 'a ^ "x"', "b + 1"]), 3: ("(a, b, c)", ["a + c", 'b ^ "x"', 'c ^ "x"'])}
    for tn, (ty, lit) in tys.items():
        for pn, (pat, uses) in pats.items():
            for use in uses:
                ret = "String" if "^" in use else "Int"
                dflt = '"n"' if ret == "String" else "0"
                forms = {
                    "let": f"fun g(t: {ty}): {ret} {{\n  let {pat} = t\n  {use}\n}}\nprintln(string_repr(g({lit})))\n",
                    "for": f"fun g(rows: List<{ty}>): {ret} {{\n  for {pat} in rows {{\n    return {use}\n  }}\n  {dflt}\n}}\nprintln(string_repr(g([{lit}])))\n",
                    "match payload": f"fun g(o: Option<{ty}>): {ret} {{\n  match o {{\n    Some({pat}) => {use}\n    None => {dflt}\n  }}\n}}\nprintln(string_repr(g(Some({lit}))))\n",
                }
                for binder, src in forms.items():
                    ok_size = tn == pn
                    ok_use = (use in ("a + 1", "a + c", 'b ^ "x"'))
                    kind = "control" if ok_size and ok_use else ("tuple pattern of another size" if not ok_size else "tuple component used at another type")
                    yield {"src": src, "label": f"{binder} destructuring: {kind}" if kind != "control" else "destructuring control",
                           "fine": f"{binder} {pat} against {ty}, then `{use}`", "base": "destructuring", "kind": "mutant", "in_main": False}


def chunks(it, n):
    buf = []
    for x in it:
        buf.append(x)
        if len(buf) >= n:
            yield buf
            buf = []
    if buf:
        yield buf


def run(ctx):
    quick = ctx.quick
    ex = Explorer(ctx)
    depth1 = list(tg.base_programs(False, not quick))
    depth2 = [b for b in tg.base_programs(True, False) if b[2] is not None]
    if quick:
        seen, sel = set(), []
        for b in depth2:
            # contexts that reach the same checker rule share one representative (thorough covers them all)
            role = {"result of else branch": "result of if branch", "argument of builtin fun": "argument of user fun",
                    "argument of closure variable": "argument of user fun", "operand of comparison operator": "operand of arithmetic operator"}.get(role := tg.slot_role(b[1], b[2]), role)
            if (b[3], role) not in seen:
                seen.add((b[3], role))
                sel.append(b)
        depth2 = sel
    ctx.bound("templates", len(tg.TEMPLATES))
    ctx.bound("template_depth", 2)
    ctx.bound("depth1_base_programs", len(depth1))
    ctx.bound("depth2_base_programs", len(depth2))
    ctx.bound("depth2_outer_contexts", "one per (inner template, role of the expanded slot); edits inside the expanded slot" if quick else "all; all edits")
    ctx.bound("parameter_fills", "canonical (first two slots are parameters)" if quick else "every subset of <=2 slots as parameters + shared parameter")
    ctx.bound("expression_alternatives", f"{len(tg.EXPR_ALTS)} literals + names in scope" + (f" ({len(tg.EXPR_ALTS_SMALL)} literals inside depth-2 slots)" if quick else ""))
    ctx.bound("annotation_alternatives", len(tg.HINT_ALTS))
    ctx.bound("pattern_alternatives", len(tg.PAT_ALTS))
    ctx.bound("method_name_alternatives", len(tg.METHOD_ALTS))
    ctx.bound("deviation_bound", 1 if quick else "1 everywhere; 2 on depth-1 programs (reduced alphabet)")
    ctx.bound("tick_limit", TICKS)

    # 1. base programs: all must be accepted and must not raise a type error (else the grammar is wrong -> machinery)
    ex.process([item(p, n) for n, p, _, _ in depth1 + depth2])
    n_base = ex.n["programs"]
    if len(ex.rejected_bases) * 4 > n_base:     # a few are checker incompleteness (or a checker change); most of them would be grammar drift
        raise Machinery(f"{len(ex.rejected_bases)} of {n_base} base programs of the typed grammar are rejected by check (grammar drift?): {ex.rejected_bases[:3]}")
    ctx.cov["base_programs_rejected_by_check"] = ex.rejected_bases
    # 2. single-point mutants
    ex.keep_verdicts = not quick          # singles of depth-1 programs are consulted by the pair phase
    ex.process([m for n, p, _, _ in depth1 for m in mutants(p, n)])
    ex.keep_verdicts = False

    def d2():
        for n, p, ip, _ in depth2:
            if quick:
                yield from mutants(p, n, only_under=ip, small=True)
            else:
                yield from mutants(p, n)
    for ch in chunks(d2(), 40000):
        ex.process(ch)
        print(f"[C16] depth 2: {ex.n['programs']} programs so far", flush=True)
    before = ex.n["programs"], ex.n["accepted"]
    ex.process(list(frame_boundary_items()))
    ctx.bound("frame_boundary_programs", ex.n["programs"] - before[0])
    if ex.n["accepted"] - before[1] < 5 and not ctx.violations:
        raise Machinery("vacuous: the frame-boundary controls are not accepted by check")
    before = ex.n["programs"], ex.n["accepted"]
    ex.process(list(generic_field_items()))
    ctx.bound("generic_field_programs", ex.n["programs"] - before[0])
    if ex.n["accepted"] - before[1] < 5 and not ctx.violations:
        raise Machinery("vacuous: the generic-field controls are not accepted by check")
    before = ex.n["programs"], ex.n["accepted"]
    ex.process(list(destructuring_items()))
    ctx.bound("destructuring_programs", ex.n["programs"] - before[0])
    if ex.n["accepted"] - before[1] < 5 and not ctx.violations:
        raise Machinery("vacuous: the destructuring controls are not accepted by check")
    n_single = ex.n["programs"] - n_base
    # 3. thorough: every pair of disjoint edits of the depth-1 canonical programs, reduced alphabet
    n_pairs = 0
    if not quick:
        def pairs():
            for n, p, _, _ in tg.base_programs(False, False):
                E = tg.Edits(p, small=True, compound=False).out
                keys = [key_of(tg.src_prog(tg.apply_edit(p, e[0], e[2]))) for e in E]
                for i in range(len(E)):
                    for j in range(i + 1, len(E)):
                        if not tg.disjoint(E[i][0], E[j][0]):
                            continue
                        q = tg.apply_edit(tg.apply_edit(p, E[i][0], E[i][2]), E[j][0], E[j][2])
                        la, lb = sorted([E[i][1], E[j][1]])
                        it = item(q, n, "pair", f"{la} + {lb}", f"{E[i][3]} + {E[j][3]}", in_main=(E[i][0][0] == 2 or E[j][0][0] == 2))
                        it["singles"] = [(E[i][1], keys[i]), (E[j][1], keys[j])]
                        yield it
        for ch in chunks(pairs(), 40000):
            before = ex.n["programs"]
            ex.process(ch)
            n_pairs += ex.n["programs"] - before
            print(f"[C16] pairs: {n_pairs} so far", flush=True)

    if ex.unknown:
        raise Machinery("unclassified runtime messages (extend the template table): " + "; ".join(f"{m} x{c}" for m, c in ex.unknown.most_common(8)))
    oc = ctx.cov["outcomes"]
    rejected = oc.get("check: rejected (error diagnostic)", 0)
    accepted = ex.n["accepted"]
    value_exc = ex.n["accepted, raised value-level exception"]
    if ex.n["mutants that do not parse"] * 100 > ex.n["programs"]:
        raise Machinery(f"{ex.n['mutants that do not parse']} of {ex.n['programs']} generated programs do not parse")
    if rejected < 1000 or accepted < 1000 or value_exc < 20:
        raise Machinery(f"vacuous exploration: rejected={rejected} accepted={accepted} accepted-with-value-level-exception={value_exc}")
    ctx.cov["counts"] = {k: ex.n[k] for k in sorted(ex.n)}
    ctx.cov["lint_warning_kinds_seen"] = dict(ex.warn_kinds.most_common())
    ctx.add(states=ex.n["programs"], transitions=ex.n["programs"] + ex.n["executions"], nontrivial=accepted)
    for k in ("accepted-ok", "accepted-value-exception", "rejected"):
        if k in ex.samples:
            ctx.sample(dict(ex.samples[k], kind=k))
    ctx.assume("a program is 'accepted' when check reports no error-severity diagnostic and no warning other than the listed lints; "
               "programs with a type-related warning only are tallied separately and never flagged")
    ctx.assume("the runtime message classifier (type-related vs value-level) is the explicit template table in c16.py, taken from src/eval.rs and src/__prelude.gdn; "
               "an unclassified message stops the check as a machinery error")
    print(f"[C16] base={n_base} single-edit mutants={n_single} pairs={n_pairs} rejected={rejected} accepted+run={accepted} "
          f"value-level exceptions={value_exc} warned-only={oc.get('check: type-related warning only (counts as reported)', 0)}", flush=True)
    return ("case = one program text: a base program of the typed grammar, a single-point mutant of one (every edit of every syntactic category at every "
            "node), or (thorough) a pair of disjoint edits of a depth-1 program; simplest first (depth 1, then depth 2, then pairs); identical texts are "
            "explored once. Every case is checked by the real checker; non-trivial = accepted (no error, no type-related warning) and therefore executed. "
            "After a value-level exception in the first main call the same definitions are re-checked and re-run with the second call only.")
