"""C34 only public definitions are visible through imports."""
REG = dict(
    engine='E1-enum',
    technique='exhaustive enumeration of multi-file projects (import graph x `as` choice per edge x referenced item x access form), each checked with the real `garden check` and `garden run` against a three-line visibility reference',
    text="Projects of 2 files (every subset of the 4 directed edges incl. self-imports, every with/without-`as` choice per edge: 81 graphs; quick leaves out f1 importing itself: 27 graphs) and 3 files (quick: main imports f1, every subset and `as` choice of the edges between f1 and f2: 18 graphs; thorough: every subset of the 6 directed edges x every `as` choice: 729 graphs). Every file defines a public and a private function, enum, struct and method (thorough, 2 files without self-imports: additionally all 16 public/private masks of two functions, an enum and a struct). The main file makes exactly one reference per program to a (file, item) as `ns::item` or unqualified: function call, enum variant, enum type in a hint, struct literal, method call; in addition every imported file reachable from main makes one function reference to each file it imports (main calls it through a chain of public functions). Reference: visible(file, item, form) <=> main imports file in the style of the form and item is public. Oracle: a visible reference evaluates under `garden run` and gets no error-severity diagnostic on its line from `garden check --json`; a reference to a non-public definition of another file is an error in both tools; every project finishes within the wall cap (cyclic and self imports must not loop).",
    note='Public items of files that main does not import directly, and public items accessed in the other form than the import style, are only recorded (the statement does not say). Types have no `ns::` syntax, so type, struct-literal and method references exist in the unqualified form only.',
    design_ref='DESIGN.md §6 C34',
)
LEVEL = "model_checking"

import itertools, json, os, shutil

from ..core import Machinery
from .. import clijobs

FILES = ["main", "f1", "f2"]
ALIAS = {"main": "m0", "f1": "n1", "f2": "n2"}
CAP = 40.0


# ---- the reference ---------------------------------------------------------------------------------------------------------------
def visible(graph, site, target, public, form):
    """graph: {(src, dst): 'as' | 'bare'}. A reference written in file `site` is visible iff `site` imports `target` in the style the
    form needs and the item is public. (Types/structs/methods have only the unqualified form, which either import style serves.)"""
    style = graph.get((site, target))
    return style is not None and public and (form == "type-name" or style == {"qualified": "as", "unqualified": "bare"}[form])


def must_be_error(site, target, public):
    """Reaching a non-public definition of another file is an error whatever the graph."""
    return target != site and not public
# -----------------------------------------------------------------------------------------------------------------------------------


def cap(s):
    return s[0].upper() + s[1:]


def item_names(fname):
    P = cap(fname)
    return {("fun", True): f"{fname}_pubf", ("fun", False): f"{fname}_privf", ("enum", True): f"{P}PubE", ("enum", False): f"{P}PrivE",
            ("variant", True): f"{P}PubV", ("variant", False): f"{P}PrivV", ("struct", True): f"{P}PubS", ("struct", False): f"{P}PrivS",
            ("method", True): f"{fname}_pubm", ("method", False): f"{fname}_privm"}


def file_items(fname, mask=None):
    """Item definitions of a file. mask=None: one public and one private of each kind. mask=(a, b, e, s): two functions, an enum and a
    struct with those public flags."""
    n = item_names(fname)
    pub = lambda flag: "public " if flag else ""
    if mask is None:
        return (f"public fun {n['fun', True]}(): Int {{ 1 }}\nfun {n['fun', False]}(): Int {{ 2 }}\n"
                f"public enum {n['enum', True]} {{ {n['variant', True]}, {n['variant', True]}W(Int) }}\nenum {n['enum', False]} {{ {n['variant', False]}, {n['variant', False]}W(Int) }}\n"
                f"public struct {n['struct', True]} {{ x: Int }}\nstruct {n['struct', False]} {{ x: Int }}\n"
                f"public method {n['method', True]}(this: {n['struct', True]}): Int {{ this.x }}\nmethod {n['method', False]}(this: {n['struct', True]}): Int {{ this.x + 1 }}\n")
    a, b, e, s = mask
    return (f"{pub(a)}fun {fname}_fa(): Int {{ 1 }}\n{pub(b)}fun {fname}_fb(): Int {{ 2 }}\n"
            f"{pub(e)}enum {cap(fname)}E {{ {cap(fname)}V, {cap(fname)}VW(Int) }}\n{pub(s)}struct {cap(fname)}S {{ x: Int }}\n")


def references(target, mask=None, funs_only=False):
    """[(kind, public, form, expression source with @NS@ for the alias)] for items of file index `target`."""
    fname = FILES[target]
    out = []
    if mask is None:
        n = item_names(fname)
        for public in (True, False):
            out.append(("fun", public, "qualified", f"@NS@::{n['fun', public]}()"))
            out.append(("fun", public, "unqualified", f"{n['fun', public]}()"))
            if funs_only:
                continue
            out.append(("enum variant", public, "qualified", f"@NS@::{n['variant', public]}"))
            out.append(("enum variant", public, "unqualified", f"{n['variant', public]}"))
            out.append(("enum type", public, "type-name", f"@HINT@List<{n['enum', public]}>"))
            out.append(("struct literal", public, "type-name", f"{n['struct', public]}{{ x: 1 }}"))
            out.append(("method", public, "type-name", f"{n['struct', True]}{{ x: 1 }}.{n['method', public]}()"))
    else:
        a, b, e, s = mask
        P = cap(fname)
        for nm, public in ((f"{fname}_fa", a), (f"{fname}_fb", b)):
            out.append(("fun", public, "qualified", f"@NS@::{nm}()"))
            out.append(("fun", public, "unqualified", f"{nm}()"))
        if not funs_only:
            out.append(("enum variant", e, "qualified", f"@NS@::{P}V"))
            out.append(("enum variant", e, "unqualified", f"{P}V"))
            out.append(("enum type", e, "type-name", f"@HINT@List<{P}E>"))
            out.append(("struct literal", s, "type-name", f"{P}S{{ x: 1 }}"))
    return out


def adjacency(graph):
    adj = {}
    for (a, b) in sorted(graph):
        adj.setdefault(a, []).append(b)
    return adj


def shortest_paths(graph, src=0):
    """{node: [src, ..., node]} by BFS in index order (deterministic)."""
    adj = adjacency(graph)
    paths = {src: [src]}
    frontier = [src]
    while frontier:
        nxt = []
        for x in frontier:
            for y in adj.get(x, ()):
                if y not in paths:
                    paths[y] = paths[x] + [y]
                    nxt.append(y)
        frontier = nxt
    return paths


def graph_class(graph, site, target):
    if target == site:
        return "self"
    adj = adjacency(graph)

    def reaches(src, dst):
        seen, fr = set(), [src]
        while fr:
            x = fr.pop()
            for y in adj.get(x, ()):
                if y == dst:
                    return True
                if y not in seen:
                    seen.add(y)
                    fr.append(y)
        return False
    if (site, target) in graph:
        return "cycle" if reaches(target, site) or (target, target) in graph else "direct"
    return "transitive" if reaches(site, target) else "no import path"


def call_of(graph, a, b, fn):
    """Source of a call, written in file a, of public function fn of file b (a imports b)."""
    return (ALIAS[FILES[b]] + "::" if graph[(a, b)] == "as" else "") + fn + "()"


def project_files(c):
    """{file name: text}; the reference is the last line of the site file; main's last line prints the marker."""
    graph, nfiles, site, path = c["graph"], c["nfiles"], c["site"], c["path"]
    e = c["expr"].replace("@NS@", ALIAS[FILES[c["target"]]])
    tail = {}
    if site == 0:
        if e.startswith("@HINT@"):
            tail[0] = f'let ref_v: {e[len("@HINT@"):]} = [] println("REF_OK:" ^ string_repr(ref_v))'
        else:
            tail[0] = f'println("REF_OK:" ^ string_repr({e}))'
    else:
        tail[site] = f"public fun {FILES[site]}_site(): Int {{ {e} }}"
        for i in range(len(path) - 2, 0, -1):
            nxt = path[i + 1]
            tail[path[i]] = f"public fun {FILES[path[i]]}_hop(): Int {{ {call_of(graph, path[i], nxt, FILES[nxt] + ('_site' if nxt == site else '_hop'))} }}"
        nxt = path[1]
        tail[0] = f'println("REF_OK:" ^ string_repr({call_of(graph, 0, nxt, FILES[nxt] + ("_site" if nxt == site else "_hop"))}))'
    out = {}
    for i in range(nfiles):
        fname = FILES[i]
        imports = ""
        for (a, b), style in sorted(graph.items()):
            if a == i:
                imports += f'import "./{FILES[b]}.gdn"' + (f" as {ALIAS[FILES[b]]}" if style == "as" else "") + "\n"
        out[fname + ".gdn"] = imports + file_items(fname, c["masks"].get(i)) + (tail[i] + "\n" if i in tail else "")
    return out


def graphs(nfiles, edges):
    """Every subset of `edges`, every as/bare choice per chosen edge."""
    for k in range(len(edges) + 1):
        for sub in itertools.combinations(edges, k):
            for styles in itertools.product(("as", "bare"), repeat=len(sub)):
                yield dict(zip(sub, styles))


def run(ctx):
    root = os.path.join(ctx.scratch, "c34")
    os.makedirs(root, exist_ok=True)
    two = [(a, b) for a in range(2) for b in range(2)]
    # (name, number of files, graphs, masks)
    if ctx.quick:
        families = [("2 files, no self-import of f1", 2, list(graphs(2, [(0, 0), (0, 1), (1, 0)])), [None]),
                    ("3 files, main imports f1", 3, [{**g, (0, 1): st} for st in ("as", "bare") for g in graphs(3, [(1, 2), (2, 1)])], [None])]
    else:
        families = [("2 files", 2, list(graphs(2, two)), [None]),
                    ("2 files, no self-imports, all 16 public/private masks", 2, list(graphs(2, [(0, 1), (1, 0)])), list(itertools.product((True, False), repeat=4))),
                    ("3 files", 3, list(graphs(3, [(a, b) for a in range(3) for b in range(3) if a != b])), [None])]
    ctx.bound("families", {f[0]: len(f[2]) for f in families})
    only_graphs = int(os.environ.get("GV_C34_MAXGRAPHS", "0"))

    cases = []
    ngraphs = 0
    for fam, nfiles, glist, masklist in families:
        for gi, graph in enumerate(glist):
            if only_graphs and gi >= only_graphs:
                ctx.cap(f"GV_C34_MAXGRAPHS={only_graphs}")
                break
            ngraphs += 1
            paths = shortest_paths(graph)
            for mask in masklist:
                masks = {i: mask for i in range(1, nfiles)} if mask is not None else {}
                for site in sorted(paths):
                    for target in range(nfiles):
                        style = graph.get((site, target))
                        for kind, public, form, expr in references(target, mask if target != 0 else None, funs_only=site != 0):
                            if target == site and not (form == "qualified" and style == "as"):
                                continue          # own items are in scope unqualified anyway; only `ns::item` goes through the import
                            if form == "qualified" and style != "as":
                                continue          # no alias to write the reference with
                            if site != 0 and style is None:
                                continue          # imported files only reference the files they import
                            cases.append({"fam": fam, "graph": graph, "nfiles": nfiles, "site": site, "path": paths[site], "target": target, "kind": kind, "public": public, "form": form,
                                          "expr": expr, "masks": masks})
    ctx.bound("import_graphs", ngraphs)

    if os.environ.get("GV_COUNT_ONLY"):      # development aid: size of the enumeration without running it
        raise Machinery(f"count only: {2 * len(cases)} processes")
    def do_case(ic):
        i, c = ic
        d = os.path.join(root, f"p{i}")
        os.makedirs(d, exist_ok=True)
        files = project_files(c)
        for name, text in files.items():
            with open(os.path.join(d, name), "w") as fh:
                fh.write(text)
        out = {}
        for tool, args in (("check", ["check", "--json", FILES[c["site"]] + ".gdn"]), ("run", ["run", "main.gdn"])):
            r = clijobs.run(ctx.binary, args, cwd=d, stdin=b"", timeout=CAP)
            if r["timeout"]:
                r = clijobs.run(ctx.binary, args, cwd=d, stdin=b"", timeout=3 * CAP)
            out[tool] = r
        shutil.rmtree(d, ignore_errors=True)
        out["files"] = files
        return out

    res = clijobs.pmap(do_case, list(enumerate(cases)))

    seen_ok = seen_refused = 0
    crashes = {}      # (nfiles, frozenset(graph items), tool, kind) -> detail
    fails = {}        # (where, kind, public, form, what) -> {graph class: detail}
    demanded = {}     # (where, kind, public, form) -> set of graph classes on which a verdict was demanded
    gdesc = lambda g: ", ".join(sorted(f"{FILES[a]} -> {FILES[b]} ({'as ns' if st == 'as' else 'unqualified'})" for (a, b), st in g.items())) or "no imports"
    for c, r in zip(cases, res):
        files = r["files"]
        site_file = FILES[c["site"]] + ".gdn"
        refline_no = files[site_file].count("\n")          # 1-based number of the last line of the file holding the reference
        gclass = graph_class(c["graph"], c["site"], c["target"])
        vis = visible(c["graph"], c["site"], c["target"], c["public"], c["form"])
        err = must_be_error(c["site"], c["target"], c["public"])
        form = "unqualified" if c["form"] == "type-name" else c["form"]
        where = "from main" if c["site"] == 0 else "from an imported file"
        key = (where, c["kind"], c["public"], form)
        detail = {"files": files, "graph": gdesc(c["graph"]), "commands": [f"garden check --json {site_file}", "garden run main.gdn"]}
        dead = False
        for tool in ("check", "run"):
            k = clijobs.failure_kind(r[tool])
            if k:
                dead = True
                crashes.setdefault((c["nfiles"], frozenset(c["graph"].items()), tool, k), dict(detail, stderr=r[tool]["err"][-600:]))
        if dead:
            ctx.outcome("tool dies")
            continue
        diags = []
        for chunk in r["check"]["out"].split("\n"):
            chunk = chunk.strip()
            if chunk.startswith("{"):
                try:
                    diags.append(json.loads(chunk))
                except ValueError:
                    raise Machinery(f"unparsable `garden check --json` output: {chunk[:200]!r}")
        check_err = [d for d in diags if d.get("severity") == "error" and d.get("line_number") == refline_no]
        other_err = [d for d in diags if d.get("severity") == "error" and d.get("line_number") != refline_no]
        run_ok = "REF_OK:" in r["run"]["out"]
        run_err = (not run_ok) and bool(r["run"]["err"].strip())
        if not run_ok and not run_err:
            raise Machinery(f"`garden run` neither printed the marker nor an error: {r['run']['out']!r} {files['main.gdn']!r}")
        detail.update(check_stdout=r["check"]["out"][-500:], run_stdout=r["run"]["out"][-200:], run_stderr=r["run"]["err"][-500:])
        if other_err:
            ctx.outcome(f"check reports an error on another line ({where}, {gclass})")
        if vis:
            demanded.setdefault(key, set()).add(gclass)
            seen_ok += run_ok and not check_err
            tools = [t for t, bad in (("check", bool(check_err)), ("run", not run_ok)) if bad]
            if tools:
                fails.setdefault(key + (f"visible reference refused by {' and '.join(tools)}",), {}).setdefault(gclass, detail)
            ctx.outcome(f"visible {where}: {'ok' if not tools else 'refused'}")
        elif err:
            if gclass != "no import path":
                demanded.setdefault(key, set()).add(gclass)
            seen_refused += (not run_ok) and bool(check_err)
            tools = [t for t, bad in (("check", not check_err), ("run", run_ok)) if bad]
            if tools:
                fails.setdefault(key + (f"non-public definition accepted by {' and '.join(tools)}",), {}).setdefault(gclass, detail)
            ctx.outcome(f"non-public {where}: {'refused by both' if not tools else 'reachable'}")
        else:
            ctx.outcome(f"not demanded ({'own item via self-import' if c['target'] == c['site'] else 'public, ' + gclass + ', ' + form}): "
                        f"check {'error' if check_err else 'ok'}, run {'ok' if run_ok else 'error'}")
    for (where, kind, public, form, what), classes in sorted(fails.items()):
        head = f"{kind} ({'public' if public else 'private'}, {form}) referenced {where}"
        ex = classes[sorted(classes)[0]]
        cli = "; ".join(ex["commands"])
        if set(classes) >= demanded.get((where, kind, public, form), set()):
            ctx.violation(f"{head} through every import shape: {what}", dict(ex, import_shapes=sorted(classes)), cli_cmd=cli)
        else:
            for gc in sorted(classes):
                ctx.violation(f"{head} through a {gc} import: {what}", classes[gc], cli_cmd="; ".join(classes[gc]["commands"]))
    # a dying tool is attributed to the smallest import graphs that kill it (every sub-graph is enumerated too)
    for (nf, g, tool, k), detail in sorted(crashes.items(), key=lambda kv: (kv[0][0], len(kv[0][1]), sorted(kv[0][1]), kv[0][2])):
        if any(nf2 <= nf and g2 < g and tool2 == tool for (nf2, g2, tool2, k2) in crashes):
            ctx.outcome("tool dies on a super-graph of a reported graph")
            continue
        ctx.violation(f"import graph {{{gdesc(dict(g))}}}: garden {tool} does not end normally ({k})", detail, cli_cmd=f"garden {tool} main.gdn")
    if seen_ok == 0 or seen_refused == 0:
        raise Machinery(f"vacuous: visible-and-working={seen_ok}, non-public-and-refused={seen_refused}")
    ctx.add(states=len(cases), transitions=2 * len(cases), nontrivial=sum(1 for c in cases if c["graph"]))
    ctx.bound("programs", len(cases))
    for i in (0, len(cases) // 2, len(cases) - 1):
        c = cases[i]
        ctx.sample({"graph": gdesc(c["graph"]), "reference_in": FILES[c["site"]], "visible": visible(c["graph"], c["site"], c["target"], c["public"], c["form"]), "files": res[i]["files"]})
    return ("every import graph over the files (every subset of directed edges, every as/unqualified choice per edge) x every (file, item, access form) reference from main, plus one "
            "function reference from every imported file to every file it imports; one reference per program, each run through `garden check --json` (on the file holding the "
            "reference) and `garden run main.gdn`. Non-trivial = programs with at least one import.")
