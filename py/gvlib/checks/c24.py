"""C24 sandboxed code cannot touch files, processes or stdin."""
REG = dict(
    engine='E1-enum',
    technique='exhaustive enumeration of effectful built-in x argument vector x call position x import form x sandbox mode, each run as a real CLI process in a private fixture directory whose tree is hashed before and after',
    text="Every function of __fs.gdn and __shell.gdn (table parsed from the repository at run time), read_line, shell_arguments, every built-in Path method, source_file and built_in_files is called with every argument vector of a pool (existing/missing/absolute/nested path, directory, empty directory, wrong type, arity n-1/n+1; one-position deviations from a primary vector in quick, the full product in thorough) at 9 call positions (top level, function, closure, method, test body, closure passed to map, function reference passed to map, and as a statement whose value is discarded at top level and in a function), qualified (`ns::f`) and unqualified import, under `playground-run` and `sandboxed-test` (offset inside the test and outside every test); in quick the full position x form x mode cross is run for the primary vector and the other vectors at top level / function / test body. Oracle: for a call of anything that creates/modifies/deletes/reads files, starts a process or reads stdin (functions: whatever the arguments, also wrong types and arity; methods: well-typed calls) the evaluation ends with the sandbox error; in every case the fixture tree (names, kinds, sizes, mtimes, sha1) is unchanged, the canary executables first on PATH did not run, no fixture secret (file content, directory entry name, stdin token) reaches the output, and the process finishes although stdin is a pipe that stays open and silent. A non-sandboxed `garden run` of the same call per function shows each detector firing.",
    note='Effects are observed from outside the process (tree hash, PATH canary, secrets, stdin token); reads that reveal a single bit (exists) are only covered by the demanded sandbox error. `import` of a local file and check_snippet read the imported file even when sandboxed: recorded as an outcome, outside the statement (not the filesystem API). Environment variables, working-directory bookkeeping and source_file (path canonicalisation) are observed, not demanded.',
    design_ref='DESIGN.md §6 C24',
)
LEVEL = "model_checking"

import itertools, json, os, re, shutil

from ..core import Machinery
from ..build import REPO
from .. import builtins as bi
from .. import clijobs

SANDBOX_MSG = "Tried to execute unsafe code in sandboxed mode"
FILE_SECRET = "FILE_SECRET_TOKEN_c24"
LIST_SECRET = "LISTED_SECRET_NAME_c24"
STDIN_SECRET = "STDIN_SECRET_TOKEN_c24"
MARKER = "PROCESS_RAN"
CANARY_CMDS = ["canary_cmd", "ls", "sh", "echo"]

# what the property statement covers: file = creates/modifies/deletes/reads files through the filesystem / path API,
# process = starts a process, stdin = reads standard input. Everything else is observed (generic oracles only).
STATIC_CLASS = {
    "read_file": "file", "read_file_bytes": "file", "write_file": "file", "write_bytes": "file", "copy_file": "file", "remove_file": "file",
    "list_directory": "file", "create_dir": "file", "remove_dir": "file", "Path::exists": "file", "Path::info": "file",
    "run": "process", "read_line": "stdin",
    "working_directory": "observed", "set_working_directory": "observed", "get_env": "observed", "is_tty": "observed", "shell_arguments": "observed",
    "source_file": "observed", "built_in_files": "observed",
}
HEADERS = {"__fs.gdn": "fs", "__shell.gdn": "shell", "__reflect.gdn": "reflect"}
POSITIONS = ["top", "fun", "closure", "method", "test", "map_closure", "map_ref", "stmt", "fun_stmt"]


def builtin_names(fname):
    """Names of functions/methods of a repository .gdn file whose body is the built-in placeholder."""
    src = open(os.path.join(REPO, "src", fname), encoding="utf-8").read()
    out = set()
    for m in re.finditer(r"(fun|method)\s+(\w+)\s*(?:<[^>]*>)?\(([^)]*)\)[^{]*\{\s*__BUILT_IN_IMPLEMENTATION", src):
        recv = None
        if m.group(1) == "method":
            rm = re.match(r"\s*\w+\s*:\s*(\w+)", m.group(3))
            recv = rm.group(1) if rm else None
        out.add((recv, m.group(2)))
    return out


def entry_points(ctx):
    table = bi.load(ctx)
    prelude_builtin = builtin_names("__prelude.gdn")
    out = []
    for f in table:
        if not f["public"]:
            continue
        if f["file"] in ("__fs.gdn", "__shell.gdn") and f["kind"] == "fun":
            key = f["name"]
        elif f["file"] == "__prelude.gdn" and f["kind"] == "fun" and f["name"] in ("read_line", "shell_arguments"):
            key = f["name"]
        elif f["file"] == "__prelude.gdn" and f["kind"] == "method" and f["recv_hint"] and f["recv_hint"][1] == "Path" and ("Path", f["name"]) in prelude_builtin:
            key = "Path::" + f["name"]
        elif f["file"] == "__reflect.gdn" and f["kind"] == "fun" and f["name"] in ("source_file", "built_in_files"):
            key = f["name"]
        else:
            continue
        hints = ([f["recv_hint"]] if f["kind"] == "method" else []) + [h for _, h in f["params"]]
        pnames = (["this"] if f["kind"] == "method" else []) + [n for n, _ in f["params"]]
        out.append({"key": key, "name": f["name"], "file": f["file"], "kind": f["kind"], "hints": hints, "pnames": pnames,
                    "cls": STATIC_CLASS.get(key, "unclassified")})
    return out


def pool_for(f, i, absdir):
    """[(label, source text, well_typed)] for parameter i of entry point f."""
    hint = f["hints"][i]
    name = hint[1] if hint else None
    pname = f["pnames"][i]
    if name == "Path":
        P = lambda s: f'Path{{ p: "{s}" }}'
        pool = [("exist_rel", P("exist.txt"), True), ("missing_rel", P("missing.txt"), True), ("exist_abs", P(absdir + "/exist.txt"), True),
                ("missing_nested", P("nodir/missing.txt"), True), ("dir", P("dir"), True), ("emptydir", P("emptydir"), True), ("dot", P("."), True),
                ("wrong_string", '"exist.txt"', False), ("wrong_int", "1", False)]
        if pname in ("dest",):   # a second path: the primary value is a new file so that the non-sandboxed control has a visible effect
            pool = [pool[1], pool[0]] + pool[2:]
        return pool
    if name == "String":
        if f["key"] == "run":
            return [("canary", '"canary_cmd"', True), ("canary_abs", f'"{absdir}/bin/canary_cmd"', True), ("ls", '"ls"', True), ("sh", '"sh"', True), ("nocmd", '"no_such_cmd_c24"', True),
                    ("wrong_int", "1", False)]
        if f["key"] == "get_env":
            return [("PATH", '"PATH"', True), ("unset", '"NO_SUCH_VAR_c24"', True), ("wrong_int", "1", False)]
        return [("text", '"NEW_CONTENT"', True), ("empty", '""', True), ("wrong_int", "1", False)]
    if name == "List":
        inner = hint[2][0][1] if hint[2] else None
        if inner == "String":
            return [("noargs", "[]", True), ("touch", '["-c", ": > MADE_BY_CHILD"]', True), ("wrong_string", '"x"', False)]
        if inner == "Int":
            return [("bytes", "[78, 69, 87]", True), ("nobytes", "[]", True), ("wrong_string", '"x"', False)]
    if name == "Int":
        return [("one", "1", True), ("wrong_string", '"x"', False)]
    if name == "Bool":
        return [("true", "True", True), ("wrong_int", "1", False)]
    return [("default", bi.default_for(hint), True), ("wrong_unit", "Unit", False)]


def vectors(f, absdir, full):
    """[(labels, [srcs], well_typed)]: star of one-position deviations around the primary vector (quick) or the full product of
    well-typed values plus the wrong-typed star (thorough); plus arity n-1 and n+1."""
    n = len(f["hints"])
    pools = [pool_for(f, i, absdir) for i in range(n)]
    prim = [p[0] for p in pools]
    seen, out = set(), []

    def add(vec):
        labels = tuple(v[0] for v in vec)
        if labels in seen:
            return
        seen.add(labels)
        out.append((labels, [v[1] for v in vec], all(v[2] for v in vec)))

    add(prim)
    if full:
        for vec in itertools.product(*[[v for v in p if v[2]] for p in pools]):
            add(list(vec))
    for i in range(n):
        for v in pools[i]:
            add(prim[:i] + [v] + prim[i + 1:])
    if n > (1 if f["kind"] == "method" else 0):
        out.append((tuple(v[0] for v in prim[:-1]) + ("arity-1",), [v[1] for v in prim[:-1]], False))
    out.append((tuple(v[0] for v in prim) + ("arity+1",), [v[1] for v in prim] + ["1"], False))
    return out


def call_src(f, srcs, form):
    if f["kind"] == "method":
        return f"{srcs[0]}.{f['name']}({', '.join(srcs[1:])})"
    if f["file"] == "__prelude.gdn":
        return f"{f['name']}({', '.join(srcs)})"
    q = HEADERS[f["file"]] + "::" if form == "qualified" else ""
    return f"{q}{f['name']}({', '.join(srcs)})"


def fun_ref(f, form):
    if f["kind"] == "method":
        return None
    if f["file"] == "__prelude.gdn":
        return f["name"]
    return (HEADERS[f["file"]] + "::" if form == "qualified" else "") + f["name"]


def header(f, form):
    if f["file"] == "__prelude.gdn":
        return ""
    return f'import "{f["file"]}" as {HEADERS[f["file"]]}\n' if form == "qualified" else f'import "{f["file"]}"\n'


def W(x):
    return f'throw("RET:" ^ string_repr({x}))'


def program(f, srcs, form, pos, mode):
    """(source, offset inside test t or None). In sandboxed-test mode the driver lives in `test t`."""
    call = call_src(f, srcs, form)
    defs, driver = "", None
    if pos == "top":
        driver = W(call)
    elif pos == "fun":
        defs = f"fun f() {{ {call} }}\n"
        driver = W("f()")
    elif pos == "closure":
        driver = f"let g = fun() {{ {call} }}\n{W('g()')}"
    elif pos == "method":
        defs = f"method m(this: Int) {{ {call} }}\n"
        driver = W("1.m()")
    elif pos == "test":
        driver = W(call)
    elif pos == "map_closure":
        driver = W(f"[1].map(fun(_) {{ {call} }})")
    elif pos == "map_ref":
        driver = W(f"[{srcs[0]}].map({fun_ref(f, form)})")
    elif pos == "stmt":
        # the value of the call is discarded
        driver = f"{call}\n{W('0')}"
    elif pos == "fun_stmt":
        defs = f"fun f() {{\n  {call}\n  0\n}}\n"
        driver = W("f()")
    src = header(f, form) + defs
    if mode == "playground-run":
        if pos == "test":
            src += f"test t {{ {driver} }}\n"
        else:
            src += driver + "\n"
        return src, None
    # sandboxed-test
    if pos == "top":
        src += driver + "\ntest t { assert(True) }\n"
        return src, src.index("assert(True)")
    body = driver.replace("\n", "\n  ")
    src += f"test t {{\n  {body}\n}}\n"
    return src, src.index("test t {") + len("test t {\n  ")


def make_fixture(d):
    os.makedirs(os.path.join(d, "dir"))
    os.makedirs(os.path.join(d, "emptydir"))
    os.makedirs(os.path.join(d, "bin"))
    with open(os.path.join(d, "exist.txt"), "w") as fh:
        fh.write(FILE_SECRET + "\n")
    with open(os.path.join(d, "dir", LIST_SECRET + ".txt"), "w") as fh:
        fh.write(FILE_SECRET + " inner\n")
    for c in CANARY_CMDS:
        p = os.path.join(d, "bin", c)
        with open(p, "w") as fh:
            fh.write(f'#!/bin/sh\n: > "{d}/{MARKER}"\n')
        os.chmod(p, 0o755)


def observe(binary, d, args, hold, timeout):
    """Run one process in fixture dir d; returns the result plus the externally visible effects."""
    env = dict(os.environ)
    env["PATH"] = os.path.join(d, "bin") + ":" + env.get("PATH", "/usr/bin:/bin")
    before = clijobs.snapshot(d)
    if hold:
        r = clijobs.run(binary, args, cwd=d, env=env, hold_stdin=True, t_hold=2.0, feed=(STDIN_SECRET + "\n").encode(), timeout=timeout)
    else:
        r = clijobs.run(binary, args, cwd=d, env=env, stdin=(STDIN_SECRET + "\n").encode(), timeout=timeout)
    after = clijobs.snapshot(d)
    text = r["out"] + r["err"]
    effects = []
    diff = clijobs.snapshot_diff(before, after)
    ran = os.path.exists(os.path.join(d, MARKER))
    if ran:
        effects.append("process started (PATH canary ran)")
    if ran:   # the marker itself (and the root directory's mtime it bumps) is reported as "process started"
        diff_rest = [x for x in diff if x not in (f"created {MARKER}", "modified . (mtime)")]
    else:
        diff_rest = diff
    rest = sorted(set(x.split(" ")[0] for x in diff_rest))
    if rest:
        effects.append("file tree changed (" + "/".join(rest) + ")")
    if FILE_SECRET in text:
        effects.append("file content reached the output")
    if LIST_SECRET in text:
        effects.append("directory entries reached the output")
    if STDIN_SECRET in text:
        effects.append("read standard input")
    r["effects"] = effects
    r["diff"] = diff
    return r


def classify(mode, r):
    """sandboxed | returned | exception | passed | other"""
    out = r["out"]
    try:
        docs = [json.loads(l) for l in out.splitlines() if l.strip()]
    except ValueError:
        return "other"
    if not docs:
        return "other"
    if mode == "playground-run":
        for d in docs:
            e = d.get("error")
            if e == SANDBOX_MSG:
                return "sandboxed"
            if e is not None:
                return "returned" if e.startswith("RET:") else "exception"
        v = docs[0].get("value") or ""
        if v.startswith("Failed: t"):
            first = v.split("\n")
            if len(first) > 1 and first[1].startswith("  RET:"):
                return "returned"
            if len(first) > 1 and first[1].startswith("  "):
                return "exception"
            return "sandboxed"     # `Failed: t <pos>` without a message: sandbox (or limit) error inside the test
        return "passed"
    t = docs[0].get("tests", {}).get("t")
    if t is None:
        return "other"
    desc = t["description"]
    if desc == "sandboxed":
        return "sandboxed"
    if desc == "passed":
        return "passed"
    return "returned" if desc.startswith("RET:") else "exception"


def run(ctx):
    eps = entry_points(ctx)
    if len(eps) < 15:
        raise Machinery(f"only {len(eps)} effectful entry points found: table extraction drifted")
    root = os.path.join(ctx.scratch, "c24")
    os.makedirs(root, exist_ok=True)
    full = not ctx.quick
    ctx.bound("entry_points", len(eps))
    ctx.bound("positions", POSITIONS)
    ctx.bound("argument_vectors", "full product of well-typed values + wrong-type star + arity" if full else "one-position deviations from a primary vector + arity")

    # ---- non-sandboxed controls: same program under `garden run`, every well-typed vector, top position
    controls = []
    for f in eps:
        for labels, srcs, ok in vectors(f, "@ABS@", full):
            if ok:
                controls.append((f, labels, srcs))

    def do_control(i_case):
        i, (f, labels, srcs) = i_case
        d = os.path.join(root, f"ctl{i}")
        make_fixture(d)
        srcs = [s.replace("@ABS@", d) for s in srcs]
        src, _ = program(f, srcs, "qualified", "top", "playground-run")
        with open(os.path.join(d, "prog.gdn"), "w") as fh:
            fh.write(src)
        r = observe(ctx.binary, d, ["run", "prog.gdn"], hold=False, timeout=60)
        shutil.rmtree(d, ignore_errors=True)
        returned = "RET:" in r["err"] + r["out"]
        return r["effects"], returned, r["rc"], (r["err"] + r["out"])[-300:]

    cres = clijobs.pmap(do_control, list(enumerate(controls)))
    ctl_effects, ctl_returned = {}, {}
    for (f, labels, srcs), (effects, returned, rc, tail) in zip(controls, cres):
        ctl_effects.setdefault(f["key"], set()).update(effects)
        ctl_returned[f["key"]] = ctl_returned.get(f["key"], False) or returned
        if rc != 0:
            raise Machinery(f"control `garden run` of {f['key']}{labels} exited {rc}: {tail}")
    expect_detect = {"read_file": "file content reached the output", "read_file_bytes": None, "write_file": "file tree changed", "write_bytes": "file tree changed",
                     "copy_file": "file tree changed", "remove_file": "file tree changed", "create_dir": "file tree changed", "remove_dir": "file tree changed",
                     "list_directory": "directory entries reached the output", "run": "process started", "read_line": "read standard input"}
    for f in eps:
        k = f["key"]
        if not ctl_returned.get(k):
            raise Machinery(f"control: non-sandboxed call of {k} never returned a value: the program template does not reach the call")
        want = expect_detect.get(k)
        if want and not any(e.startswith(want) for e in ctl_effects.get(k, ())):
            raise Machinery(f"control: detector ineffective: non-sandboxed {k} shows {sorted(ctl_effects.get(k, ()))}, expected '{want}'")
        if f["cls"] == "unclassified" and ctl_effects.get(k):
            f["cls"] = "file" if not any(e.startswith("process") for e in ctl_effects[k]) else "process"     # new function with a visible effect: demanded
        ctx.outcome(f"control:{k}:" + (",".join(sorted(set(e.split(" (")[0] for e in ctl_effects.get(k, ())))) or "returns, no visible effect"))

    # ---- sandboxed cases
    only = set(x for x in os.environ.get("GV_C24_ONLY", "").split(",") if x)      # development aid: restrict to some entry points
    if only:
        ctx.cap(f"GV_C24_ONLY={sorted(only)}")
    MODES = [("playground-run", None), ("sandboxed-test", "in-test"), ("sandboxed-test", "outside-tests")]
    cases = []
    for f in eps:
        if only and f["key"] not in only:
            continue
        forms = ["qualified", "unqualified"] if f["file"] != "__prelude.gdn" else ["plain"]
        for vi, (labels, srcs, ok) in enumerate(vectors(f, "@ABS@", full)):
            for form in forms:
                for pos in POSITIONS:
                    if pos == "map_ref" and (f["kind"] == "method" or len(srcs) != 1):
                        continue
                    for mode, offv in MODES:
                        if not full and vi > 0 and not (form != "unqualified" and pos in ("top", "fun", "test") and offv != "outside-tests"):
                            continue      # quick: the full position x form x mode cross for the primary vector only
                        cases.append((f, labels, srcs, ok, form, pos, mode, offv))
    ctx.bound("cross", "vectors x forms x positions x modes" if full else "primary vector x forms x positions x modes; other vectors x {top, fun, test} x {playground-run, sandboxed-test in test}")

    if os.environ.get("GV_COUNT_ONLY"):      # development aid: size of the enumeration without running it
        raise Machinery(f"count only: {len(cases) + len(controls)} processes")
    def do_case(i_case):
        i, (f, labels, srcs, ok, form, pos, mode, offv) = i_case
        d = os.path.join(root, f"case{i}")
        make_fixture(d)
        srcs = [s.replace("@ABS@", d) for s in srcs]
        src, off = program(f, srcs, form, pos, mode)
        with open(os.path.join(d, "prog.gdn"), "w") as fh:
            fh.write(src)
        args = ["playground-run", "prog.gdn"] if mode == "playground-run" else ["sandboxed-test", "prog.gdn", str(off if offv == "in-test" else 0)]
        r = observe(ctx.binary, d, args, hold=True, timeout=20)
        if r["timeout"]:
            # not a verdict under load: once more, alone-ish, 3x the cap
            shutil.rmtree(d, ignore_errors=True)
            make_fixture(d)
            with open(os.path.join(d, "prog.gdn"), "w") as fh:
                fh.write(src)
            r = observe(ctx.binary, d, args, hold=True, timeout=60)
        shutil.rmtree(d, ignore_errors=True)
        return {"cls": classify(mode, r), "effects": r["effects"], "rc": r["rc"], "timeout": r["timeout"], "fed": r["fed"], "src": src, "args": args,
                "out": r["out"][-400:], "err": r["err"][-300:]}

    res = clijobs.pmap(do_case, list(enumerate(cases)))

    fails = {}      # key -> {combo: {whats, example}}
    universe = {}   # key -> set of combos on which the sandbox error is demanded
    n_refused = n_allowed = 0
    for (f, labels, srcs, ok, form, pos, mode, offv), r in zip(cases, res):
        k = f["key"]
        combo = (pos, mode if mode == "playground-run" else f"{mode}({offv})")
        # "with any arguments": a function of the fs/shell API (or read_line) is refused whatever it is handed, also with the wrong
        # types or arity; a method needs a receiver of the right type to be reached at all, so ill-typed method calls are not demanded
        is_method = "::" in k
        demanded = f["cls"] in ("file", "process", "stdin") and (ok or not is_method) and not (mode == "sandboxed-test" and pos == "top")
        if demanded:
            universe.setdefault(k, set()).add(combo)
        whats = []
        if r["timeout"]:
            whats.append("does not finish while stdin stays open")
        elif r["rc"] != 0:
            whats.append(f"process exits with status {r['rc']}")
        whats += [e.split(" (")[0] if e.startswith("process started") else e for e in r["effects"]]
        if r["cls"] == "other" and not whats:
            raise Machinery(f"unparsable {mode} output for {k}: {r['out']!r} {r['err']!r}")
        if mode == "sandboxed-test" and pos == "top":
            # top-level expressions are not evaluated by sandboxed-test: only the effect oracles apply
            ctx.outcome(f"sandboxed-test top-level expression: test {r['cls']}")
        elif demanded and r["cls"] != "sandboxed":
            whats.append({"returned": "not refused (call returned a result)", "exception": "ended with another error instead of the sandbox error",
                          "passed": "not refused (evaluation continued)", "other": "no result"}[r["cls"]])
        if r["cls"] == "sandboxed":
            n_refused += 1
        elif r["cls"] == "returned":
            n_allowed += 1
        ctx.outcome(f"{f['cls']}:{'well-typed' if ok else 'ill-typed'}:{r['cls']}")
        if not ok and os.environ.get("GV_C24_DEBUG"):
            ctx.outcome(f"DBG {k} {'/'.join(labels)} {pos} {mode}: {r['cls']}")
        for w in set(whats):
            fails.setdefault(k, {}).setdefault(combo, {"whats": set(), "example": None})["whats"].add(w)
        if whats and fails[k][combo]["example"] is None:
            fails[k][combo]["example"] = {"program": r["src"], "args": r["args"], "stdout": r["out"], "stderr": r["err"], "arguments": list(labels), "import_form": form,
                                          "stdin_fed_after_hold": r["fed"]}
    for k, combos in sorted(fails.items()):
        uni = universe.get(k, set())
        if uni and set(combos) >= uni:
            ex = combos[sorted(combos)[0]]["example"]
            w = "; ".join(sorted(set().union(*[c["whats"] for c in combos.values()])))
            ctx.violation(f"{k} at every call position in both sandbox modes: {w}", dict(ex, positions=sorted(f"{p} / {m}" for p, m in combos)),
                          cli_cmd=f"garden {' '.join(ex['args'])}   # stdin: a pipe that stays open")
        else:
            for combo in sorted(combos):
                ex = combos[combo]["example"]
                ctx.violation(f"{k} @ {combo[0]} in {combo[1]}: {'; '.join(sorted(combos[combo]['whats']))}", ex, cli_cmd=f"garden {' '.join(ex['args'])}   # stdin: a pipe that stays open")

    # ---- observed only: `import` of a local file while sandboxed (reads the file; not the filesystem API)
    d = os.path.join(root, "imp")
    make_fixture(d)
    with open(os.path.join(d, "other.gdn"), "w") as fh:
        fh.write("public fun visible() { 1 }\n")
    with open(os.path.join(d, "prog.gdn"), "w") as fh:
        fh.write('import "./other.gdn" as o\nthrow("RET:" ^ string_repr(o::visible()))\n')
    r = observe(ctx.binary, d, ["playground-run", "prog.gdn"], hold=True, timeout=30)
    ctx.outcome("observed: import of a local file under playground-run: " + ("file is read and evaluated" if "RET:1" in r["out"] else "not loaded"))
    if r["effects"]:
        ctx.violation("import statement in playground-run: " + "; ".join(r["effects"]), {"stdout": r["out"]})
    shutil.rmtree(d, ignore_errors=True)

    if n_refused == 0 or n_allowed == 0:
        raise Machinery(f"vacuous: refused={n_refused} allowed={n_allowed} (both must occur)")
    ncases = len(cases) + len(controls) + 1
    ctx.add(states=ncases, transitions=ncases, nontrivial=len(cases))
    ctx.bound("sandboxed_cases", len(cases))
    ctx.bound("non_sandboxed_controls", len(controls))
    for i in (0, len(cases) // 3, 2 * len(cases) // 3, len(cases) - 1):
        f, labels, srcs, ok, form, pos, mode, offv = cases[i]
        ctx.sample({"function": f["key"], "arguments": list(labels), "import_form": form, "position": pos, "mode": mode, "offset": offv, "outcome": res[i]["cls"], "program": res[i]["src"]})
    return ("every effectful entry point (all of __fs.gdn/__shell.gdn, read_line, shell_arguments, built-in Path methods, source_file, built_in_files) x argument vector "
            "(path pool: existing/missing/absolute/nested/dir/empty dir/'.', wrong type, arity +-1) x 9 call positions x qualified/unqualified import x "
            "{playground-run, sandboxed-test offset in test, sandboxed-test offset outside tests}, one real CLI process each in a private fixture directory with stdin held open. "
            "Non-trivial = every sandboxed case (controls and the import observation excluded).")
