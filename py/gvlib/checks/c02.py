"""C02 evaluation ends in a value or a Garden error, never a crash."""
REG = dict(
    engine='E1-enum',
    technique='bounded-exhaustive enumeration of calls (every built-in/prelude function, method, operator and syntax form x argument vectors over a value pool), executed on the real interpreter',
    text="Every public prelude/built-in function and method (table parsed from the repository's own .gdn files at run time, so new functions are picked up) is called with every argument vector over a 20-value pool (full product for <=2 positions, deviation-bounded beyond), plus arity n-1/n+1; the same calls (well-typed vector and one-position deviations) as statements whose value is discarded inside a `for` and a `while` body; every binary operator and +=/-= over pool x pool; 74 syntax forms x pool. Outcome must be a value or a Garden error: a Rust panic, abort, signal or non-termination is a violation. Exhaustive within the pool and deviation bound.",
    note='One call per program with a fresh Env, tick limit 200k; effectful built-ins run sandboxed and (in a scratch directory) unsandboxed; `read_line` only through the real CLI with stdin at EOF. Values outside the pool and call sequences are not covered.',
    design_ref='DESIGN.md §6 C02',
)

import itertools
from ..core import Machinery
from .. import builtins as bi

OPS = ["+", "+.", "-", "-.", "*", "*.", "/", "/.", "%", "**", "==", "!=", "<", "<=", ">", ">=", "&&", "||", "&", "|", "^"]
# never run these unsandboxed in-process: read_line would consume the worker's job pipe
NO_UNSANDBOXED = {"read_line"}


def arg_vectors(defaults, pool, full_upto=2, dev=2):
    """Every vector for <= full_upto positions; otherwise all vectors with <= dev positions deviating from the defaults."""
    n = len(defaults)
    if n <= full_upto:
        yield from itertools.product(pool, repeat=n)
        return
    for k in range(0, dev + 1):
        for idxs in itertools.combinations(range(n), k):
            for vals in itertools.product(pool, repeat=k):
                v = list(defaults)
                for i, x in zip(idxs, vals):
                    v[i] = x
                yield tuple(v)


def call_src(f, vec):
    if f["kind"] == "fun":
        return f"{bi.NS[f['file']]}{f['name']}({', '.join(vec)})"
    recv = vec[0]
    if recv.startswith("-") or recv.startswith("fun"):
        recv = f"({recv})"
    return f"{recv}.{f['name']}({', '.join(vec[1:])})"


def run(ctx):
    funs = [f for f in bi.load(ctx) if f["public"]]
    pool = [p for p, _ in bi.POOL]
    progs = []   # (signature_key, src, sandbox)
    dev = 1 if ctx.quick else 2
    cli_only = []
    for f in funs:
        if f["name"] in NO_UNSANDBOXED:
            # reads the process's stdin: in-process that is the job pipe, so these go through the real CLI with stdin at EOF
            cli_only.append(f)
            continue
        hints = ([f["recv_hint"]] if f["kind"] == "method" else []) + [h for _, h in f["params"]]
        defaults = [bi.default_for(h) for h in hints]
        n = len(hints)
        key = ("method " + (f["recv_hint"][1] + "::" if f["recv_hint"] else "") if f["kind"] == "method" else "fun ") + f["name"]
        vecs = set(arg_vectors(defaults, pool, full_upto=2, dev=dev))
        # arity deviations: one fewer and one more argument (well-typed otherwise)
        if n > (1 if f["kind"] == "method" else 0):
            vecs.add(tuple(defaults[:-1]))
        vecs.add(tuple(defaults + ["1"]))
        effectful = f["file"] in ("__fs.gdn", "__shell.gdn") or f["name"] in ("read_line", "exists", "info", "source_file", "built_in_files")
        for v in sorted(vecs):
            call = call_src(f, list(v))
            src = bi.PRELUDE_PREFIX + f"println(string_repr({call}))\n"
            progs.append((key, src, True))
            if effectful and f["name"] not in NO_UNSANDBOXED and f["name"] not in ("run",):
                progs.append((key + " [unsandboxed]", src, False))
            elif not effectful:
                pass
    # the same calls as statements whose value is discarded, inside loop bodies (a built-in that pushes a result nobody asked for
    # leaves a stray value for the loop to trip over): the well-typed vector and every one-position deviation from it
    for f in funs:
        if f["name"] in NO_UNSANDBOXED:
            continue
        hints = ([f["recv_hint"]] if f["kind"] == "method" else []) + [h for _, h in f["params"]]
        defaults = [bi.default_for(h) for h in hints]
        key = ("method " + (f["recv_hint"][1] + "::" if f["recv_hint"] else "") if f["kind"] == "method" else "fun ") + f["name"]
        vecs = set(arg_vectors(defaults, pool, full_upto=0, dev=1 if ctx.quick else 2))
        for v in sorted(vecs):
            call = call_src(f, list(v))
            src = bi.PRELUDE_PREFIX + f"let n = 0\nfor i in [1, 2, 3] {{\n  {call}\n  n += i\n}}\nwhile n < 8 {{\n  {call}\n  n += 1\n}}\nprintln(string_repr(n))\n"
            progs.append((key + " [value discarded, in loops]", src, True))
    # operators
    for op in OPS:
        for a in pool:
            for b in pool:
                a2 = f"({a})" if a.startswith("fun") else a
                progs.append((f"operator {op}", f"println(string_repr({a2} {op} {b}))\n", True))
    for u in ("+=", "-="):
        for a in pool:
            for b in pool:
                progs.append((f"operator {u}", f"{{\n let x = {a}\n x {u} {b}\n println(string_repr(x))\n}}\n", True))
    # syntax forms applied to every pool value
    defs = "struct Foo { f: Int, g: String }\nenum Col { Red, Cust(Int) }\nfun typed(x: Int): String { x }\nfun opt(x: Option<Int>): Int { match x { Some(i) => i None => 0 } }\n"
    forms = ["for x in {v} {{ println(string_repr(x)) }}", "let (a, b) = {v}\nprintln(string_repr(a))", "match {v} {{ Some(x) => 1 None => 2 }}", "match {v} {{ Ok(x) => 1 Err(e) => 2 }}",
             "match {v} {{ Red => 1 Cust(i) => i }}", "match {v} {{ Some((a, b)) => a _ => 0 }}", "let v = {v}\nv.f", "let v = {v}\nv()", "let v = {v}\nv(1)", "let v = {v}\nv(1, 2)", "let v = {v}\nv.nosuch()",
             "if {v} {{ 1 }} else {{ 2 }}", "while {v} {{ break }}", "assert({v})", "let v = {v}\nv::x", "Foo{{ f: {v}, g: {v} }}", "Foo{{ f: {v} }}", "Foo{{ f: 1, g: \"\", h: {v} }}", "throw({v})",
             "let x: Int = {v}\nx", "let x: List<Int> = {v}\nx", "let x: Fun<(Int), Int> = {v}\nx", "typed({v})", "opt({v})", "Dict[{v} => 1]", "[{v}, 1]", "Cust({v})", "Some({v})", "Red({v})",
             "let x = 1\nx = {v}\nx + 1", "try {{ throw({v}) }} catch (e) {{ 1 }}", "dbg({v})", "string_repr({v})", "let f = fun(a: Int): Int {{ a }}\nf({v})", "let f = fun(a) {{ a }}\nf({v}, {v})",
             "[1, 2].map({v})", "[1, 2].filter({v})", "test t {{ assert({v}) }}", "assert({v} == {v})", "assert({v} < 1)", "let l = [{v}]\nl.contains({v})", "let d = Dict[\"a\" => {v}]\nd.get(\"a\")",
             "println({v})", "{v}.or_throw()", "{v}.or_value(1)",
             # assignment and update of every kind of name: local, parameter, global function, built-in, constructor, type, undefined
             "typed = {v}", "println = {v}", "Red = {v}", "Cust = {v}", "Foo = {v}", "nosuch = {v}", "nosuch += {v}", "typed += {v}", "println -= {v}",
             "fun g(p) {{ p = {v} p }}\ng(1)", "fun g(p: Int) {{ p += {v} p }}\ng(1)", "let c = fun() {{ typed = {v} }}\nc()", "for i in [1] {{ i = {v} }}",
             "match Some(1) {{ Some(m) => {{ m = {v} }} None => {{}} }}", "let (a, b) = (1, 2)\na = {v}\nb += {v}", "let _ = {v}", "let x = {v}\nlet x = x\nx",
             # definitions replaced while values of the old definition are still alive
             "enum E9 {{ A9, B9(Int), C9 }}\nlet w = (C9, B9(1), {v})\nenum E9 {{ A9 }}\nprintln(string_repr(w))\ndbg(w)",
             "enum E8 {{ A8, B8(Int) }}\nlet w = B8({v})\nenum E8 {{ B8, A8 }}\nprintln(string_repr(w))\nmatch w {{ A8 => 1 B8 => 2 }}",
             "struct S9 {{ a: Int, b: Int }}\nlet w = S9{{ a: 1, b: 2 }}\nstruct S9 {{ a: Int }}\nprintln(string_repr(w))\nw.b\nlet u = {v}",
             "struct S8 {{ a: Int }}\nlet w = S8{{ a: 1 }}\nenum S8 {{ K8 }}\nprintln(string_repr(w))\nw.a\nlet u = {v}",
             "fun g9(a) {{ a }}\nlet h = g9\nfun g9(a, b) {{ b }}\nh({v})\ng9({v})",
             "fun g8(a: Int): Int {{ a }}\nlet h = g8\nfun g8(a: String): String {{ a }}\nh({v})",
             "method m9(this: Int) {{ 1 }}\nmethod m9(this: Int, extra) {{ extra }}\n1.m9()\n1.m9({v})",
             "test t9 {{ assert({v}) }}\ntest t9 {{ assert(True) }}",
             "import \"__fs.gdn\" as zfs\nzfs = {v}", "import \"__fs.gdn\" as zfs\nzfs::nosuch({v})", "{v}::x", "typed::x({v})"]
    for form in forms:
        for v in pool:
            v2 = f"({v})" if (v.startswith("fun") or v.startswith("-")) and ("{v}." in form or "{v}::" in form or form.startswith("{v}")) else v
            progs.append((f"form {form.split('{v}')[0].strip()[:18]}…", defs + form.format(v=v2) + "\n", True))
    ctx.bound("value_pool", len(pool))
    ctx.bound("functions_and_methods", len(funs))
    ctx.bound("deviation_bound_for_arity>=3", dev)

    jobs = [{"op": "run", "src": src, "tick_limit": 200000, "sandbox": sb} for _, src, sb in progs]
    res = ctx.pool.map(jobs, batch=24, timeout=20)
    kinds = {}
    for (key, src, sb), r in zip(progs, res):
        if "panic" in r or "crash" in r or "timeout" in r:
            what = "panic" if "panic" in r else ("crash" if "crash" in r else "does-not-end")
            msg = (r.get("panic") or r.get("crash") or "").split(" @ ")
            loc = msg[1].split(":")[0].replace("/repo/", "") if len(msg) > 1 else ""
            norm = normalise(msg[0])
            ctx.violation(f"{what} in {key}: {norm} ({loc})", {"src": src, "sandbox": sb, "result": r}, cli_cmd="garden run <file with src>")
            ctx.outcome(what)
            continue
        if "parse_errors" in r:
            raise Machinery(f"generated program does not parse: {src!r} {r['parse_errors'][0]['message']}")
        ctx.outcome(r["outcome"]["kind"])
    for f in cli_only:
        for args in ("", "1"):
            src = f"println(string_repr({f['name']}({args})))\n"
            rc, out, err = ctx.cli(["run", "-c", src], stdin=b"", timeout=30)
            progs.append((f"fun {f['name']} [cli]", src, False))
            if rc != 0:
                ctx.violation(f"cli exit {rc} in fun {f['name']}", {"src": src, "stderr": err[-400:]}, cli_cmd=f"garden run -c '{src.strip()}' </dev/null")
            ctx.outcome("ok" if "Ok(" in out else "exception")
    # value nesting ladder: deeply nested values built by a loop, then printed, compared, matched and dropped, one real CLI
    # process each under the default 8 MiB stack and a 4 GiB address-space cap
    progs += nesting_ladder(ctx)
    # CLI confirmation of (up to 30) violations
    for sig, v in list(ctx.violations.items())[:30]:
        d = v["detail"]
        path = ctx.tmpfile("confirm.gdn", d["src"])
        rc, out, err = ctx.cli(["run", path], stdin=b"", timeout=30)
        d["cli_exit"] = rc
        d["cli_stderr_tail"] = err[-400:]
        if rc == 101 or (isinstance(rc, int) and rc < 0) or rc == "timeout" or rc == 134:
            ctx.cov["cli_confirmed"] += 1
        elif d.get("sandbox"):
            pass   # sandboxed evaluation has no CLI equivalent for plain run; keep in-process verdict
        else:
            raise Machinery(f"adapter drift: in-process {sig} but CLI exit {rc}")
    ctx.add(states=len(progs), transitions=len(progs), nontrivial=len(progs))
    ctx.sample({"src": progs[0][1]})
    ctx.sample({"src": progs[len(progs) // 2][1]})
    ctx.sample({"src": progs[-1][1]})
    if ctx.cov["outcomes"].get("ok", 0) == 0 or ctx.cov["outcomes"].get("exception", 0) == 0:
        raise Machinery("vacuous: no program succeeded or none raised")
    return ("every public prelude/built-in function and method (parsed from the repository's own .gdn files) called with every argument vector over a 20-value pool "
            "(full product for <=2 positions, else all vectors deviating from a well-typed default in <=bound positions), arity n-1 and n+1; every binary operator and "
            "+=/-= over pool x pool; 74 syntax forms x pool. One call per program, fresh Env, tick limit 200k, sandbox on (effectful ones also off, in a scratch dir). "
            "Oracle: outcome is a value or an EvalError; a Rust panic, abort, signal or >20 s is a violation.")


NEST_KINDS = {"list": "[v]", "tuple": "(v, 1)", "option": "Some(v)", "struct": "Bx{ f: v }", "dict": 'Dict["k" => v]', "result": "Err(v)"}
NEST_OPS = {"string_repr": "println(string_repr(string_repr(v).len()))", "eq": "println(string_repr(v == w))", "drop": 'println("done")',
            "call": "println(string_repr(id(v) == v))", "match": "match Some(v) { Some(x) => println(\"m\") None => println(\"n\") }"}


def nesting_ladder(ctx):
    import concurrent.futures
    depths = [10, 100, 500] if ctx.quick else [10, 100, 500, 1000, 2000]
    ctx.bound("value_nesting_depths", depths)
    cases = []
    for kind, wrap in NEST_KINDS.items():
        for op, probe in NEST_OPS.items():
            for d in depths:
                src = ("struct Bx { f: Any }\nfun id(x) { x }\nfun build(n: Int) {\n  let v = Unit\n  let i = 0\n  while i < n {\n    v = " + wrap +
                       "\n    i += 1\n  }\n  v\n}\n" + f"let v = build({d})\nlet w = build({d})\n" + probe + "\n")
                cases.append((kind, op, d, src))

    def one(case):
        kind, op, d, src = case
        path = ctx.tmpfile(f"nest/{kind}-{op}-{d}.gdn", src)
        cmd = f"ulimit -v 4194304; exec {ctx.binary} run {path}"
        import subprocess
        try:
            p = subprocess.run(["/bin/sh", "-c", cmd], stdin=subprocess.DEVNULL, stdout=subprocess.PIPE, stderr=subprocess.PIPE, timeout=600)
            return p.returncode, p.stdout.decode("utf-8", "replace"), p.stderr.decode("utf-8", "replace")[-400:]
        except subprocess.TimeoutExpired:
            return "timeout", "", ""

    with concurrent.futures.ThreadPoolExecutor(8) as ex:
        results = list(ex.map(one, cases))
    failed = set()
    out = []
    for (kind, op, d, src), (rc, so, se) in sorted(zip(cases, results), key=lambda x: x[0][2]):
        out.append((f"nesting {kind} {op}", src, False))
        ok = rc == 0
        ctx.outcome("nest:ok" if ok else "nest:crash")
        if not ok and (kind, op) not in failed:
            failed.add((kind, op))
            how = "timeout" if rc == "timeout" else ("panic" if rc == 101 else ("stack overflow" if "overflowed its stack" in se else ("out of memory" if "memory allocation" in se else f"rc={rc}")))
            ctx.violation(f"deeply nested {kind} value, {op}: {how} at depth {d}", {"src": src, "rc": rc, "stderr_tail": se, "stdout": so[-200:]},
                          cli_cmd="garden run <file with src>")
    return out


def normalise(msg):
    import re
    msg = re.sub(r"`[^`]*`", "`…`", msg)
    msg = re.sub(r"'[^']*'", "'…'", msg)
    msg = re.sub(r"\d+", "N", msg)
    return msg[:120]
