"""C03 operator chains: left-associative, uniform precedence; parentheses override."""
REG = dict(
    engine='E1-enum',
    technique='bounded-exhaustive enumeration of operator words, executed on the real parser/evaluator, differential oracle',
    text="All 21^(n-1) operator words for n<=5 (quick) / n<=6 (thorough) are parsed by the real parser in-process and compared with the left-nested parenthesisation; every full parenthesisation for small n is compared with the shape its parentheses describe; Int chains are also evaluated. Exhaustive within the length bound, which is the level the property's quantifier (length 2..6 exhaustively) asks for.",
    note="Chains longer than the bound and operand expressions other than variables/literals are not covered; tree equality is the parser's own structural PartialEq / Debug form.",
    design_ref='DESIGN.md §6 C03',
)

import itertools
from ..core import Machinery

OPS = ["+", "+.", "-", "-.", "*", "*.", "/", "/.", "%", "**", "==", "!=", "<", "<=", ">", ">=", "&&", "||", "&", "|", "^"]
INT_OPS = ["+", "-", "*", "/", "%", "**", "==", "!=", "<", "<=", ">", ">="]


def parenthesisations(operands, ops):
    """All full parenthesisations of operands[0] ops[0] operands[1] ...; yields (text, shape)."""
    n = len(operands)
    if n == 1:
        yield operands[0], operands[0]
        return
    for split in range(1, n):
        for lt, ls in parenthesisations(operands[:split], ops[:split - 1]):
            for rt, rs in parenthesisations(operands[split:], ops[split:]):
                lt2 = f"({lt})" if split > 1 else lt
                rt2 = f"({rt})" if n - split > 1 else rt
                yield f"{lt2} {ops[split - 1]} {rt2}", f"({ls} {rs})"


def run(ctx):
    assert len(OPS) == 21
    nmax = 5 if ctx.quick else 6
    ctx.bound("chain_length_max", nmax)
    jobs = []
    for n in range(2, nmax + 1):
        for first in range(len(OPS)):
            jobs.append({"op": "chains", "ops": OPS, "n": n, "first": first})
    res = ctx.pool.map(jobs, batch=1, timeout=600)
    total = 0
    shapes_seen = {}
    for job, r in zip(jobs, res):
        if "count" not in r:
            raise Machinery(f"chains job failed: {r}")
        total += r["count"]
        for sh, c in r["shapes"].items():
            shapes_seen[(job["n"], sh)] = shapes_seen.get((job["n"], sh), 0) + c
        for b in r["bad"]:
            sig = f"chain n={job['n']} shape={b['shape']} expected={b['expected']}" if not (b["errors_a"] or b["errors_b"]) else f"chain n={job['n']} parse-errors"
            ctx.violation(sig, b, cli_cmd=f"garden reftest-ast <file containing: {b['chain']}>")
    expected_total = sum(21 ** (n - 1) for n in range(2, nmax + 1))
    if total != expected_total:
        raise Machinery(f"enumerated {total} chains, expected {expected_total}")
    ctx.add(states=total, transitions=2 * total, nontrivial=total - 21)
    for (n, sh), c in sorted(shapes_seen.items()):
        ctx.outcome(f"n={n} {sh}", c)
    ctx.sample({"chain": "a + b - c", "compared_with": "((a + b) - c)", "oracle": "equal trees after erasing Parentheses nodes"})

    # explicit parenthesisations override grouping: every full parenthesisation for n <= 4 (quick) / 5
    pmax = 4 if ctx.quick else 5
    ctx.bound("parenthesisation_length_max", pmax)
    pairs, meta = [], []
    names = list("abcdef")
    for n in range(2, pmax + 1):
        # operators: all words over a representative subset for n>=4 to keep the product finite but complete for n<=3
        alphabet = OPS if n <= 3 else (OPS if (not ctx.quick and n == 4) else ["-", "/", "**", "<", "&&", "^", "+."])
        for word in itertools.product(alphabet, repeat=n - 1):
            for text, shp in parenthesisations(names[:n], list(word)):
                pairs.append(text)
                meta.append(shp)
    jobs = [{"op": "front", "src": t, "want": ["ast"]} for t in pairs]
    res = ctx.pool.map(jobs, batch=200, timeout=60)
    from ..rustdbg import parse_debug, shape_of
    for text, want, r in zip(pairs, meta, res):
        if "ast" not in r:
            ctx.violation("parenthesised chain: front-end failure", {"src": text, "result": r})
            continue
        if r["parse_errors"]:
            ctx.violation("parenthesised chain: parse error", {"src": text, "errors": r["parse_errors"]})
            continue
        got = shape_of(parse_debug(r["ast"]))
        if got != want:
            ctx.violation(f"explicit parentheses not respected n={text.count(' ') // 2 + 1}", {"src": text, "expected_shape": want, "got_shape": got},
                          cli_cmd="garden reftest-ast")
    ctx.add(states=len(pairs), transitions=len(pairs), nontrivial=len(pairs))
    ctx.sample({"src": pairs[-1], "expected_shape": meta[-1]})

    # semantic cross-check through the real CLI: Int operators, n<=3 (quick) / 4, operand pool
    pool = [1, 2, 3, 7, 10]
    smax = 3 if ctx.quick else 4
    progs = []
    for n in range(3, smax + 1):
        for word in itertools.product(["-", "/", "%", "*", "+"], repeat=n - 1):
            for vals in itertools.product(pool, repeat=n) if n == 3 else [(10, 3, 2, 7), (7, 2, 3, 1), (10, 1, 1, 1), (3, 10, 7, 2)]:
                chain = str(vals[0]); nested = str(vals[0])
                for o, v in zip(word, vals[1:]):
                    chain += f" {o} {v}"; nested = f"({nested} {o} {v})"
                progs.append((chain, nested))
    jobs = []
    for chain, nested in progs:
        jobs.append({"op": "run", "src": f"println(string_repr({chain}))"})
        jobs.append({"op": "run", "src": f"println(string_repr({nested}))"})
    res = ctx.pool.map(jobs, batch=50, timeout=60)
    nconf = 0
    for i, (chain, nested) in enumerate(progs):
        a, b = res[2 * i], res[2 * i + 1]
        oa = (a.get("stdout"), (a.get("outcome") or {}).get("kind"))
        ob = (b.get("stdout"), (b.get("outcome") or {}).get("kind"))
        if oa != ob:
            n = chain.count(" ") // 2 + 1
            # confirm through the CLI
            rc, out, err = ctx.cli(["run", "-c", f"println(string_repr({chain}))"])
            rc2, out2, err2 = ctx.cli(["run", "-c", f"println(string_repr({nested}))"])
            nconf += 1
            if (out, rc) == (out2, rc2):
                raise Machinery(f"adapter drift: in-process differs but CLI agrees for {chain}")
            ctx.cov["cli_confirmed"] += 1
            ctx.violation(f"chain value differs from left-nested value n={n}", {"chain": chain, "nested": nested, "chain_prints": out, "nested_prints": out2},
                          cli_cmd=f"garden run -c 'println(string_repr({chain}))'")
    ctx.add(states=len(progs), transitions=2 * len(progs), nontrivial=len(progs))
    return ("every operator word of length n-1 over the 21 binary operators for n<=bound (in-process loop on the real parser), compared with the "
            "left-nested parenthesisation after erasing Parentheses nodes; every full parenthesisation for small n compared with the shape the "
            "parentheses describe; Int-operator chains evaluated and compared with the nested form. Non-trivial = chains with >=3 operands.")
