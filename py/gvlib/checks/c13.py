"""C13 `==` is structural equality on values."""
REG = dict(
    engine='E1-enum',
    technique='bounded-exhaustive enumeration of all ordered pairs over a pool of literal-syntax values, evaluated by the real interpreter, compared with structural identity computed outside the interpreter; equivalence laws checked over the whole observed relation',
    text="A pool of ~90 values that have literal syntax of nesting <=2 (ints incl. i64 extremes, floats incl. 0.0/-0.0 and a 1e100-sized one, strings incl. empty and non-ASCII, lists, tuples, dicts incl. the same entries in a different insertion order, Option, Result, Bool, Unit, two user structs with the same fields, a user enum; 13 of them built by computation rather than written as a literal, e.g. an empty list obtained by filtering). Every ordered pair (a, b), each side written as its own literal, is evaluated as `a == b` and `a != b` on the real interpreter; every value is also compared with itself through one variable (`let v = e  v == v`) and through two variables. Oracle: `a == b` is True exactly when the two values are structurally identical (computed in Python from the pool's own description and cross-checked against the partition induced by Garden's printed forms), `!=` is the negation, and the observed relation is reflexive, symmetric and transitive over all triples. Exhaustive over pool x pool. Thorough tier: the pool is extended by every pool value wrapped in a list, in Some(...) and in a pair (about 380 values, 145k ordered pairs).",
    note="Values outside the pool (deeper nesting, functions, closures, namespaces) are not covered. Struct literals that list the same fields in a different order are left out: they print differently, so the statement does not say whether they are the same value.",
    design_ref='DESIGN.md §6 C13',
)

import itertools, struct
from ..core import Machinery

PREFIX = ("struct Foo { f: Int, g: String }\n"
          "struct Bar { f: Int, g: String }\n"
          "struct Pt { v: Float }\n"
          "struct Bx<T> { f: T }\n"
          "enum Col { Red, Green, Cust(Int), Other(Int) }\n")

MAXI, MINI = 2**63 - 1, -2**63


def lit_string(s):
    return '"' + s.replace("\\", "\\\\").replace('"', '\\"').replace("\n", "\\n") + '"'


# ---- pool constructors: (source literal, canonical structure, kind tree)
def I(n): return (str(n), ("Int", n), ("Int", []))
def F(text): return (text, ("Float", struct.pack("<d", float(text))), ("Float", []))
def S(s): return (lit_string(s), ("String", s), ("String", []))
def L(*xs): return ("[" + ", ".join(x[0] for x in xs) + "]", ("List", tuple(x[1] for x in xs)), ("List", [x[2] for x in xs]))
def T(*xs): return ("(" + ", ".join(x[0] for x in xs) + ("," if len(xs) == 1 else "") + ")", ("Tuple", tuple(x[1] for x in xs)), ("Tuple", [x[2] for x in xs]))
def D(*kv): return ("Dict[" + ", ".join(f"{lit_string(k)} => {v[0]}" for k, v in kv) + "]", ("Dict", tuple(sorted((k, v[1]) for k, v in kv))), ("Dict", [v[2] for _, v in kv]))
def V(ty, name, *payload): return (name + ("(" + payload[0][0] + ")" if payload else ""), ("Enum", ty, name, payload[0][1] if payload else None), (ty, [p[2] for p in payload]))
def ST(ty, *fv): return (ty + "{ " + ", ".join(f"{f}: {v[0]}" for f, v in fv) + " }", ("Struct", ty, tuple((f, v[1]) for f, v in fv)), ("struct", [v[2] for _, v in fv]))


def Some(x): return V("Option", "Some", x)
NONE = V("Option", "None")
def Ok(x): return V("Result", "Ok", x)
def Err(x): return V("Result", "Err", x)
TRUE, FALSE, UNIT = V("Bool", "True"), V("Bool", "False"), V("Unit", "Unit")
RED, GREEN = V("enum", "Red"), V("enum", "Green")
def Cust(x): return V("enum", "Cust", x)
def Other(x): return V("enum", "Other", x)


def pool():
    big = "1" + "0" * 100 + ".0"
    P = [
        I(0), I(1), I(-1), I(2), I(MAXI), I(MINI),
        F("0.0"), F("-0.0"), F("1.0"), F("1.5"), F("-1.5"), F("0.1"), F(big), F("2.5"),
        S(""), S("a"), S("b"), S("ab"), S("é"), S("😀"), S("1"), S("a\nb"), S('"'),
        TRUE, FALSE, UNIT,
        L(), L(I(1)), L(I(1), I(2)), L(I(2), I(1)), L(F("1.5")), L(S("a")), L(L(I(1))), L(L()), L(Some(I(1))), L(D(("a", I(1)))),
        T(), T(I(1)), T(I(1), I(2)), T(I(2), I(1)), T(I(1), S("a")), T(F("1.5"), I(1)), T(T(I(1), I(2)), I(3)),
        D(), D(("a", I(1))), D(("a", I(2))), D(("b", I(1))), D(("a", I(1)), ("b", I(2))), D(("b", I(2)), ("a", I(1))), D(("a", F("1.5"))), D(("a", L(I(1)))),
        D(("a", D(("b", I(1))))), D(("", I(1))),
        NONE, Some(I(1)), Some(I(2)), Some(F("1.5")), Some(S("a")), Some(NONE), Some(Some(I(1))), Some(L(I(1))), Some(D(("a", I(1)))),
        Ok(I(1)), Err(I(1)), Ok(S("a")), Err(S("a")), Ok(Some(I(1))), Ok(UNIT), Ok(F("1.5")),
        ST("Foo", ("f", I(1)), ("g", S("a"))), ST("Foo", ("f", I(2)), ("g", S("a"))), ST("Foo", ("f", I(1)), ("g", S("b"))), ST("Bar", ("f", I(1)), ("g", S("a"))),
        ST("Pt", ("v", F("1.5"))), ST("Pt", ("v", F("2.5"))),
        # dicts whose values have different inferred types, in both insertion orders (the value type a dict carries
        # must not take part in equality)
        D(("a", L()), ("b", L(I(1)))), D(("b", L(I(1))), ("a", L())), D(("j", Some(I(2))), ("k", NONE)), D(("k", NONE), ("j", Some(I(2)))),
        D(("a", L(L())), ("b", L(L(I(1))))), D(("b", L(L(I(1)))), ("a", L(L()))), L(D(("a", L()), ("b", L(I(1))))), L(D(("b", L(I(1))), ("a", L()))),
        # dict / tuple / list members whose recorded types are mutually incomparable (Result<Int, NoValue> vs Result<NoValue, String>)
        D(("a", Ok(I(1))), ("b", Err(S("e")))), D(("b", Err(S("e"))), ("a", Ok(I(1)))), L(Ok(I(1)), Err(S("e"))), T(Ok(I(1)), Err(S("e"))),
        D(("a", Some(I(1))), ("b", NONE), ("c", Some(I(2)))), D(("c", Some(I(2))), ("b", NONE), ("a", Some(I(1)))),
        RED, GREEN, Cust(I(1)), Cust(I(2)), Other(I(1)),
        L(RED), Some(RED), T(RED, I(1)), L(ST("Foo", ("f", I(1)), ("g", S("a")))), Some(ST("Pt", ("v", F("1.5")))),
    ]
    # the same values (all have literal syntax) built by computation instead of a literal: "values built separately"
    def computed(src, like):
        return ("(" + src + ")", like[1], like[2])
    P += [
        computed("1 + 1", I(2)), computed('"a" ^ "b"', S("ab")), computed("0.5 +. 1.0", F("1.5")),
        computed("[1, 2].filter(fun(x: Int) { x < 2 })", L(I(1))), computed("[1].filter(fun(x: Int) { x > 1 })", L()), computed('["a"].filter(fun(x: String) { x == "b" })', L()),
        computed("[1].first()", Some(I(1))), computed("[1].get(5)", NONE),
        computed("[1, 2].slice(0, 0)", L()), computed("[1, 2].slice(0, 1)", L(I(1))), computed("[[1, 2].slice(0, 0)]", L(L())),
        computed('Dict["x" => 1].remove("x")', D()), computed('Dict[].set("a", 1)', D(("a", I(1)))), computed('Dict["a" => 1].set("b", 2)', D(("a", I(1)), ("b", I(2)))),
        computed('Dict["a" => [1], "b" => []].remove("a")', D(("b", L()))), D(("b", L())),
        Some(L()), computed("Some([1, 2].slice(0, 0))", Some(L())), ST("Bx", ("f", L())), computed("Bx{ f: [1, 2].slice(0, 0) }", ST("Bx", ("f", L()))),
    ]
    return P


def kind(ktree):
    """Top-level kind, plus which of the kinds Float / Dict occur inside (they are the ones a container's comparison delegates to)."""
    top, kids = ktree
    inside = set()

    def walk(t):
        if t[0] in ("Float", "Dict"):
            inside.add(t[0])
        for c in t[1]:
            walk(c)
    for c in kids:
        walk(c)
    if top in ("Float", "Dict"):
        return top            # these fail on their own, whatever they contain
    return top + (" containing " + " and ".join(sorted(inside)) if inside else "")


def operand(src):
    return f"({src})" if src.startswith("-") else src


def run(ctx):
    P = pool()
    if not ctx.quick:
        # thorough: every pool value once more inside each of three unary contexts
        P = P + [L(v) for v in P] + [Some(v) for v in P] + [T(v, I(1)) for v in P]
        seen, Q = set(), []
        for v in P:
            if v[0] not in seen:
                seen.add(v[0])
                Q.append(v)
        P = Q
    n = len(P)
    ctx.bound("pool_values", n)
    ctx.bound("nesting", 2)
    canon = [p[1] for p in P]
    kinds = [kind(p[2]) for p in P]
    if len({p[0] for p in P}) != n:
        raise Machinery("pool has duplicate literals")
    # printed forms (the statement's yardstick) must induce the same partition as the structural description
    r = ctx.pool.one({"op": "run", "src": PREFIX + "".join(f"println(string_repr({p[0]}))\n" for p in P), "tick_limit": 1000000})
    if "outcome" not in r or r["outcome"]["kind"] != "ok":
        raise Machinery(f"pool literals do not evaluate: {r}")
    # a printed form may span lines only for the string with a newline, which is escaped; so one line per value
    reprs = r["stdout"].split("\n")[:-1]
    if len(reprs) != n:
        raise Machinery(f"expected {n} printed forms, got {len(reprs)}")
    for i, j in itertools.product(range(n), repeat=2):
        if (reprs[i] == reprs[j]) != (canon[i] == canon[j]):
            raise Machinery(f"printed forms and structural description disagree for {P[i][0]} / {P[j][0]}: {reprs[i]!r} / {reprs[j]!r}")

    pairs = list(itertools.product(range(n), repeat=2))
    line = lambda i, j: f'println(string_repr({operand(P[i][0])} == {operand(P[j][0])}) ^ " " ^ string_repr({operand(P[i][0])} != {operand(P[j][0])}))\n'
    jobs, meta = [], []
    B = 100
    for k in range(0, len(pairs), B):
        chunk = pairs[k:k + B]
        jobs.append({"op": "run", "src": PREFIX + "".join(line(i, j) for i, j in chunk), "tick_limit": 2000000})
        meta.append(("pairs", chunk))
    # the same value through one variable, and two separately built copies through two variables
    jobs.append({"op": "run", "src": PREFIX + "".join(f'let v{i} = {P[i][0]}\nprintln(string_repr(v{i} == v{i}) ^ " " ^ string_repr(v{i} != v{i}))\n' for i in range(n)), "tick_limit": 2000000})
    meta.append(("onevar", list(range(n))))
    jobs.append({"op": "run", "src": PREFIX + "".join(f'let a{i} = {P[i][0]}\nlet b{i} = {P[i][0]}\nprintln(string_repr(a{i} == b{i}) ^ " " ^ string_repr(a{i} != b{i}))\n' for i in range(n)), "tick_limit": 2000000})
    meta.append(("twovars", list(range(n))))
    res = ctx.pool.map(jobs, batch=4, timeout=60)

    EQ, NE = {}, {}
    extra = {"onevar": {}, "twovars": {}}
    executions = len(jobs) + 1

    def parse_line(l):
        a, _, b = l.partition(" ")
        if a not in ("True", "False") or b not in ("True", "False"):
            return None
        return a == "True", b == "True"

    for (what, chunk), job, r in zip(meta, jobs, res):
        bad = "outcome" not in r or r["outcome"]["kind"] != "ok"
        lines = [] if bad else r["stdout"].split("\n")[:-1]
        if bad or len(lines) != len(chunk) or any(parse_line(l) is None for l in lines):
            if what != "pairs":
                raise Machinery(f"{what} program failed: {str(r)[:300]}")
            # attribute: run the pairs of this program one by one
            singles = ctx.pool.map([{"op": "run", "src": PREFIX + line(i, j), "tick_limit": 100000} for i, j in chunk], batch=8, timeout=30)
            executions += len(chunk)
            for (i, j), r1 in zip(chunk, singles):
                ok = "outcome" in r1 and r1["outcome"]["kind"] == "ok" and parse_line(r1["stdout"].strip("\n")) is not None
                if ok:
                    EQ[(i, j)], NE[(i, j)] = parse_line(r1["stdout"].strip("\n"))
                else:
                    EQ[(i, j)] = NE[(i, j)] = None
                    what_ = next((k for k in ("panic", "crash", "timeout", "parse_errors") if k in r1), None) or r1["outcome"]["kind"]
                    if what_ == "parse_errors":
                        raise Machinery(f"comparison does not parse: {line(i, j)}")
                    ctx.violation(f"{kinds[i]} == {kinds[j]}: neither True nor False ({what_})", {"a": P[i][0], "b": P[j][0], "result": {k: v for k, v in r1.items() if k != 'stdout'}},
                                  cli_cmd=f"garden run -c '{PREFIX}{line(i, j)}'")
            continue
        for key, l in zip(chunk, lines):
            e, ne = parse_line(l)
            if what == "pairs":
                EQ[key], NE[key] = e, ne
            else:
                extra[what][key] = (e, ne)

    def cli_of(i, j):
        return "garden run -c '" + (PREFIX if any(t in P[i][0] + P[j][0] for t in ("Foo", "Bar", "Pt", "Bx", "Red", "Green", "Cust", "Other")) else "") + f"println(string_repr({operand(P[i][0])} == {operand(P[j][0])}))'"

    n_true = n_false = 0
    for (i, j) in pairs:
        e, ne = EQ[(i, j)], NE[(i, j)]
        if e is None:
            continue
        same = canon[i] == canon[j]
        n_true += e
        n_false += not e
        d = {"a": P[i][0], "b": P[j][0], "a == b": e, "a != b": ne, "printed_a": reprs[i], "printed_b": reprs[j], "structurally_identical": same}
        if ne != (not e):
            ctx.violation(f"{kinds[i]} != {kinds[j]}: not the negation of ==", d, cli_cmd=cli_of(i, j))
        if same and not e:
            if i == j:
                d["same_value_through_one_variable (v == v)"] = extra["onevar"].get(i, (None,))[0]
                d["separately_built_through_two_variables (a == b)"] = extra["twovars"].get(i, (None,))[0]
                ctx.violation(f"{kinds[i]} == {kinds[j]}: reflexivity fails, a value is not equal to a separately written copy of itself", d, cli_cmd=cli_of(i, j))
            else:
                ctx.violation(f"{kinds[i]} == {kinds[j]}: structurally identical values (same printed form) compare unequal", d, cli_cmd=cli_of(i, j))
        elif not same and e:
            ctx.violation(f"{kinds[i]} == {kinds[j]}: different values compare equal", d, cli_cmd=cli_of(i, j))
    # through variables
    for what in ("onevar", "twovars"):
        for i in range(n):
            e, ne = extra[what][i]
            ctx.outcome(f"{what}:{e}")
            if ne != (not e):
                ctx.violation(f"{kinds[i]} != {kinds[i]}: not the negation of == (through variables)", {"value": P[i][0], "form": what, "==": e, "!=": ne})
            if not e and EQ[(i, i)]:
                # literal copies equal but variables not: a different defect from the literal one
                ctx.violation(f"{kinds[i]} == {kinds[i]}: equal as literals but unequal through variables ({what})", {"value": P[i][0], "form": what})
            if what == "twovars" and e != EQ[(i, i)] and EQ[(i, i)] is not None and e:
                ctx.violation(f"{kinds[i]} == {kinds[i]}: two separately built copies are equal through variables but not as literals", {"value": P[i][0]})
            if what == "onevar" and not e:
                ctx.violation(f"{kinds[i]} == {kinds[i]}: v == v is False", {"value": P[i][0]})
    # laws over the observed relation
    R = lambda i, j: EQ[(i, j)] is True
    for i in range(n):
        for j in range(i + 1, n):
            if EQ[(i, j)] is not None and EQ[(j, i)] is not None and R(i, j) != R(j, i):
                ctx.violation(f"{kinds[i]} == {kinds[j]}: symmetry fails", {"a": P[i][0], "b": P[j][0], "a == b": R(i, j), "b == a": R(j, i)}, cli_cmd=cli_of(i, j))
    succ = [[j for j in range(n) if R(i, j)] for i in range(n)]
    triples = 0
    for i in range(n):
        for j in succ[i]:
            for k in succ[j]:
                triples += 1
                if not R(i, k) and EQ[(i, k)] is not None:
                    ctx.violation(f"{kinds[i]} == {kinds[j]} == {kinds[k]}: transitivity fails", {"a": P[i][0], "b": P[j][0], "c": P[k][0]})
    ctx.outcome("a == b True", n_true)
    ctx.outcome("a == b False", n_false)
    ctx.outcome("transitivity premises (a==b and b==c)", triples)
    n_same = sum(1 for i, j in pairs if canon[i] == canon[j])
    if n_true == 0 or n_false == 0 or n_same <= n:
        raise Machinery("vacuous: == was never True / never False, or the pool has no pair of distinct literals for the same value")
    # struct literals written in different field orders: values that differ field by field must be unequal whatever the
    # order the fields are written in (whether the SAME fields in another order are equal is left open by the statement)
    fo = [("Sw{ x: 1, y: 2 }", "Sw{ y: 1, x: 2 }"), ("Sw{ y: 2, x: 1 }", "Sw{ y: 1, x: 2 }"), ("Sw{ x: 1, y: 2 }", "Sw{ x: 2, y: 1 }"),
          ("[Sw{ x: 1, y: 2 }]", "[Sw{ y: 1, x: 2 }]"), ("Some(Sw{ x: 1, y: 2 })", "Some(Sw{ y: 1, x: 2 })"), ("Sg{ a: \"p\", b: \"q\" }", "Sg{ b: \"p\", a: \"q\" }"),
          ("Dict[\"k\" => Sw{ x: 1, y: 2 }]", "Dict[\"k\" => Sw{ y: 1, x: 2 }]")]
    src = "struct Sw { x: Int, y: Int }\nstruct Sg { a: String, b: String }\n" + "".join(f"println(string_repr({a} == {b}) ^ \" \" ^ string_repr({a} != {b}))\n" for a, b in fo)
    r = ctx.pool.one({"op": "run", "src": src, "tick_limit": 100000})
    lines = (r.get("stdout") or "").split("\n")[:-1]
    if (r.get("outcome") or {}).get("kind") != "ok" or len(lines) != len(fo):
        raise Machinery(f"field-order program failed: {str(r)[:300]}")
    for (a, b), line in zip(fo, lines):
        if line != "False True":
            ctx.violation("struct == struct: values that differ field by field compare equal when the fields are written in another order", {"a": a, "b": b, "printed": line},
                          cli_cmd=f"garden run -c 'println(string_repr({a} == {b}))'")
    ctx.outcome("field-order pairs", len(fo))
    ctx.add(states=len(pairs) + 2 * n, transitions=executions, evaluations=2 * len(pairs) + 4 * n, nontrivial=n_same + sum(1 for i, j in pairs if kinds[i] == kinds[j] and canon[i] != canon[j]))
    ctx.sample({"a": P[9][0], "b": P[9][0], "a == b": EQ[(9, 9)], "expected": True})
    i47 = next(i for i in range(n) if P[i][0] == 'Dict["a" => 1, "b" => 2]')
    ctx.sample({"a": P[i47][0], "b": P[i47 + 1][0], "a == b": EQ[(i47, i47 + 1)], "expected": canon[i47] == canon[i47 + 1]})
    ctx.sample({"a": P[1][0], "b": P[20][0], "a == b": EQ[(1, 20)], "expected": False})
    ctx.assume("structural identity: same constructor/type name and identical parts; floats by bit pattern (so 0.0 and -0.0 differ, as their printed forms do); dicts by their set of entries")
    return (f"all {len(pairs)} ordered pairs over a pool of {n} values that have literal syntax (each side written out separately; 13 of the base pool are computed instead of written as a literal), `==` and `!=`, 100 pairs per program; plus every value against itself through one and two variables. "
            "Oracle: == is True exactly for structurally identical values (Python-side description, cross-checked against Garden's printed forms), != is its negation, and the observed relation is reflexive, symmetric and transitive over all triples. "
            "Non-trivial = pairs of identical values plus pairs of different values of the same kind.")
