"""C12 printed values read back as equal values."""
REG = dict(
    engine='E1-enum',
    technique='bounded-exhaustive enumeration of literal-syntax values (every string up to a length bound over an alphabet of all lexer-relevant characters; boundary ints; a float pool; containers of nesting <=2), printed by the real `string_repr`, the printed text re-read and re-evaluated by the real lexer/parser/interpreter',
    text="Strings: every string of length <=3 (quick) / <=4 (thorough) over the 13-character alphabet {a, double quote, backslash, n, t, LF, TAB, CR, space, é, 😀, {, $} (every character the lexer's string regex, `unescape_string` and `escape_string_literal` treat specially, the letters that follow a backslash in an escape, and candidates for interpolation syntax). The string value is built without literal syntax (it arrives as a program argument and is checked raw on stdout), T = stdout of `print(string_repr(v))`, then the program `print(<T>)` must parse, evaluate without error and write exactly the original characters. Separately the minimally escaped literal of the same string is checked to denote it. Ints (boundary set), floats (pool incl. 1e15..1e22, 1e-5..1e-9, -0.0, 5e-324, 1e308, MAX) and containers (lists, tuples, dicts with every key of length <=1, Option, Result, Bool, Unit, a user struct, a user enum; nesting <=2 over a 7-value element pool): T must parse and evaluate, print as T again, and for numbers denote the same number (floats bit-for-bit).",
    note="Equality is judged by raw characters (strings), numeric value (ints, floats) or by the re-printed form (containers), never by Garden's `==` (C13 owns that). Containers of nesting 2 are unary contexts around every nesting-1 value. The REPL/session display path uses the same `Value::display` and is not exercised separately.",
    design_ref='DESIGN.md §6 C12',
)

import itertools, struct
from decimal import Decimal
from ..core import Machinery
from .c04 import boundary, FLOATS as C04_FLOATS

ALPHABET = ["a", '"', "\\", "n", "t", "\n", "\t", "\r", " ", "é", "😀", "{", "$"]
SEP = "@@"          # cannot occur in any printed form: no value below contains '@'
PREFIX = "struct Box<T, U> { f: T, g: U }\nenum Col<T> { Red, Cust(T) }\n"
NAMES = {'"': "double quote", "\\": "backslash", "\n": "LF", "\t": "TAB", "\r": "CR", "{": "brace", "$": "dollar"}


def min_literal(s):
    """The literal with only the escapes that are unavoidable: quote and backslash. LF, TAB and CR are written raw."""
    return '"' + s.replace("\\", "\\\\").replace('"', '\\"') + '"'


def str_class(s):
    """Character class of a string, for signatures."""
    if s.endswith("\\"):
        return "ending in a backslash"
    feats = sorted({NAMES[c] for c in s if c in NAMES} | ({"non-ASCII"} if any(ord(c) > 127 for c in s) else set()))
    return ("containing " + ", ".join(feats)) if feats else ("empty" if not s else "plain")


def float_literal(x):
    s = format(Decimal(repr(x)), "f")
    return s if "." in s else s + ".0"


def bits(f):
    return struct.pack("<d", f)


def float_pool():
    xs = [float(t) for t in C04_FLOATS]
    xs += [10.0 ** k for k in range(15, 24)] + [10.0 ** -k for k in range(5, 10)]
    xs += [-0.0, 5e-324, 1e308, 1.7976931348623157e308, 2.2250738585072014e-308, 0.1 + 0.2, 1 / 3, 4.35, 9007199254740993.0, 9007199254740992.0, 0.5, 100.0, 1e16 + 2, 123456.789e3]
    xs += [-x for x in xs if x != 0.0]
    out, seen = [], set()
    for x in xs:
        if bits(x) not in seen:
            seen.add(bits(x))
            out.append(x)
    return out


# ---- containers: (expression, kind, classes of the strings inside). Strings with special characters are not written as
# literals: they arrive as program arguments and are bound to variables by ARG_PREFIX, so building the value never depends on the lexer.
SPECIAL = 'b"\\c\nd'
BACKSL = "x\\"
KEYS = [""] + ALPHABET
ARGS = [SPECIAL, BACKSL] + KEYS
ARG_PREFIX = "let sa = shell_arguments()\nlet s_special = sa.get(0).or_throw()\nlet s_backsl = sa.get(1).or_throw()\n" + "".join(f"let k{i} = sa.get({i + 2}).or_throw()\n" for i in range(len(KEYS)))


def element_pool():
    return [("1", "Int", []), ("-1", "Int", []), ("1.5", "Float", []), ('"a"', "String", []), ("s_special", "String", [str_class(SPECIAL)]), ("s_backsl", "String", [str_class(BACKSL)]), ("True", "Bool", [])]


def depth1(E):
    out = [("[]", "List", []), ("()", "Tuple", []), ("Dict[]", "Dict", []), ("None", "Option", []), ("True", "Bool", []), ("False", "Bool", []), ("Unit", "Unit", []), ("Red", "enum", [])]
    for e in E:
        out += [(f"[{e[0]}]", "List", e[2]), (f"({e[0]},)", "Tuple", e[2]), (f"Some({e[0]})", "Option", e[2]), (f"Ok({e[0]})", "Result", e[2]), (f"Err({e[0]})", "Result", e[2]),
                (f"Cust({e[0]})", "enum", e[2])]
    for a, b in itertools.product(E, repeat=2):
        out += [(f"[{a[0]}, {b[0]}]", "List", a[2] + b[2]), (f"({a[0]}, {b[0]})", "Tuple", a[2] + b[2]), (f"Box{{ f: {a[0]}, g: {b[0]} }}", "struct", a[2] + b[2]),
                (f'Dict["a" => {a[0]}, "b" => {b[0]}]', "Dict", a[2] + b[2])]
    for i, k in enumerate(KEYS):
        for e in E:
            out.append((f"Dict[k{i} => {e[0]}]", "Dict", e[2] + (["(as a key) " + str_class(k)] if str_class(k) not in ("plain", "empty") else [])))
    return out


def depth2(C1):
    out = []
    for c in C1:
        lit, kind, cls = c
        inner = f" of {kind}"
        out += [(f"[{lit}]", "List" + inner, cls), (f"({lit}, 1)", "Tuple" + inner, cls), (f"Some({lit})", "Option" + inner, cls), (f"Ok({lit})", "Result" + inner, cls), (f"Err({lit})", "Result" + inner, cls),
                (f'Dict["a" => {lit}]', "Dict" + inner, cls), (f'Box{{ f: {lit}, g: "a" }}', "struct" + inner, cls), (f"Cust({lit})", "enum" + inner, cls)]
    return out


def cont_class(c, failing_alone=()):
    """Input class of a container for signatures: the classes of the special strings it holds if any (the container kind is then beside the point), else its kind.
    Classes of strings that fail in the same way on their own (outside any container) take the blame alone."""
    cls = sorted(set(c[2]))
    blamed = [x for x in cls if x.replace("(as a key) ", "") in failing_alone]
    cls = blamed or cls
    return ("container holding a String " + " and a String ".join(cls)) if cls else c[1]


def split_out(stdout, n):
    parts = stdout.split(SEP)
    if len(parts) != n + 1 or parts[-1] != "":
        return None
    return parts[:-1]


def why_failed(r):
    if "parse_errors" in r:
        return "does not parse", r["parse_errors"][0]["message"]
    for k in ("panic", "crash", "timeout"):
        if k in r:
            return k, str(r[k])[:200]
    if r["outcome"]["kind"] != "ok":
        return "evaluates to an error", r["outcome"].get("message", r["outcome"]["kind"])[:200]
    return None


def run_batched(ctx, items, make_src, batch, prefix="", args=None):
    """items -> per item (stdout part or None, failure or None). A program holds `batch` items, each followed by the separator;
    when a program fails as a whole (one bad item can swallow the rest of the file) its items are re-run one per program."""
    jobs = [{"op": "run", "src": prefix + "".join(make_src(x) + f'\nprint("{SEP}")\n' for x in items[i:i + batch]), "tick_limit": 2000000, "args": args or []} for i in range(0, len(items), batch)]
    res = ctx.pool.map(jobs, batch=8, timeout=60)
    out = [None] * len(items)
    redo = []
    n_exec = len(jobs)
    for bi, r in enumerate(res):
        chunk = range(bi * batch, min(len(items), (bi + 1) * batch))
        parts = None if why_failed(r) else split_out(r["stdout"], len(chunk))
        if parts is None:
            redo.extend(chunk)
        else:
            for i, p in zip(chunk, parts):
                out[i] = (p, None)
    if redo:
        singles = ctx.pool.map([{"op": "run", "src": prefix + make_src(items[i]) + f'\nprint("{SEP}")\n', "tick_limit": 200000, "args": args or []} for i in redo], batch=16, timeout=30)
        n_exec += len(redo)
        for i, r in zip(redo, singles):
            f = why_failed(r)
            if f:
                out[i] = (None, f)
            else:
                parts = split_out(r["stdout"], 1)
                out[i] = (parts[0], None) if parts is not None else (None, ("prints something that contains the separator", r["stdout"][:200]))
    return out, n_exec


def run(ctx):
    maxlen = 3 if ctx.quick else 4
    ctx.bound("string_length", maxlen)
    ctx.bound("alphabet", len(ALPHABET))
    strings = [""] + ["".join(t) for n in range(1, maxlen + 1) for t in itertools.product(ALPHABET, repeat=n)]
    execs = 0

    # ---------- strings, value built without literal syntax (program arguments)
    A = 50
    jobs = [{"op": "run", "src": f'for s in shell_arguments() {{ print(string_repr(s)) print("{SEP}") print(s) print("{SEP}") }}', "args": strings[i:i + A], "tick_limit": 2000000}
            for i in range(0, len(strings), A)]
    res = ctx.pool.map(jobs, batch=4, timeout=60)
    execs += len(jobs)
    T = []
    for bi, r in enumerate(res):
        chunk = strings[bi * A:(bi + 1) * A]
        f = why_failed(r)
        parts = None if f else split_out(r["stdout"], 2 * len(chunk))
        if parts is None:
            raise Machinery(f"argument channel failed: {f or r['stdout'][:200]}")
        for k, s in enumerate(chunk):
            if parts[2 * k + 1] != s:
                raise Machinery(f"argument channel does not deliver the intended string {s!r}: {parts[2 * k + 1]!r}")
            T.append(parts[2 * k])
    # T read back
    back, n = run_batched(ctx, T, lambda t: f"print({t})", 10)
    execs += n
    n_ok = 0
    failing_alone = {}
    for s, t, (got, fail) in zip(strings, T, back):
        if fail:
            failing_alone.setdefault(fail[0], set()).add(str_class(s))
    for s, t, (got, fail) in zip(strings, T, back):
        d = {"string": s, "string_chars": [c if c.isprintable() and c != " " else repr(c) for c in s], "printed_form": t}
        cli = "garden run <file containing: print(" + t.replace("\n", "\\n") + ")>"
        if fail:
            ctx.outcome("string: printed form " + fail[0])
            ctx.violation(f"String {str_class(s)}: printed form {fail[0]}", dict(d, error=fail[1]), cli_cmd=cli)
        elif got != s:
            ctx.outcome("string: reads back different")
            ctx.violation(f"String {str_class(s)}: printed form reads back as a different string", dict(d, read_back=got), cli_cmd=cli)
        else:
            n_ok += 1
            ctx.outcome("string: round trip ok")
    if n_ok == 0:
        raise Machinery("vacuous: no string survived the round trip")
    if not any('\\' in t[1:-1] for t in T):
        raise Machinery("vacuous: no printed form contains an escape")
    # the minimally escaped literal denotes the string (lexer / unescape on their own; separate signatures)
    lit, n = run_batched(ctx, strings, lambda s: f"print({min_literal(s)})", 10)
    execs += n
    for s, (got, fail) in zip(strings, lit):
        d = {"string_chars": [c if c.isprintable() and c != " " else repr(c) for c in s], "literal": min_literal(s)}
        if fail:
            ctx.outcome("literal: " + fail[0])
            ctx.violation(f"String literal {str_class(s)} (only quote and backslash escaped): {fail[0]}", dict(d, error=fail[1]))
        elif got != s:
            ctx.outcome("literal: different string")
            ctx.violation(f"String literal {str_class(s)} (only quote and backslash escaped): denotes a different string", dict(d, denotes=got))
        else:
            ctx.outcome("literal: ok")
    states = 2 * len(strings)

    # ---------- ints and floats
    ints = sorted(set(boundary()) | {2**63 - 1, -2**63})
    floats = float_pool()
    ctx.bound("ints", len(ints))
    ctx.bound("floats", len(floats))
    # ints are built by arithmetic from two halves, not written as the literal under test (the printed form of a value has to
    # read back even if the program that produced the value never wrote it as a literal: i64::MIN comes out of arithmetic)
    def int_src(i):
        return str(i) if abs(i) < 1000 else f"({i // 2} + {i - i // 2})"
    nums = [("Int", int_src(i), i) for i in ints] + [("Float", float_literal(x), x) for x in floats]
    pr, n = run_batched(ctx, nums, lambda c: f"print(string_repr({c[1]}))", 50)
    execs += n
    num_T = []
    for (kind, src, val), (t, fail) in zip(nums, pr):
        if fail:
            raise Machinery(f"number literal {src[:40]} does not evaluate: {fail}")
        num_T.append(t)
    back, n = run_batched(ctx, num_T, lambda t: f"print(string_repr({t}))", 50)
    execs += n
    for (kind, src, val), t, (t2, fail) in zip(nums, num_T, back):
        tag = num_class(kind, val)
        d = {"literal": src if len(src) < 60 else src[:30] + "…" + src[-20:], "printed_form": t if len(t) < 60 else t[:30] + "…" + t[-20:]}
        try:
            same = (int(t) == val) if kind == "Int" else (bits(float(t)) == bits(val) and "." in t and "e" not in t.lower() and "inf" not in t and "nan" not in t.lower())
        except ValueError:
            same = False
        if not same:
            ctx.violation(f"{kind} {tag}: printed form denotes a different number", d)
        elif fail:
            ctx.violation(f"{kind} {tag}: printed form {fail[0]}", dict(d, error=fail[1]))
        elif t2 != t:
            ctx.violation(f"{kind} {tag}: printed form reads back as a different value", dict(d, read_back=t2))
        else:
            ctx.outcome(f"{kind}: round trip ok")
    states += len(nums)

    # ---------- containers
    E = element_pool()
    C1 = depth1(E)
    C2 = depth2(C1)
    conts = C1 + C2
    ctx.bound("containers_nesting1", len(C1))
    ctx.bound("containers_nesting2", len(C2))
    pr, n = run_batched(ctx, conts, lambda c: f"print(string_repr({c[0]}))", 40, prefix=PREFIX + ARG_PREFIX, args=ARGS)
    execs += n
    cont_T = []
    for c, (t, fail) in zip(conts, pr):
        if fail:
            raise Machinery(f"container expression {c[0]} does not evaluate: {fail}")
        cont_T.append(t)
    usable = conts
    back, n = run_batched(ctx, cont_T, lambda t: f"print(string_repr({t}))", 40, prefix=PREFIX)
    execs += n
    for c, t, (t2, fail) in zip(usable, cont_T, back):
        d = {"built_as": c[0], "printed_form": t}
        cli = "garden run <file containing the struct/enum prefix and: print(string_repr(" + t + "))>"
        if fail:
            ctx.outcome("container: printed form " + fail[0])
            ctx.violation(f"{cont_class(c, failing_alone.get(fail[0], ()))}: printed form {fail[0]}", dict(d, kind=c[1], error=fail[1]), cli_cmd=cli)
        elif t2 != t:
            ctx.violation(f"{cont_class(c)}: printed form reads back as a different value", dict(d, kind=c[1], read_back=t2), cli_cmd=cli)
        else:
            ctx.outcome("container: round trip ok")
    states += len(conts)

    # confirm one instance per printed-form signature through the real CLI
    for sig, v in list(ctx.violations.items()):
        d = v["detail"]
        if "printed_form" not in d or "…" in d["printed_form"]:
            continue
        body = f"print({d['printed_form']})" if sig.startswith("String ") else PREFIX + f"print(string_repr({d['printed_form']}))"
        path = ctx.tmpfile("confirm.gdn", body + "\n")
        rc, out, err = ctx.cli(["run", path], stdin=b"", timeout=60)
        d["cli_stdout"], d["cli_stderr_tail"] = out[-200:], err[-300:]
        if "does not parse" in sig or "evaluates to an error" in sig:
            if err.strip() == "":
                raise Machinery(f"adapter drift: '{sig}' not reproduced by `garden run` (no error reported)")
            ctx.cov["cli_confirmed"] += 1
        elif "reads back" in sig:
            if out == (d["string"] if sig.startswith("String ") else d["printed_form"]):
                raise Machinery(f"adapter drift: '{sig}' not reproduced by `garden run`")
            ctx.cov["cli_confirmed"] += 1

    ctx.add(states=states, transitions=execs, evaluations=2 * len(strings) + len(strings) + 2 * len(nums) + 2 * len(conts),
            nontrivial=sum(1 for s in strings if any(c in NAMES or ord(c) > 127 for c in s)) + len(nums) + len(conts))
    i1 = strings.index('a"\\')
    ctx.sample({"string_chars": ["a", '"', "\\"], "printed_form": T[i1]})
    i2 = strings.index("\n\t\r")
    ctx.sample({"string_chars": ["LF", "TAB", "CR"], "printed_form": T[i2]})
    ctx.sample({"float_literal": float_literal(5e-324)[:12] + "…", "printed_form": num_T[[c[2] for c in nums].index(5e-324)][-12:]})
    ctx.sample({"container": C2[len(C2) // 2][0], "printed_form": cont_T[usable.index(C2[len(C2) // 2])] if C2[len(C2) // 2] in usable else None})
    ctx.assume("string values are delivered as program arguments (`shell_arguments()`), so no literal syntax is involved in building them; the delivery is verified raw on stdout")
    return (f"every string of length <= {maxlen} over a 13-character alphabet ({len(strings)} strings): printed by string_repr, printed text re-read as a program, raw output compared with the original characters; "
            f"the minimally escaped literal of each string separately; {len(ints)} boundary ints and {len(floats)} floats (numeric value of the printed form, bit-for-bit for floats, and re-print); "
            f"{len(C1)} containers of nesting 1 and {len(C2)} of nesting 2 over a 7-value element pool and all dict keys of length <= 1 (re-print equals print). "
            "Non-trivial = strings with at least one special character, all numbers, all containers.")


def num_class(kind, val):
    if kind == "Int":
        return "at an i64 extreme" if val in (2**63 - 1, -2**63) else ("negative" if val < 0 else "non-negative")
    a = abs(val)
    if val == 0:
        return "negative zero" if str(val).startswith("-") else "zero"
    return ("negative " if val < 0 else "") + ("of magnitude >= 1e16" if a >= 1e16 else ("of magnitude < 1e-4" if a < 1e-4 else "of ordinary magnitude"))
