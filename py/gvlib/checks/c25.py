"""C25 sandboxed runs always finish within their step budget."""
REG = dict(
    engine='E1-enum',
    technique='exhaustive enumeration of divergence mechanism x program position x sandbox mode, each run as a real CLI process under an address-space limit and a wall-clock cap',
    text="A finite family per way of not finishing: 13 never-terminating loop/recursion forms (while, for, self/mutual/closure/method/callback recursion, endless printing, read_line on an open stdin), 6 sequences of two or three never-ending evaluations in one sandboxed run (tests then top level; several tests of one function), 9 value-growth forms whose size doubles or nests per iteration (string, list, Option, tuple, dict; by loop and by recursion), every public prelude function and method called on large arguments (256 KiB string, 65k-element list, i64 extremes; does one interpreter step stay bounded?), recursion to every depth 994..1006 (quick) / 985..1015 (thorough) around the 1 000-frame limit (plus 10, 100, 900, 1 100, 2 000) and a ladder of values nested 10..1 000 (quick) / 10..100 000 (thorough) deep that are then dropped, printed, compared or shown. Each is placed at top level, in a function, closure, method and test body and run with `playground-run` and `sandboxed-test` (growth forms: reduced cross in quick). Oracle: the process exits by itself with status 0 and a JSON result (value, error, tick- or stack-limit error): no signal, no panic (101), no allocation failure under RLIMIT_AS, not the wall cap (60 s, 180 s for the memory-growing families; a timed-out case is re-run with 3x the cap before it counts).",
    note='Limits are the fixed sandbox limits (100 000 ticks, 1 000 frames). Address space is limited to 1 GiB; for programs that are unbounded by construction (the growth family) any limit is fair, an allocation failure of a bounded program is re-run under 4 GiB before it counts. Re-runs go two at a time rather than strictly alone. Only the listed mechanisms are covered, not their compositions.',
    design_ref='DESIGN.md §6 C25',
)
LEVEL = "model_checking"

import json, os, threading

from ..core import Machinery
from .. import builtins as bi
from .. import clijobs

POSITIONS = ["top", "fun", "closure", "method", "test"]
MODES = ["playground-run", "sandboxed-test"]
GIB = 1024 * 1024
WALL = 60.0
HEAVY_PARALLEL = 6
BIGSTR = 'let big = "ab"\nlet big_i = 0\nwhile big_i < 17 { big = big ^ big big_i += 1 }\n'          # 256 KiB
BIGLIST = 'let bigl_s = "ab"\nlet bigl_i = 0\nwhile bigl_i < 15 { bigl_s = bigl_s ^ bigl_s bigl_i += 1 }\nlet bigl = bigl_s.chars()\n'   # 65 536 one-character strings
MAXI, MINI = "9223372036854775807", "-9223372036854775808"


def place(defs, body, pos, mode):
    """Program text with `body` (statements) at position pos; None when the combination does not exist."""
    ind = lambda s: s.replace("\n", "\n  ")
    if mode == "playground-run":
        if pos == "top":
            return defs + body + "\n"
        if pos == "fun":
            return defs + f"fun go() {{\n  {ind(body)}\n}}\ngo()\n"
        if pos == "closure":
            return defs + f"let go = fun() {{\n  {ind(body)}\n}}\ngo()\n"
        if pos == "method":
            return defs + f"method go(this: Int) {{\n  {ind(body)}\n}}\n1.go()\n"
        if pos == "test":
            return defs + f"test t {{\n  {ind(body)}\n}}\n"
    else:
        if pos == "top":
            return None          # sandboxed-test does not evaluate top-level expressions
        if pos == "fun":
            return defs + f"fun go() {{\n  {ind(body)}\n}}\ntest t {{\n  go()\n}}\n"
        if pos == "closure":
            return defs + f"test t {{\n  let go = fun() {{\n    {ind(ind(body))}\n  }}\n  go()\n}}\n"
        if pos == "method":
            return defs + f"method go(this: Int) {{\n  {ind(body)}\n}}\ntest t {{\n  1.go()\n}}\n"
        if pos == "test":
            return defs + f"test t {{\n  {ind(body)}\n}}\n"
    raise ValueError(pos)


def loops():
    """(name, defs, body, hold_stdin)"""
    return [
        ("loop: while True {}", "", "while True {}", False),
        ("loop: while counting up", "", "let i = 0\nwhile True { i += 1 }", False),
        ("loop: while True { continue }", "", "while True { continue }", False),
        ("loop: for with a never-ending inner while", "", "for x in [1, 2, 3] { while True {} }", False),
        ("loop: for over range(0, 10^12)", "", "for x in range(0, 1000000000000) {}", False),
        ("loop: endless println", "", 'while True { println("x") }', False),
        ("recursion: self", "fun rec_f() { rec_f() }\n", "rec_f()", False),
        ("recursion: self, not in tail position", "fun rec_n(n: Int): Int { 1 + rec_n(n + 1) }\n", "rec_n(0)", False),
        ("recursion: mutual", "fun rec_a() { rec_b() }\nfun rec_b() { rec_a() }\n", "rec_a()", False),
        ("recursion: closure applied to itself", "", "let k = fun(g) { g(g) }\nk(k)", False),
        ("recursion: method", "method rec_m(this: Int) { this.rec_m() }\n", "1.rec_m()", False),
        ("recursion: through a map callback", "fun rec_map() { [1].map(fun(_) { rec_map() }) }\n", "rec_map()", False),
        ("blocking: read_line with stdin open", "", "let line = read_line()\nthrow(string_repr(line))", True),
    ]


QUICK_BOTH_MODES = ("growth: string doubling in a loop", "growth: list nesting in a loop")


def growth():
    """(name, defs, body): unbounded by construction (any memory cap is fair)."""
    return [
        ("growth: string doubling in a loop", "", 'let s = "ab"\nwhile True { s = s ^ s }'),
        ("growth: string doubling by recursion", "fun grow_s(s: String) { grow_s(s ^ s) }\n", 'grow_s("ab")'),
        ("growth: list doubling with concat", "", "let l = [1, 2]\nwhile True { l = l.concat(l) }"),
        ("growth: list nesting by recursion", "fun grow_l(l) { grow_l([l]) }\n", "grow_l([])"),
        ("growth: tuple doubling in a loop", "", "let t = (1, 1)\nwhile True { t = (t, t) }"),
        ("growth: list of two shared halves in a loop", "", "let t = [1]\nwhile True { t = [t, t] }"),
    ] + [(f"growth: {nname} nesting in a loop", "", f"let v = {init}\nwhile True {{ v = {step} }}") for nname, init, step in NESTERS]


def big_arg(hint, which):
    """Source of a large (which='big') or ordinary (which='small') argument for a type hint; (src, prelude needed)."""
    name, args = (hint[1], hint[2]) if hint else (None, [])
    big = which == "big"
    if name == "String":
        return ("big", BIGSTR) if big else ('"a"', "")
    if name == "Int":
        return (MAXI, "") if big else ("1", "")
    if name == "Float":
        return ("1.0e308", "") if big else ("1.5", "")
    if name == "List":
        inner = args[0][1] if args else None
        if inner == "Int":
            return ("range(0, 2000)", "") if big else ("[1, 2]", "")
        if inner == "String" or inner is None or len(inner) == 1:
            return ("bigl", BIGLIST) if big else ('["a"]', "")
        return ("[" + bi.default_for(args[0]) + "]", "")
    if name == "Option":
        s, p = big_arg(args[0] if args else None, which)
        return (f"Some({s})", p)
    if name == "Dict":
        return ('Dict["k" => big]', BIGSTR) if big else ('Dict["k" => 1]', "")
    if name == "Fun":
        n = len(args[0][2]) if args and args[0][1] == "Tuple" else 1
        ps = ", ".join(f"p{i}" for i in range(n))
        ret = args[1][1] if len(args) > 1 and args[1] else None
        return (f"fun({ps}) {{ {'True' if ret == 'Bool' else 'p0' if n else '1'} }}", "")
    if name is not None and len(name) == 1:      # type parameter
        return ("big", BIGSTR) if big else ("1", "")
    return (bi.default_for(hint), "")


def builtin_calls(ctx):
    """One program per public prelude function/method x {all arguments large, receiver large + others small, receiver small + others large}."""
    out = []
    skip = {"read_line", "todo", "throw"}
    for f in bi.load(ctx):
        if not f["public"] or f["file"] != "__prelude.gdn" or f["name"] in skip:
            continue
        hints = ([f["recv_hint"]] if f["kind"] == "method" else []) + [h for _, h in f["params"]]
        if not hints:
            continue
        shapes = [("all large", ["big"] * len(hints))]
        if len(hints) > 1:
            shapes.append(("first large", ["big"] + ["small"] * (len(hints) - 1)))
            shapes.append(("rest large", ["small"] + ["big"] * (len(hints) - 1)))
        for sname, shape in shapes:
            srcs, pre = [], []
            for h, w in zip(hints, shape):
                s, p = big_arg(h, w)
                srcs.append(s)
                if p and p not in pre:
                    pre.append(p)
            if f["kind"] == "method":
                recv = srcs[0] if not (srcs[0].startswith("-") or srcs[0].startswith("fun")) else f"({srcs[0]})"
                call = f"{recv}.{f['name']}({', '.join(srcs[1:])})"
                key = f"{f['recv_hint'][1] if f['recv_hint'] else '?'}::{f['name']}"
            else:
                call = f"{f['name']}({', '.join(srcs)})"
                key = f["name"]
            body = "".join(pre) + f"let r = {call}\nstring_repr(r).len()"
            out.append((f"large arguments: {key} ({sname})", "", body))
    return out


def depth_cases(quick):
    ds = sorted(set([10, 100, 900, 1100, 2000] + (list(range(994, 1007)) if quick else list(range(985, 1016)))))
    kinds = [("deep recursion: function", "fun deep(n: Int): Int { if n == 0 { 0 } else { 1 + deep(n - 1) } }\n", "deep({d})"),
             ("deep recursion: method", "method deep_m(this: Int): Int { if this == 0 { 0 } else { 1 + (this - 1).deep_m() } }\n", "{d}.deep_m()"),
             ("deep recursion: closure passed to itself", "", "let dk = fun(g, n) { if n == 0 { 0 } else { 1 + g(g, n - 1) } }\ndk(dk, {d})")]
    out = []
    for name, defs, body in kinds:
        for d in ds:
            out.append((name, d, defs, body.replace("{d}", str(d))))
    return out


NESTERS = [("list", "[]", "[v]"), ("Option", "None", "Some(v)"), ("tuple", "(1, 1)", "(v, 1)"), ("dict", "Dict[]", 'Dict["k" => v]'), ("closure", "fun() { 1 }", "fun() { v }")]
FINALS = [("dropped", "1"), ("shown with string_repr", "string_repr(v).len()"), ("compared with ==", "v == v"), ("printed with dbg", "dbg(v)\n1"), ("returned as the result", "v")]


def run(ctx):
    as_kib = 1 * GIB          # screening limit; an allocation failure of a *bounded* program is confirmed under 4 GiB before it counts
    ctx.bound("address_space_limit_GiB", {"screening": 1, "confirmation of bounded programs": 4})
    ctx.bound("wall_cap_s", WALL)
    ctx.bound("sandbox_limits", {"ticks": 100000, "stack_frames": 1000})
    root = os.path.join(ctx.scratch, "c25")
    os.makedirs(root, exist_ok=True)
    heavy_sem = threading.Semaphore(HEAVY_PARALLEL)
    only = os.environ.get("GV_C25_ONLY", "")
    if only:
        ctx.cap(f"GV_C25_ONLY={only}")

    # case: dict(mech, pos, mode, src, hold, heavy, unbounded, group)
    cases = []

    def add(mech, defs, body, pos, mode, hold=False, heavy=False, unbounded=False, group=""):
        if only and only not in mech:
            return
        src = place(defs, body, pos, mode)
        if src is not None:
            cases.append({"mech": mech, "pos": pos, "mode": mode, "src": src, "hold": hold, "heavy": heavy, "unbounded": unbounded, "group": group})

    for name, defs, body, hold in loops():
        for pos in POSITIONS:
            for mode in MODES:
                add(name, defs, body, pos, mode, hold=hold, group="loops")
    # sequences: a second never-ending evaluation in the same sandboxed run, after the first one was stopped by the budget
    # (the budget has to hold for everything the run evaluates, not just for the first thing that exhausts it)
    seqs = [
        ("sequence: looping test, then a looping top-level expression", "playground-run", "test t {\n  while True {}\n}\nwhile True {}\n", None),
        ("sequence: two looping tests, then a value", "playground-run", "test t {\n  while True {}\n}\ntest u {\n  while True {}\n}\n1\n", None),
        ("sequence: recursing test, then a looping top-level expression", "playground-run", "fun rec_f() { rec_f() }\ntest t {\n  rec_f()\n}\nwhile True {}\n", None),
        ("sequence: two looping tests of one function", "sandboxed-test", "fun spin() {\n  while True {}\n}\ntest t {\n  spin()\n}\ntest u {\n  spin()\n}\n", "fun spin"),
        ("sequence: three looping tests of one function", "sandboxed-test", "fun spin() {\n  while True {}\n}\ntest t {\n  spin()\n}\ntest u {\n  spin()\n}\ntest v {\n  spin()\n}\n", "fun spin"),
        ("sequence: a recursing and a looping test of one function", "sandboxed-test", "fun spin(r: Bool) {\n  if r { spin(r) } else { while True {} }\n}\ntest t {\n  spin(True)\n}\ntest u {\n  spin(False)\n}\n", "fun spin"),
    ]
    for mech, mode, src, anchor in seqs:
        if only and only not in mech:
            continue
        cases.append({"mech": mech, "pos": "top" if mode == "playground-run" else "fun", "mode": mode, "src": src, "hold": False, "heavy": False, "unbounded": False, "group": "loops",
                      "offset": None if anchor is None else src.index(anchor) + 5})
    for name, defs, body in growth():
        for pos in POSITIONS:
            for mode in MODES:
                if ctx.quick and not ((pos, mode) == ("top", "playground-run") or ((pos, mode) == ("test", "sandboxed-test") and name in QUICK_BOTH_MODES)):
                    continue
                add(name, defs, body, pos, mode, heavy=True, unbounded=True, group="growth")
                if cases and cases[-1]["mech"] == name and name.endswith(" nesting in a loop"):
                    cases[-1]["nester"] = name[len("growth: "):-len(" nesting in a loop")]
    for name, defs, body in builtin_calls(ctx):
        for pos, mode in (("top", "playground-run"), ("test", "sandboxed-test")) if ctx.quick else [(p, m) for p in POSITIONS for m in MODES]:
            add(name, defs, body, pos, mode, group="large-arguments")
    for name, d, defs, body in depth_cases(ctx.quick):
        for pos in POSITIONS:
            for mode in MODES:
                add(f"{name} to depth {d}", defs, body, pos, mode, group="deep-recursion")
    depths = [10, 100, 1000] if ctx.quick else [10, 100, 1000, 10000, 100000]
    ctx.bound("nesting_depths", depths)
    ctx.bound("nesting_depths_above_1000", "top/playground-run and test/sandboxed-test only; skipped once the never-ending nesting loop of the same constructor failed, once building the value "
              "alone ('dropped') failed at that depth, or once the same constructor+operation failed or ran out of ticks at a smaller depth")
    two = (("top", "playground-run"), ("test", "sandboxed-test"))
    later = {}      # depth -> [case], run in stages so that a failure at a smaller depth prunes the deeper ones
    for nname, init, step in NESTERS:
        for fname, final in FINALS:
            for d in depths:
                body = f"let v = {init}\nlet nest_i = 0\nwhile nest_i < {d} {{ v = {step} nest_i += 1 }}\n{final}"
                for pos, mode in two if (ctx.quick or d > 1000) else [(p, m) for p in POSITIONS for m in MODES]:
                    before = len(cases)
                    add(f"nesting: {nname} nested {d} deep, then {fname}", "", body, pos, mode, heavy=d > 1000, group="nesting")
                    if len(cases) > before:
                        cases[-1]["ladder"] = (nname, fname, pos, mode)
                        if d > 1000:
                            later.setdefault(d, []).append(cases.pop())
    if os.environ.get("GV_COUNT_ONLY"):      # development aid: size of the enumeration without running it
        raise Machinery(f"count only: {len(cases) + sum(len(v) for v in later.values())} processes")

    def execute(i, c, cap, limit_kib):
        d = os.path.join(root, f"p{i}")
        os.makedirs(d, exist_ok=True)
        with open(os.path.join(d, "prog.gdn"), "w") as fh:
            fh.write(c["src"])
        if c["mode"] == "playground-run":
            args = ["playground-run", "prog.gdn"]
        else:
            args = ["sandboxed-test", "prog.gdn", str(c["offset"] if c.get("offset") is not None else c["src"].index("test t {") + 9)]
        if c["hold"]:
            r = clijobs.run(ctx.binary, args, cwd=d, hold_stdin=True, t_hold=3.0, feed=b"FED_LINE\n", timeout=cap, as_kib=limit_kib)
        else:
            r = clijobs.run(ctx.binary, args, cwd=d, stdin=b"", timeout=cap, as_kib=limit_kib)
        r["args"] = args
        try:
            os.remove(os.path.join(d, "prog.gdn"))
            os.rmdir(d)
        except OSError:
            pass
        return r

    def cap_of(c):
        return WALL * (3 if c["heavy"] else 1)      # memory-growing cases are slow by construction: 180 s before the first re-run

    def do_case(ic):
        i, c = ic
        if c["heavy"]:
            with heavy_sem:
                return execute(i, c, cap_of(c), as_kib)
        return execute(i, c, cap_of(c), as_kib)

    def verdict(c, r):
        """(failure kind | None, outcome class)"""
        k = clijobs.failure_kind(r)
        if k:
            return k, k
        if r["rc"] != 0:
            return f"exit status {r['rc']}", "exit"
        if c["hold"] and r["fed"] and "FED_LINE" in r["out"]:
            return "blocks until stdin delivers a line", "blocked"
        try:
            docs = [json.loads(l) for l in r["out"].splitlines() if l.startswith("{") and '"printed"' not in l[:12]]
        except ValueError:
            docs = []
        if not docs:
            return "no JSON result", "garbled"
        text = r["out"]
        if "Reached the tick limit" in text or "exceeded resource limit" in text:
            cls = "limit"
        elif "Reached the stack limit" in text:
            cls = "stack-limit"
        elif c["mode"] == "playground-run" and "Failed: t" in text:
            cls = "test-failed"      # playground test body: limit errors carry no message there
        elif any(d.get("error") for d in docs if isinstance(d, dict)) or '"errored' in text or "erroring" in text or " errored" in text:
            cls = "error"
        else:
            cls = "value"
        return None, cls

    fails = {}
    stop = set()          # ladder keys (constructor, operation, position, mode) that failed or ran out of ticks at some depth
    stop_build = set()    # (constructor, position, mode): the value cannot even be built at this depth / the never-ending loop fails
    all_cases, all_res = [], []

    def run_stage(stage):
        """Run cases, re-run the doubtful ones (timeout: 3x the cap; allocation failure of a bounded program: 4 GiB) two at a time, record verdicts."""
        base = len(all_cases)
        sres = clijobs.pmap(do_case, [(base + j, c) for j, c in enumerate(stage)])
        doubtful = []
        for j, (c, r) in enumerate(zip(stage, sres)):
            kind, cls = verdict(c, r)
            if kind == "timeout" or (kind == "oom" and not c["unbounded"]):
                doubtful.append((j, kind))
        redo = clijobs.pmap(lambda jk: execute(base + jk[0], stage[jk[0]], 3 * cap_of(stage[jk[0]]), 4 * GIB if jk[1] == "oom" else as_kib), doubtful, threads=2)
        for (j, kind), r2 in zip(doubtful, redo):
            ctx.outcome(f"rerun after {kind}: {verdict(stage[j], r2)[1]}")
            sres[j] = r2
        for c, r in zip(stage, sres):
            kind, cls = verdict(c, r)
            ctx.outcome(f"{c['group']}: {cls}")
            if kind:
                fails.setdefault((c["mech"], kind), {})[(c["pos"], c["mode"])] = {"program": c["src"], "args": r["args"], "stdout_tail": r["out"][-300:], "stderr_head": r["err"][:400]}
            bad = bool(kind) or cls in ("limit", "test-failed")
            if c.get("ladder") and bad:
                stop.add(c["ladder"])
                if c["ladder"][1] == "dropped":
                    stop_build.add((c["ladder"][0], c["ladder"][2], c["ladder"][3]))
            if c.get("nester") and kind:
                for pm in two:
                    stop_build.add((c["nester"],) + pm)
        all_cases.extend(stage)
        all_res.extend(sres)

    run_stage(cases)
    for d in sorted(later):
        for gate in (True, False):      # first build-and-drop, then the other operations on what could be built
            stage = [c for c in later[d] if (c["ladder"][1] == "dropped") == gate and c["ladder"] not in stop
                     and (c["ladder"][0], c["ladder"][2], c["ladder"][3]) not in stop_build]
            skipped = sum(1 for c in later[d] if (c["ladder"][1] == "dropped") == gate) - len(stage)
            if skipped:
                ctx.outcome(f"nesting depth {d}: skipped (cannot be built, or a smaller depth already failed or used up the ticks)", skipped)
            run_stage(stage)
    cases, res = all_cases, all_res
    universe = {}
    for c in cases:
        universe.setdefault(c["mech"], set()).add((c["pos"], c["mode"]))
    for (mech, kind), combos in sorted(fails.items()):
        ex = combos[sorted(combos)[0]]
        detail = dict(ex)
        cmd = f"(ulimit -v {as_kib}; garden {' '.join(ex['args'])})"
        if set(combos) >= universe[mech]:
            ctx.violation(f"{mech} @ every enumerated position and mode: {kind}", dict(detail, positions=sorted(f"{p} / {m}" for p, m in combos)), cli_cmd=cmd)
        else:
            for (pos, mode) in sorted(combos):
                ex = combos[(pos, mode)]
                ctx.violation(f"{mech} @ {pos} in {mode}: {kind}", ex, cli_cmd=cmd)

    oc = ctx.cov["outcomes"]
    if not only:
        need = ["loops: limit", "loops: stack-limit", "deep-recursion: value", "deep-recursion: stack-limit", "large-arguments: value", "nesting: value"]
        missing = [k for k in need if not oc.get(k)]
        if missing:
            raise Machinery(f"vacuous: outcome classes never seen: {missing}")
    for g in ("loops", "growth", "large-arguments", "deep-recursion", "nesting"):
        ws = [r["wall"] for c, r in zip(cases, res) if c["group"] == g]
        if ws:
            print(f"  [c25] {g}: {len(ws)} processes, total {sum(ws):.0f} s, longest {max(ws):.1f} s", flush=True)
    n = len(cases)
    ctx.add(states=n, transitions=n + sum(v for k, v in oc.items() if k.startswith("rerun")), nontrivial=n)
    ctx.bound("cases_by_family", {g: sum(1 for c in cases if c["group"] == g) for g in ("loops", "growth", "large-arguments", "deep-recursion", "nesting")})
    for i in (0, n // 4, n // 2, 3 * n // 4, n - 1):
        if 0 <= i < n:
            ctx.sample({"mechanism": cases[i]["mech"], "position": cases[i]["pos"], "mode": cases[i]["mode"], "program": cases[i]["src"][:400], "verdict": verdict(cases[i], res[i])[1]})
    return ("finite family per divergence mechanism (never-ending loops and recursions, doubling/nesting value growth, every public prelude function on large arguments, recursion to each depth "
            "around the frame limit, nested-value ladder x final operation) x position {top, function, closure, method, test body} x {playground-run, sandboxed-test}, one real CLI "
            "process each under RLIMIT_AS and a 60 s wall cap (3x re-run alone before a timeout counts). Every case is non-trivial (each is built to exhaust a limit or to sit next to one).")
