"""C09 the JSON session answers every request and never dies."""
REG = dict(
    engine='E2-bfs',
    technique='explicit-state breadth-first search over request histories of the real JSON-session handler, canonical-state deduplication, differential cross-check of merged states',
    text="Alphabet of 30 requests (17 evaluations incl. definitions, a redefinition with another arity, assignments to a function and to a built-in name, failing calls, a failing test; 9 REPL commands :skip :replace :abort :resume :forget :forget_local :test :type :locals; three eval_up_to requests incl. the cursor on a parameter the saved call did not have; one malformed line). BFS over all histories of depth <=3 (quick) / <=5 (thorough), deduplicated by canon(Env); every transition is one fresh session executed by handle_request_in_worker. Oracle per request: exactly one non-printed response, no panic escapes, and one more request (`1 + 2`) is answered by exactly one response. Violations are confirmed on `garden reftest-json-session` and on a real `garden json` process (Content-Length framing, exit status 101 / missing responses).",
    note=':quit (exits by design), :uptime (wall clock), :load (filesystem) and the `interrupt` request (C08) are outside the alphabet. State identity is canon(Env) (frames, pending expressions, value stacks, bindings, user namespace entries, tests); fields dropped by it are validated by replaying a second history for every merged state.',
    design_ref='DESIGN.md §6 C09',
)

import json
import os
import re
import select
import subprocess
import time

from ..core import Machinery
from ..bfs import Bfs, run_req

EVALS = ['1 + 2', 'let a = 1', 'a', 'a = 2', 'fun f(x) { x + 1 }', 'f(1)', 'fun g() { let l = 1 throw("in g") }', 'g()',
         '1 + throw("t")', 'test t { assert(False) }', 'if True { let q = 1 throw("b") }',
         # added after C10 showed a panic class only reachable through a loop: (the trailing 0 is needed because a `for` that is
         # the last expression of a request is not run at all by the session)
         'for i in [1, 2] { throw("l") } 0',
         # a definition and a call in one request, and a redefinition with another arity (saved call arguments then belong to the old signature)
         'fun f(x) { x + 1 }\nf(1)', 'fun f(x, y) { x + y }',
         # assignment to a name that is a function (or a built-in) rather than a variable
         'f = 2', 'print = 2',
         # a call whose two arguments both fail: two stops inside one call expression
         'fun h(x, y) { x }\nh(u1, u2)']
COMMANDS = [':skip', ':replace 5', ':abort', ':resume', ':forget f', ':forget_local a', ':test t', ':type 1 + 2', ':locals']
# eval_up_to inside a function with a parameter: its answer depends on env.prev_call_args (part of canon(Env) as PCA[...])
EVAL_UP_TO = json.dumps({"method": "eval_up_to", "src": "fun f(x) { x + 1 }", "offset": 13})
MALFORMED = '{"method": "run", "input": '
# eval_up_to on the second parameter of the redefined function (cursor on `y` in the parameter list, and on `y` in the body)
EVAL_UP_TO_Y = json.dumps({"method": "eval_up_to", "src": "fun f(x, y) { x + y }", "offset": 9})
EVAL_UP_TO_Y2 = json.dumps({"method": "eval_up_to", "src": "fun f(x, y) { x + y }", "offset": 18})

ALPHABET = [(s, run_req(s)) for s in EVALS] + [(c, run_req(c)) for c in COMMANDS] + \
           [("<eval_up_to `x + 1` in f>", EVAL_UP_TO), ("<eval_up_to parameter `y` of f(x, y)>", EVAL_UP_TO_Y), ("<eval_up_to `y` in body of f(x, y)>", EVAL_UP_TO_Y2),
            ("<malformed json>", MALFORMED)]
TAIL = [("1 + 2", run_req("1 + 2"))]
OUTPUT_KINDS = ("printed", "printed_stderr")


def kinds(texts):
    out = []
    for t in texts:
        try:
            d = json.loads(t)
            out.append(next(iter(d["kind"])))
        except Exception:
            out.append("<unparsable>")
    return out


def answer_class(texts):
    """ok / err / command / malformed ... of the (single) non-output response."""
    for t in texts:
        d = json.loads(t)
        k = next(iter(d["kind"]))
        if k in OUTPUT_KINDS:
            continue
        if k == "evaluate":
            return "evaluate-" + ("ok" if "Ok" in d["kind"][k]["value"] else "err")
        return k
    return "<none>"


FRAME_RE = re.compile(r"F\[([^|]*)\|(.*?)\|([^|]*)\|([^|]*)\|ns=[^\]]*\]", re.S)


def split_frames(canon):
    """[(enclosing name, pending text, values text, bindings text)] bottom frame first.  The pending-expression dump can
    contain `|` only inside string literals of the alphabet (none does), so a plain split is enough here."""
    frames = []
    i = 0
    while canon.startswith("F[", i):
        j = canon.index("|ns=", i)
        end = canon.index("]", j)
        body = canon[i + 2:j]
        parts = body.split("|")
        name, pending, values, bindings = parts[0], "|".join(parts[1:-2]), parts[-2], parts[-1]
        frames.append((name, pending, values, bindings))
        i = end + 1
    return frames


def state_class(canon, after_abort=False):
    """Pending-state class of a canonical state (used in signatures).  `after_abort`: the history contains `:abort`
    after its last request that was answered with an error (so whatever is still pending was left behind by `:abort`)."""
    if canon is None or not canon.startswith("F["):
        return "idle" if canon and canon.startswith("<fresh") else "unknown"
    fr = split_frames(canon)
    name, pending, values, _ = fr[-1]
    nvalues = values.count(";")
    lower_pending = any(f[1] for f in fr[:-1])
    if len(fr) == 1:
        if not pending:
            return "idle"
        if after_abort:
            return "stale-pending-after-abort"
        return "error-pending-at-toplevel" + ("-base-value-gone" if nvalues <= 1 else "")
    where = "in-test" if name.startswith("test ") else ("in-call" if name.startswith("fun ") else "in-" + name.split(" ")[0])
    if pending:
        return f"error-pending-{where}"
    return f"frame-{where}-nothing-pending" + ("" if lower_pending else "-anywhere")


def abort_flag(labels, responses):
    """True when `:abort` occurs after the last error answer in (labels, responses)."""
    flag = False
    for lab, resp in zip(labels, responses):
        if lab == ":abort":
            flag = True
        else:
            try:
                if answer_class(resp) == "evaluate-err":
                    flag = False
            except Exception:
                pass
    return flag


def norm_panic(msg):
    msg = msg.split(" @ ")[0]
    msg = re.sub(r"`[^`]*`", "`…`", msg)
    msg = re.sub(r"'[^']*'", "'…'", msg)
    msg = re.sub(r"\d+", "N", msg)
    return msg[:140]


def run(ctx):
    depth = int(os.environ.get("GV_C09_DEPTH", "0")) or (3 if ctx.quick else 5)      # the env override is a development knob
    seen_classes = {}
    viol = {}           # signature -> (history labels incl. the failing request, request lines, detail)
    counts = {"requests_checked": 0}

    def record(sig, labels, requests, extra):
        d = viol.get(sig)
        if d is None or len(labels) < len(d["history"]):
            viol[sig] = dict(extra, history=labels, requests=requests, instances=(d or {}).get("instances", 0))
        viol[sig]["instances"] += 1

    def on_transition(t):
        ev_label = t.labels[-1]
        n = len(t.hist)
        resp_all = (t.raw.get("responses") or [])
        before = state_class(t.canon_before, abort_flag(t.labels[:n], resp_all[:n]))

        def flag(kind, extra, upto):
            ctx.outcome("violation:" + kind.split(":")[0].split(" ")[0])
            record(f"last={ev_label} state={before} failure={kind}", t.labels[:upto], t.requests[:upto], dict(extra, state_before=before))

        if t.crash is not None:
            flag(f"worker-died: {t.crash}", {"crash": t.crash}, n + 2)
            return True
        if t.timeout is not None:
            flag("no-answer-within-timeout", {"timeout": t.timeout}, n + 2)
            return True
        counts["requests_checked"] += 1
        if t.panic is not None and t.panic["request"] == n:
            flag("panic: " + norm_panic(t.panic["message"]), {"panic": t.panic["message"], "responses_before_panic": t.responses,
                                                               "note": "the trailing `1 + 2` shows that every later request is lost too"}, n + 2)
            return True
        ks = kinds(t.responses)
        non_out = [k for k in ks if k not in OUTPUT_KINDS]
        cls = answer_class(t.responses) if len(non_out) == 1 else f"{len(non_out)}-responses"
        ctx.outcome("answer:" + cls)
        seen_classes[before] = seen_classes.get(before, 0) + 1
        dead = False
        if len(non_out) != 1:
            flag(f"{len(non_out)} responses instead of 1 ({','.join(ks) or 'none'})", {"responses": t.responses}, n + 1)
            dead = True
        # liveness probe: one more request (`1 + 2`) must still be answered; a failure here belongs to the state AFTER ev
        after = state_class(t.canon_after, abort_flag(t.labels[:n + 1], resp_all[:n + 1]))
        if t.panic is not None:
            ctx.outcome("violation:panic")
            record(f"last=1 + 2 state={after} failure=panic: {norm_panic(t.panic['message'])}", t.labels + ["1 + 2"], t.requests,
                   {"panic": t.panic["message"], "state_before": after})
        else:
            tk = kinds(t.tail[0]) if t.tail else []
            tn = [k for k in tk if k not in OUTPUT_KINDS]
            if len(tn) != 1:
                ctx.outcome("violation:response-count")
                record(f"last=1 + 2 state={after} failure={len(tn)} responses instead of 1 ({','.join(tk) or 'none'})", t.labels + ["1 + 2"], t.requests,
                       {"responses": t.tail, "state_before": after})
        return dead

    b = Bfs(ctx, ALPHABET, depth, on_transition, tail=TAIL, crosscheck=1)
    b.run()
    rep = b.report()
    ctx.bound("history_depth", depth)
    ctx.add(states=rep["states"], transitions=rep["transitions"], nontrivial=rep["states"])
    ctx.bound("state_classes_seen", dict(sorted(seen_classes.items())))

    # vacuity guards
    if any(n < 2 for n in b.per_depth[1:depth + 1]):
        raise Machinery(f"vacuous: new canonical states per depth {b.per_depth} (expected >1 at every depth within the bound)")
    oc = ctx.cov["outcomes"]
    if not oc.get("answer:evaluate-ok") or not oc.get("answer:evaluate-err") or not oc.get("answer:run_command") or not oc.get("answer:malformed_request"):
        raise Machinery(f"vacuous: expected Ok, Err, command and malformed answers, saw {sorted(oc)}")
    if not any(c.startswith("error-pending-in-call") for c in seen_classes) or "error-pending-at-toplevel" not in seen_classes:
        raise Machinery(f"vacuous: pending-state classes seen: {sorted(seen_classes)}")

    # CLI confirmation: every signature, on reftest-json-session and on a real `json` process
    from concurrent.futures import ThreadPoolExecutor
    sigs = sorted(viol)
    with ThreadPoolExecutor(max_workers=4) as ex:
        confs = list(ex.map(lambda i: confirm_cli(ctx, viol[sigs[i]]["requests"], i), range(len(sigs))))
    for sig, conf in zip(sigs, confs):
        d = viol[sig]
        d["cli"] = conf
        if conf["reftest_exit"] == 101 or conf["json_exit"] == 101 or conf["json_missing_responses"] > 0 or conf["reftest_missing_responses"] > 0 \
                or conf["reftest_exit"] in ("timeout",) or (isinstance(conf["reftest_exit"], int) and conf["reftest_exit"] < 0):
            ctx.cov["cli_confirmed"] += 1
        elif "responses instead of" in sig and conf["reftest_extra_responses"] > 0:
            ctx.cov["cli_confirmed"] += 1
        else:
            raise Machinery(f"adapter drift: in-process violation [{sig}] for history {d['history']} is not reproduced by the real CLI: {conf}")
        ctx.violation(sig, d, cli_cmd="printf '%s\\n' " + " ".join("'" + r.replace("'", "'\\''") + "'" for r in d["requests"])
                      + " > h.jsonl && garden reftest-json-session h.jsonl; echo exit=$?   # exit 101 = the eval thread panicked")
        ctx.violations[sig]["count"] = d["instances"]
    ctx.sample({"history": ["let a = 1", "1 + throw(\"t\")", ":resume"], "note": "one transition = one fresh session replaying the history, then the probe `1 + 2`"})
    some = [h for h in b.seen.values() if len(h) == depth - 1][:2]
    for hist in some:
        ctx.sample({"history": b.labels(hist), "canon_after": b.canon_of[hist][:300]})
    ctx.assume("state identity = canon(Env) of src/verif_hooks.rs (frames: enclosing name, pending expressions with state tag, value stack, bindings per block, namespace path; "
               "user namespace entries differing from the prelude; test names; type count; saved call arguments used by eval_up_to). Dropped: syntax ids, vfs contents, tick counter, start time, trace flag, type/method tables. "
               "Validated by replaying a second history for every merged state and comparing all responses and successor canons.")
    return (f"BFS over histories of <= {depth} requests from the request alphabet, one state per distinct canon(Env); a transition is non-trivial by construction "
            "(it executes the real handler on the replayed history); `nontrivial` counts distinct canonical states. Oracle: exactly one non-printed response per request, "
            "no panic, and a trailing `1 + 2` is answered by exactly one response.")


# ----------------------------------------------------------------------------------------------
QUIET_ENV = dict(os.environ, RUST_BACKTRACE="0")     # no symbolised backtraces: they cost seconds per panic


def count_json_values(text):
    dec = json.JSONDecoder()
    i, out = 0, []
    n = len(text)
    while True:
        while i < n and text[i] in " \r\n\t":
            i += 1
        if i >= n:
            break
        try:
            v, j = dec.raw_decode(text, i)
        except ValueError:
            break
        out.append(v)
        i = j
    return out


def non_output(values):
    return [v for v in values if isinstance(v, dict) and "kind" in v and next(iter(v["kind"])) not in OUTPUT_KINDS]


def confirm_cli(ctx, requests, n=0):
    """Feed the request lines to (1) `garden reftest-json-session` and (2) a real `garden json` process."""
    res = {}
    path = ctx.tmpfile(f"c09/history{n}.jsonl", "".join(r + "\n" for r in requests))
    rc, out, err = ctx.cli(["reftest-json-session", path], timeout=60, env=QUIET_ENV)
    got = len(non_output(count_json_values(out)))
    res["reftest_exit"] = rc
    res["reftest_responses"] = got
    res["reftest_missing_responses"] = max(0, len(requests) - got)
    res["reftest_extra_responses"] = max(0, got - len(requests))
    res["reftest_stderr_tail"] = re.sub(r"\s+", " ", err)[-300:]
    res.update(json_process(ctx, requests))
    return res


def json_process(ctx, requests, per_response_timeout=10.0):
    """A real `garden json` child: Content-Length framing, one request at a time like a client. Always killed
    (`garden json` spins on EOF, so stdin is never closed before the kill)."""
    p = subprocess.Popen([ctx.binary, "json"], stdin=subprocess.PIPE, stdout=subprocess.PIPE, stderr=subprocess.PIPE, cwd=ctx.scratch, env=QUIET_ENV)
    st = {"out": b"", "err": b""}
    lines = []
    fo, fe = p.stdout.fileno(), p.stderr.fileno()
    open_fds = {fo: "out", fe: "err"}

    def is_answer(line):
        try:
            d = json.loads(line)
            return next(iter(d["kind"])) not in OUTPUT_KINDS
        except Exception:
            return False

    def wait_answer(timeout):
        """True when one more non-output response line arrived; False on panic message, child exit or timeout."""
        deadline = time.time() + timeout
        while True:
            while b"\n" in st["out"]:
                line, st["out"] = st["out"].split(b"\n", 1)
                if line.strip():
                    lines.append(line.decode("utf-8", "replace"))
                    if is_answer(lines[-1]):
                        return True
            if b"panicked at" in st["err"] and b"\n" in st["err"].split(b"panicked at", 1)[1]:
                # give the child a moment to flush a response that raced with the panic message (there is none in practice)
                r, _, _ = select.select([fo], [], [], 0.2) if fo in open_fds else ([], [], [])
                if not r:
                    return False
            left = deadline - time.time()
            if left <= 0 or not open_fds:
                return False
            r, _, _ = select.select(list(open_fds), [], [], min(left, 0.25))
            for fd in r:
                chunk = os.read(fd, 1 << 16)
                if not chunk:
                    del open_fds[fd]
                else:
                    st[open_fds[fd]] += chunk
            if not r and p.poll() is not None:
                return False

    answered = 0
    try:
        wait_answer(10)          # the `ready` greeting
        for r in requests:
            payload = r.encode("utf-8")
            try:
                p.stdin.write(b"Content-Length: %d\n" % len(payload) + payload + b"\n")
                p.stdin.flush()
            except (BrokenPipeError, OSError):
                break
            if wait_answer(per_response_timeout):
                answered += 1
            if p.poll() is not None:
                break
        t_end = time.time() + 1.0
        while p.poll() is None and time.time() < t_end and answered < len(requests):
            time.sleep(0.02)
        rc = p.poll()
    finally:
        try:
            p.kill()
        except Exception:
            pass
        try:
            _, err = p.communicate(timeout=5)
        except Exception:
            err = b""
    err = st["err"] + (err or b"")
    return {"json_exit": rc if rc is not None else "alive (killed)", "json_responses": answered,
            "json_missing_responses": len(requests) - answered,
            "json_stderr_tail": re.sub(r"\s+", " ", err.decode("utf-8", "replace"))[-300:]}
