"""C22 `check --fix` edits are safe."""
REG = dict(
    engine='E1-enum',
    technique='bounded-exhaustive enumeration of (fixable lint trigger x placement) programs and of trigger pairs; `check --fix` is applied by the real code (iterated to a fixed point), each result is parsed and run on the real interpreter and compared with the original run',
    text='Triggers for every lint that carries an autofix (unused literal of 5 shapes, unused let with pure / effectful / literal value, unused for variable / closure parameter / match payload / destructured name / function parameter, unused import, unused type parameter, unnecessary let, unnecessary return, repeated boolean operand in 6 shapes, list-length comparison in 5 shapes (and 8 order comparisons of a length with 0 or 1, which need no fix), unreachable match arm, missing match cases, and the type-checker fixes `+`/`+.`/`^` and method-name / missing-call suggestions in dead code) x placements (own line, same line before / after other code, last expression of a function / if branch / loop body, nested two deep, one-line nested, inside a call argument list (closure), next to comments, twice on one line, inside a closure, inside a match arm, at top level, in a test); every ordered pair of triggers on adjacent lines and on one line (thorough: also inside a closure, separated by a comment line, on one line inside a nested block, and pairs involving item-level triggers). Oracle: every round of --fix yields a program that parses; if the original ran without error every round has the same stdout, function result and test verdicts; a fixed point is reached in <=5 rounds; violations are re-run through `garden check --fix --stdout`.',
    note='Programs are ASCII text templates; the type-checker fixes are placed in dead code (the original must run without error for the behaviour clause to apply).',
    design_ref='DESIGN.md §6 C22',
)

import os, re
from ..core import Machinery
from .. import refgen

HELP = ("fun p(x) { println(string_repr(x)) }\n"
        "fun add(x: Int, y: Int): Int { x + y }\n"
        "fun twice(f: Fun<(Int), Int>, x: Int): Int { f(f(x)) }\n"
        "struct Pt { x: Int, y: Int }\n"
        "enum Col { Red, Green, Blue }\n")
VARS = "let bt = True\n  let bf = False\n  let xs = [1, 2]\n  let es: List<Int> = []\n  let col = Green\n  p((bt, bf, xs, es, col))"

# statement triggers: (name, lint, [statements]); `last_ok`: may stand as the last statement of a block
STMT = [
    ("int literal", "unused-literal", ["7"]),
    ("string literal", "unused-literal", ['"lit"']),
    ("list literal", "unused-literal", ["[1, 2]"]),
    ("struct literal", "unused-literal", ["Pt{ x: 1, y: 2 }"]),
    ("two-line list literal", "unused-literal", ["[1,\n    2]"]),
    ("tuple literal with call", "unused-literal/effectful-element", ["(p(40), 2)"]),
    ("unused let of a call", "unused-let", ["let u = add(1, 2)"]),
    ("unused let of a print", "unused-let", ["let u = p(41)"]),
    ("unused let of a literal", "unused-let", ["let u = 7"]),
    ("unused typed let", "unused-let", ["let u: Int = add(1, 2)"]),
    ("unused let shadowed by a used let", "unused-let/shadowed", ["let sh = add(1, 2)", "let sh = 58", "p(sh)"]),
    ("unused let shadowed in a nested block", "unused-let/shadowed", ["let sh = add(1, 2)", "if bt { let sh = 59 p(sh) }"]),
    ("unused let of a literal shadowed by a used let", "unused-let/shadowed", ["let sh = 7", "let sh = 60", "p(sh)"]),
    ("unused let shadowing a used let", "unused-let/shadowed", ["let sh = 61", "p(sh)", "let sh = add(1, 2)", "p(62)"]),
    # a local whose first use comes only after an inner binder of the same name has gone out of scope: everything is used, nothing to fix
    ("local used after a match payload of the same name", "unused-let/after-inner-binder",
     ["let sh = add(1, 2)", "match Some(1) { Some(sh) => { p(sh) } None => { p(45) } }", "p(sh)"]),
    ("local used after a for variable of the same name", "unused-let/after-inner-binder", ["let sh = add(1, 2)", "for sh in [1] { p(sh) }", "p(sh)"]),
    ("local used after a closure parameter of the same name", "unused-let/after-inner-binder",
     ["let sh = add(1, 2)", "let f = fun(sh: Int) { p(sh) }", "f(2)", "p(sh)"]),
    ("local used after a nested block's let of the same name", "unused-let/after-inner-binder", ["let sh = add(1, 2)", "if bt { let sh = 63 p(sh) }", "p(sh)"]),
    ("local used after a destructuring payload of the same name", "unused-let/after-inner-binder",
     ["let sh = add(1, 2)", "match Some((1, 2)) { Some((sh, w)) => { p((sh, w)) } None => { p(45) } }", "p(sh)"]),
    ("unused for variable", "unused-variable", ["for i in [1, 2] { p(42) }"]),
    ("unused closure parameter", "unused-variable", ["let f = fun(x: Int) { 43 }", "p(f(2))"]),
    ("unused match payload", "unused-variable", ["match Some(1) { Some(x) => { p(44) } None => { p(45) } }"]),
    ("unused destructured name", "unused-variable", ["let (da, db) = (46, 47)", "p(da)"]),
    ("unnecessary let in closure", "unnecessary-let", ["let g = fun() { let r = add(1, 2) r }", "p(g())"]),
    ("unnecessary let in if branch", "unnecessary-let", ["let v = if bt {\n    let r = add(1, 2)\n    r\n  } else { 0 }", "p(v)"]),
    ("unnecessary typed let", "unnecessary-let", ["let g = fun(): Int { let r: Int = add(1, 2) r }", "p(g())"]),
    ("unnecessary let with comment", "unnecessary-let", ["let g = fun() {\n    let r = add(1, 2) // why\n    r\n  }", "p(g())"]),
    ("unnecessary return in closure", "unnecessary-return", ["let g = fun() { return 48 }", "p(g())"]),
    ("unnecessary return of call", "unnecessary-return", ["let g = fun(): Int { p(49) return add(1, 2) }", "p(g())"]),
    ("unreachable arm", "unreachable-arm", ["match col {\n    Red => { p(50) }\n    _ => { p(51) }\n    Blue => { p(52) }\n  }"]),
    ("unreachable arms on one line", "unreachable-arm", ["match col { _ => { p(53) } Red => { p(54) } Blue => { p(55) } }"]),
    ("missing cases", "missing-cases", ["match col {\n    Green => { p(56) }\n  }"]),
    ("missing cases, brace after arm", "missing-cases", ["match col {\n    Green => { p(57) } }"]),
    ("int operator on floats (dead code)", "type-fix", ["if bf { p(1.0 + 2.0) }"]),
    ("float operator on ints (dead code)", "type-fix", ["if bf { p(1 +. 2) }"]),
    ("plus on strings (dead code)", "type-fix", ['if bf { p("a" + "b") }']),
    ("method name typo (dead code)", "type-fix", ["if bf { p(xs.lenn()) }"]),
    ("method without call (dead code)", "type-fix", ["if bf { p(xs.len) }"]),
]
# expression triggers: (name, lint, expression)
EXPR = [
    ("a || b || a", "repeated-bool", "bt || bf || bt"),
    ("a && b && a", "repeated-bool", "bt && bf && bt"),
    ("(a || b) || a", "repeated-bool", "(bt || bf) || bt"),
    ("a || (a || b)", "repeated-bool", "bf || (bf || bt)"),
    ("a || a", "repeated-bool", "bt || bt"),
    ("a || b || a || a", "repeated-bool", "bf || bt || bf || bf"),
    ("len() == 0", "list-len", "xs.len() == 0"),
    ("0 == len()", "list-len", "0 == es.len()"),
    ("len() != 0", "list-len", "es.len() != 0"),
    ("(len()) == 0", "list-len", "(xs.len()) == 0"),
    ("len() == 0 with comment", "list-len", "xs.len() == // c\n    0"),
    # order comparisons of a length with 0 / 1 in both operand orders: no fix is required for them (the lint is about == and !=),
    # but whatever is offered must keep the value, which differs between `len > 0` and `0 > len`
    ("len() > 0", "list-len/after-use", "xs.len() > 0"),
    ("0 > len()", "list-len/after-use", "0 > xs.len()"),
    ("0 < len()", "list-len/after-use", "0 < es.len()"),
    ("len() < 0", "list-len/after-use", "es.len() < 0"),
    ("len() >= 1", "list-len/after-use", "xs.len() >= 1"),
    ("1 > len()", "list-len/after-use", "1 > xs.len()"),
    ("len() <= 0", "list-len/after-use", "es.len() <= 0"),
    ("0 >= len()", "list-len/after-use", "0 >= xs.len()"),
]
# item-level triggers: (name, lint, item text, statement that uses it)
ITEM = [
    ("unused import", "unused-import", 'import "__fs.gdn" as myfs', "p(60)"),
    ("unused type parameter", "unused-type-param", "fun g1<T>(x: Int): Int { x }", "p(g1(61))"),
    ("unused first of two type parameters", "unused-type-param", "fun g1<T, U>(x: U): U { x }", "p(g1(62))"),
    ("unused second of two type parameters", "unused-type-param", "fun g1<U, T>(x: U): U { x }", "p(g1(63))"),
    # the removal range must not assume where `<`, `,` and `>` sit
    ("unused type parameter, spaces inside the brackets", "unused-type-param", "fun g1< T >(x: Int): Int { x }", "p(g1(64))"),
    ("unused type parameter, space before the bracket", "unused-type-param", "fun g1 <T>(x: Int): Int { x }", "p(g1(65))"),
    ("unused type parameter on its own line", "unused-type-param", "fun g1<\n  T,\n>(x: Int): Int { x }", "p(g1(66))"),
    ("unused last of three type parameters", "unused-type-param", "fun g1<U, V, T>(x: U, y: V): V { y }", "p(g1(67, 68))"),
    ("unused middle of three type parameters, spaced", "unused-type-param", "fun g1<U , T , V>(x: U, y: V): V { y }", "p(g1(69, 70))"),
    ("unused type parameter of a method", "unused-type-param", "method g2< T >(this: Int): Int { this }", "p(71.g2())"),
    ("unused function parameter", "unused-variable", "fun g2(x: Int, y: Int): Int { x }", "p(g2(64, 65))"),
    ("unnecessary return in function", "unnecessary-return", "fun g3(): Int {\n  return 66\n}", "p(g3())"),
    ("unnecessary let in function", "unnecessary-let", "fun g4(): Int {\n  let r = add(1, 2)\n  r\n}", "p(g4())"),
    ("unnecessary let in method", "unnecessary-let", "method g5(this: Int): Int {\n  let r = add(this, 2)\n  r\n}", "p(1.g5())"),
    # an import that is used, but only by code that comes before it in the file: nothing here needs fixing
    ("import after its first use", "unused-import/after-use",
     "fun wd(): Bool {\n  myfs::working_directory().p != \"\"\n}\nimport \"__fs.gdn\" as myfs", "p(wd())"),
    ("import between two uses", "unused-import/after-use",
     "fun wd(): Bool {\n  myfs::working_directory().p != \"\"\n}\nimport \"__fs.gdn\" as myfs\nfun wd2(): Bool {\n  myfs::working_directory().p == \"\"\n}", "p((wd(), wd2()))"),
]


def as_stmts(t):
    """Statement list of a trigger (expression triggers are printed)."""
    if t["kind"] == "stmt":
        return list(t["stmts"])
    if t["kind"] == "expr":
        return [f"p({t['expr']})"]
    return [t["use"]]


def body_prog(lines, items="", tail_value=True):
    """Program: helpers, optional items, fun main_ with the given body text, call printed."""
    return HELP + (items + "\n" if items else "") + "\nfun main_() {\n  " + VARS + "\n" + lines + "\n}\n\np(main_())\n"


def placements(t, quick):
    """-> [(placement name, program text)] for one trigger."""
    S = as_stmts(t)
    items = t.get("item", "")
    one = " ".join(S)
    multi = "\n  ".join(S)
    deep = "\n      ".join(s.replace("\n  ", "\n      ") for s in S)
    mid = "\n    ".join(s.replace("\n  ", "\n    ") for s in S)
    single_line = "\n" not in one
    out = []
    add = lambda name, text, it=items: out.append((name, body_prog(text, it)))
    add("own line", f"  p(1)\n  {multi}\n  p(2)")
    if single_line:
        add("same line before code", f"  p(1)\n  {one} p(2)\n  p(3)")
        add("same line after code", f"  p(1)\n  p(2) {one}\n  p(3)")
        add("between code on one line", f"  p(1)\n  p(2) {one} p(3)\n  p(4)")
        add("twice on one line", f"  p(1)\n  {one} {one}\n  p(2)")
        add("nested two deep on one line", f"  p(1)\n  if bt {{ if bt {{ {one} p(2) }} }}\n  p(3)")
        add("one-line closure in a call argument list", f"  p(1)\n  p(twice(fun(z: Int) {{ {one} z + 1 }}, 2))\n  p(3)")
        add("one-line match arm", f"  p(1)\n  match Some(1) {{ Some(_) => {{ {one} p(2) }} None => {{}} }}\n  p(3)")
    add("last expression of the function", f"  p(1)\n  {multi}")
    add("last expression of an if branch", f"  p(1)\n  let w = if bt {{\n    p(2)\n    {mid}\n  }} else {{\n    p(3)\n  }}\n  p(w)")
    add("last expression of a loop body", f"  p(1)\n  for q in [1, 2] {{\n    p(q)\n    {mid}\n  }}\n  p(2)")
    add("nested two deep", f"  p(1)\n  if bt {{\n    if bt {{\n      {deep}\n      p(2)\n    }}\n  }}\n  p(3)")
    add("closure in a call argument list", f"  p(1)\n  p(twice(fun(z: Int) {{\n    {mid}\n    z + 1\n  }}, 2))\n  p(3)")
    add("comment line before and after", f"  p(1)\n  // before\n  {multi}\n  // after\n  p(2)")
    add("trailing comment on the line", f"  p(1)\n  {S[0]} // trailing\n  " + "\n  ".join(S[1:] + ["p(2)"]))
    add("inside a closure", f"  p(1)\n  let h = fun() {{\n    {mid}\n    p(2)\n  }}\n  h()\n  p(3)")
    add("inside a match arm", f"  p(1)\n  match Some(1) {{\n    Some(_) => {{\n      {deep}\n      p(2)\n    }}\n    None => {{}}\n  }}\n  p(3)")
    # outside a function
    tl = "\n".join(s.replace("\n  ", "\n") for s in S)
    vars_tl = VARS.replace("\n  ", "\n")
    out.append(("top level", HELP + (items + "\n" if items else "") + "\n" + vars_tl + "\np(1)\n" + tl + "\np(2)\n"))
    out.append(("test body", HELP + (items + "\n" if items else "") + "\ntest t1 {\n  " + VARS + "\n  p(1)\n  " + multi + "\n  p(2)\n}\n"))
    if t["kind"] == "expr":
        e = t["expr"]
        add("call argument", f"  p(1)\n  p(add(1, if {e} {{ 1 }} else {{ 2 }}))\n  p(2)")
        add("let value", f"  p(1)\n  let r = {e}\n  p(r)")
        add("if condition", f"  p(1)\n  if {e} {{ p(2) }} else {{ p(3) }}\n  p(4)")
        add("while condition", f"  p(1)\n  while {e} {{ p(2) break }}\n  p(4)")
        add("bare match arm", f"  p(1)\n  let r = match Some(1) {{\n    Some(_) => {e}\n    None => False\n  }}\n  p(r)")
        add("returned", f"  p(1)\n  return {e}")
    if t["kind"] == "item":
        it = t["item"]
        use = t["use"]
        out.append(("item after a comment", HELP + "// about\n" + it + "\n// end\n\n" + use + "\n"))
        out.append(("item with trailing comment", HELP + it.replace("\n", " // c\n", 1) + (" // c" if "\n" not in it else "") + "\n\n" + use + "\n"))
        out.append(("two items on one line", HELP + it.replace("\n", " ") + " fun other() { 1 }\n\n" + use + "\np(other())\n"))
        out.append(("item after code on one line", HELP + "fun other() { 1 } " + it.replace("\n", " ") + "\n\n" + use + "\np(other())\n"))
        out.append(("item first in file", it + "\n" + HELP + "\n" + use + "\n"))
        out.append(("item last in file without newline", HELP + use + "\n" + it))
    return out


def triggers():
    ts = []
    for name, lint, stmts in STMT:
        ts.append({"name": name, "lint": lint, "kind": "stmt", "stmts": stmts})
    for name, lint, e in EXPR:
        ts.append({"name": name, "lint": lint, "kind": "expr", "expr": e})
    for name, lint, item, use in ITEM:
        ts.append({"name": name, "lint": lint, "kind": "item", "item": item, "use": use})
    return ts


def rename_vars(stmts, suffix):
    """Second copy of a trigger with its own variable names (so that the pair does not interact through names)."""
    out = []
    for s in stmts:
        s = re.sub(r"\b(u|f|g|r|v|da|db|sh|wd|wd2|g1|g2|g3|g4|g5)\b", lambda m: m.group(1) + suffix, s)
        out.append(s)
    return out


def pair_programs(ts, quick):
    """Ordered pairs of triggers: on adjacent lines, and on one line when both are one-liners."""
    out = []
    for a in ts:
        for b in ts:
            A = as_stmts(a)
            B = rename_vars(as_stmts(b), "2")
            items = "\n".join(x for x in (a.get("item"), re.sub(r"\b(g1|g2|g3|g4|g5|wd|wd2|myfs)\b", lambda m: m.group(1) + "2", b["item"]) if b.get("item") else None) if x)
            if a.get("item") and b.get("item") and a["item"].startswith("import") and b["item"].startswith("import"):
                items = a["item"] + "\n" + b["item"].replace("myfs", "myfs2")
            onea, oneb = " ".join(A), " ".join(B)
            if not quick or (a["kind"] != "item" and b["kind"] != "item"):
                out.append((f"adjacent lines", a, b, body_prog("  p(1)\n  " + "\n  ".join(A + B) + "\n  p(2)", items)))
            if "\n" not in onea and "\n" not in oneb and a["kind"] != "item" and b["kind"] != "item":
                out.append(("one line", a, b, body_prog(f"  p(1)\n  {onea} {oneb}\n  p(2)", items)))
                if not quick:
                    out.append(("one line", a, b, body_prog(f"  p(1)\n  if bt {{ {onea} {oneb} p(2) }}\n  p(3)", items)))
            if not quick:
                inner = "\n    ".join(x.replace("\n  ", "\n    ") for x in A + B)
                out.append(("adjacent lines", a, b, body_prog(f"  p(1)\n  let h = fun() {{\n    {inner}\n    p(2)\n  }}\n  h()\n  p(3)", items)))
                out.append(("adjacent lines", a, b, body_prog("  p(1)\n  " + "\n  ".join(A) + "\n  // between\n  " + "\n  ".join(B) + "\n  p(2)", items)))
    return out


SINGLE_EQUIV = {"adjacent lines": ("own line", "own line"), "one line": ("same line before code", "same line after code")}


def single_fails(failed_single, c):
    a, b = c["pair"]
    pa, pb = SINGLE_EQUIV[c["placement"]]
    return (a, pa) in failed_single or (b, pb) in failed_single or (a, "own line") in failed_single or (b, "own line") in failed_single


def beh(r):
    b = refgen.behaviour(r)
    if len(b) < 4:
        return b
    return (b[0], b[1], b[2][-1:], b[3])


def run(ctx):
    quick = ctx.quick
    stride = int(os.environ.get("GV_DEV_STRIDE", "1"))
    ts = triggers()
    cases = []      # {"sig_head", "src", "lint", "trigger", "placement"}
    for t in ts:
        for pname, src in placements(t, quick):
            cases.append({"lint": t["lint"], "trigger": t["name"], "placement": pname, "src": src, "single": True, "kind": t["kind"]})
    n_single = len(cases)
    for pname, a, b, src in pair_programs(ts, quick):
        cases.append({"lint": f"{a['lint']} + {b['lint']}", "trigger": f"{a['name']} then {b['name']}", "placement": pname, "src": src, "single": False,
                      "pair": (a["name"], b["name"])})
    if stride > 1:
        cases = cases[::stride]
        ctx.cap(f"development stride {stride}")
    ctx.bound("triggers", len(ts))
    ctx.bound("single_trigger_programs", n_single)
    ctx.bound("pair_programs", len(cases) - n_single if stride == 1 else "strided")
    # round 0: original run + first fix
    res = ctx.pool.map([j for c in cases for j in ({"op": "run", "src": c["src"], "tick_limit": 200000}, {"op": "fix", "src": c["src"]})], batch=16, timeout=90)
    n_exec = 0
    fired = {}
    live = []
    failed_single = set()
    deferred = []
    for i, c in enumerate(cases):
        r0, f0 = res[2 * i], res[2 * i + 1]
        n_exec += 2
        if "parse_errors" in r0:
            raise Machinery(f"template does not parse ({c['trigger']} / {c['placement']}): {r0['parse_errors'][0]['message']}\n{c['src']}")
        if ("panic" in f0 or "crash" in f0) and not c["single"]:
            c["rounds"] = [{"fixed": c["src"], "n_fixes": 0}]
            c["orig"] = beh(r0)
            deferred.append((c, f0))      # judged after the single-trigger programs (below)
            continue
        if "panic" in f0 or "crash" in f0:
            if c["single"]:
                failed_single.add((c["trigger"], c["placement"]))
            msg = re.sub(r"\d+", "N", (f0.get("panic") or f0.get("crash")).split(" of `")[0])[:60]
            ctx.violation(signature(c, None, f"check --fix panics ({msg})", 1),
                          {"src": c["src"], "rounds": [], "panic": (f0.get("panic") or f0.get("crash"))[-200:], "trigger": c["trigger"], "placement": c["placement"]},
                          cli_cmd="garden check --fix --stdout <file>")
            ctx.outcome("violation:panic")
            c["rounds"] = [{"fixed": c["src"], "n_fixes": 0}]
            c["panicked"] = True
            continue
        if "fixed" not in f0 or "outcome" not in r0:
            raise Machinery(f"job failed: {str((r0, f0))[:300]}")
        c["orig"] = beh(r0)
        c["orig_ok"] = c["orig"][0] == "ok" and all(ok for _, ok in c["orig"][3])
        ctx.outcome("original:" + ("ok" if c["orig_ok"] else "fails"))
        c["rounds"] = [f0]
        if c["single"]:
            fired.setdefault(c["trigger"], 0)
            if f0["n_fixes"] > 0:
                fired[c["trigger"]] += 1
        if f0["n_fixes"] == 0:
            ctx.outcome("no fix offered")
        else:
            live.append(c)
    # iterate: run every fixed text, fix again, up to 6 rounds (single-trigger programs are judged before pairs within a round)
    live.sort(key=lambda c: not c["single"])
    for rnd in range(1, 7):
        if not live:
            break
        jobs = []
        for c in live:
            t = c["rounds"][-1]["fixed"]
            jobs.append({"op": "run", "src": t, "tick_limit": 200000})
            jobs.append({"op": "fix", "src": t})
        res = ctx.pool.map(jobs, batch=16, timeout=90)
        nxt = []
        for i, c in enumerate(live):
            rr, ff = res[2 * i], res[2 * i + 1]
            n_exec += 2
            prev = c["rounds"][-1]
            text = prev["fixed"]
            d = None
            if "crash" in rr or "timeout" in rr or "panic" in rr:
                d = "crash"
            elif "panic" in ff:
                d = None
                msg = re.sub(r"\d+", "N", ff["panic"].split(" of `")[0])[:60]
                ctx.violation(signature(c, None, f"check --fix panics ({msg})", rnd + 1),
                              {"src": c["src"], "rounds": [r["fixed"] for r in c["rounds"]], "panic": ff["panic"][-200:], "trigger": c["trigger"], "placement": c["placement"]})
                ctx.outcome("violation:panic")
                continue
            elif "parse_errors" in rr:
                d = "parse error"
            elif c["orig_ok"]:
                d = refgen.diff_class(c["orig"], beh(rr), rr)
            if d is not None and not c["single"] and (single_fails(failed_single, c)):
                ctx.outcome("pair not judged: one of its triggers already fails alone in the same kind of placement")
                continue
            if d is not None:
                if c["single"]:
                    failed_single.add((c["trigger"], c["placement"]))
                lints = sorted({lint_of(f["description"]) for f in prev.get("fixes", [])})
                sig = signature(c, lints, d, rnd)
                ctx.violation(sig, {"src": c["src"], "trigger": c["trigger"], "placement": c["placement"], "difference": d, "rounds": [r["fixed"] for r in c["rounds"]], "fixes": prev.get("fixes"), "original": c["orig"],
                                    "after": beh(rr) if "outcome" in rr else (rr.get("parse_errors") or [{}])[0].get("message"), "lint": c["lint"]},
                              cli_cmd="garden check --fix --stdout <file> > fixed.gdn; garden run <file>; garden run fixed.gdn")
                ctx.outcome("violation:" + d.split(" (")[0])
                continue
            if "fixed" not in ff:
                raise Machinery(f"fix job failed: {str(ff)[:300]}")
            if ff["n_fixes"] == 0 or ff["fixed"] == text:
                ctx.outcome(f"fixed point after {rnd} round(s)")
                if ff["n_fixes"] and ff["fixed"] == text:
                    ctx.outcome("fixes offered that change nothing")
                continue
            if rnd >= 5:
                ctx.violation(signature(c, None, "no fixed point after 5 rounds", 1),
                              {"src": c["src"], "rounds": [r["fixed"] for r in c["rounds"]]})
                continue
            c["rounds"].append(ff)
            nxt.append(c)
        live = nxt
    for c, f0 in deferred:
        if single_fails(failed_single, c):
            ctx.outcome("pair not judged: one of its triggers already fails alone in the same kind of placement")
            continue
        msg = re.sub(r"\d+", "N", (f0.get("panic") or f0.get("crash")).split(" of `")[0])[:60]
        ctx.violation(signature(c, None, f"check --fix panics ({msg})", 1),
                      {"src": c["src"], "rounds": [], "panic": (f0.get("panic") or f0.get("crash"))[-200:], "trigger": c["trigger"], "placement": c["placement"]},
                      cli_cmd="garden check --fix --stdout <file>")
        ctx.outcome("violation:panic")
    # CLI confirmation
    for sig, v in list(ctx.violations.items())[:15]:
        d = v["detail"]
        path = ctx.tmpfile("confirm.gdn", d["src"])
        rc, out, err = ctx.cli(["check", "--fix", "--stdout", path])
        d["cli_exit"] = rc
        if not d["rounds"]:
            if rc == 101:
                ctx.cov["cli_confirmed"] += 1
                continue
            raise Machinery(f"adapter drift: fix op panics but CLI exits {rc} for {sig}")
        if out == d["rounds"][0] or out.rstrip("\n") == d["rounds"][0].rstrip("\n"):
            ctx.cov["cli_confirmed"] += 1
        else:
            d["cli_stdout"] = out[-2000:]
            raise Machinery(f"adapter drift: `garden check --fix --stdout` differs from the fix op for {sig}")
    # a literal with effectful elements may be left without an autofix, and a used import needs none: these are not required to fire
    optional = {t["name"] for t in ts if "/effectful-element" in t["lint"] or "/after-use" in t["lint"] or "/after-inner-binder" in t["lint"]}
    dead = sorted(t for t, n in fired.items() if n == 0 and t not in optional)
    if dead and stride == 1:
        raise Machinery(f"vacuous: triggers that never produced a fix: {dead}")
    ctx.add(states=len(cases), transitions=n_exec, nontrivial=sum(1 for c in cases if c["rounds"][0]["n_fixes"] > 0))
    for c in (cases[3], cases[len(cases) // 2], cases[-1]):
        ctx.sample({"trigger": c["trigger"], "placement": c["placement"], "src": c["src"], "fixed": c["rounds"][0]["fixed"]})
    return ("cases = trigger x placement programs and ordered trigger pairs (adjacent lines / one line). Oracle per --fix round: output parses; when the original "
            "ran without error: same stdout, same printed function result, same test verdicts; no further fixes after <=5 rounds. Non-trivial = programs for which "
            "at least one fix was offered.")


PLACEMENT_CLASS = {
    "own line": "own line(s)", "nested two deep": "own line(s)", "closure in a call argument list": "own line(s)", "comment line before and after": "own line(s)",
    "inside a closure": "own line(s)", "inside a match arm": "own line(s)", "top level": "own line(s)", "test body": "own line(s)", "adjacent lines": "adjacent lines",
    "trailing comment on the line": "line shared with a comment",
    "same line before code": "line shared with other code", "same line after code": "line shared with other code", "between code on one line": "line shared with other code",
    "twice on one line": "twice on one line", "nested two deep on one line": "line shared with other code",
    "one-line closure in a call argument list": "line shared with other code", "one-line match arm": "line shared with other code", "one line": "one line",
    "last expression of the function": "last expression of a block", "last expression of an if branch": "last expression of a block",
    "last expression of a loop body": "last expression of a loop body",
    "call argument": "inside an expression", "let value": "inside an expression", "if condition": "inside an expression", "while condition": "inside an expression",
    "bare match arm": "inside an expression", "returned": "inside an expression",
}
SHAPE_LINTS = ("repeated-bool", "list-len")


def signature(c, lints, what, rnd):
    """lint(s) whose fixes were applied + trigger shape where the shape matters + placement class + what differs."""
    what = re.sub(r" \(.*\)$", "", what) if what.startswith("run ") else what
    head = "+".join(lints) if lints else c["lint"]
    if c["single"] and "/" in c["lint"] and c["lint"] not in head:
        head = head.replace(c["lint"].split("/")[0], c["lint"])
    shape = f" [{c['trigger']}]" if any(l in SHAPE_LINTS for l in (lints or [c["lint"]])) or c["lint"] in SHAPE_LINTS else ""
    if not c["single"]:
        shape = f" [{c['lint']}]"
    place = PLACEMENT_CLASS.get(c["placement"], c["placement"])
    if c.get("kind") == "expr":
        # expression-level triggers: the statement-level placement is immaterial, only whether the line is shared
        place = "line shared with other code" if place in ("line shared with other code", "twice on one line") else "any placement on its own line(s)"
    return f"{head}{shape}, {place}: {what}" + (f" (in round {rnd})" if rnd > 1 else "")


def lint_of(description):
    d = description
    table = [("Remove unused value", "unused-literal"), ("Remove this let binding", "unused-let"), ("Rename to", "unused-variable"),
             ("Remove this import", "unused-import"), ("Remove this type parameter", "unused-type-param"),
             ("Remove unnecessary `let`", "unnecessary-let"), ("Remove unnecessary `return`", "unnecessary-return"),
             ("Remove this duplicate", "repeated-bool"), ("Use `.is_", "list-len"), ("Remove unreachable case", "unreachable-arm"),
             ("Add missing", "missing-cases"), ("Replace `", "operator-fix"), ("Use `", "name-fix")]
    for k, v in table:
        if d.startswith(k):
            return v
    return d[:30]
