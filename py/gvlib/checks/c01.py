"""C01 front end never crashes on any source text."""
REG = dict(
    engine='E1-enum',
    technique='bounded-exhaustive enumeration of character strings, token sequences and single-token edits, executed on the real lexer/parser/checker/formatter under catch_unwind; nesting ladder through the real CLI',
    text="Every string of length <=3 (quick) / <=4 (thorough) over a 40-character alphabet (ASCII classes, multi-byte characters, Unicode whitespace), every sequence of <=3 / <=4 lexemes over 67 lexemes with every space/newline separator combination, every single-token delete/insert/replace and every truncation of every .gdn file in the repository, and a nesting ladder of 26 self-embedding constructs run as separate CLI processes. A panic, abort, signal or hang anywhere in lex+parse+check+format is a violation. Exhaustive within these bounds; 'any length' is covered only by the edit and ladder families.",
    note='In-process adapter mirrors `garden check`/`format`/`reftest-ast`; each panic signature is re-run through the real CLI (or the LSP formatting request) before it is reported. Inputs longer than the bounds that are not single edits of a seed are not covered.',
    design_ref='DESIGN.md §6 C01',
)

import glob, os, itertools
from ..core import Machinery
from ..build import REPO

SIGMA_C = ["a", "Z", "7", "_", " ", "\t", "\n", "\r", '"', "\\", "/", "#", "(", ")", "{", "}", "[", "]", ",", ".", ":", "=", "+", "-", "*", "%", "^", "<", ">", "&", "|", "!",
           "é", "€", "😀", " ", "\u0085", " ", "﻿", "'"]
KEYWORDS = ["let", "fun", "enum", "struct", "public", "import", "if", "else", "while", "return", "test", "match", "break", "continue", "for", "in", "assert", "as", "method",
            "try", "catch", "Dict"]
SIGMA_T = KEYWORDS + ["x", "Foo", "_", "1", "-1", "1.5", '"s"', '"s', "// c\n", "///d\n",
                      "==", "!=", ">=", "<=", "&&", "||", "+=", "-=", "**", "+.", "-.", "*.", "/.", "=>", "::",
                      "+", "-", "*", "/", "%", "^", "=", "<", ">", "&", "|", "(", ")", "{", "}", ",", "[", "]", ".", ":"]


def enum_jobs(alphabet, length, seps):
    return [{"op": "front_enum", "alphabet": alphabet, "len": length, "first": i, "seps": seps} for i in range(len(alphabet))]


def collect(ctx, label, jobs, res):
    total = 0
    for job, r in zip(jobs, res):
        if "count" not in r:
            # the worker died inside this prefix (abort / stack overflow / timeout): re-enumerate the prefix in Python and attribute
            total += attribute(ctx, label, job)
            continue
        total += r["count"]
        ctx.outcome(f"{label}:parse_ok", r["parse_ok"])
        ctx.outcome(f"{label}:parse_errors", r["count"] - r["parse_ok"])
        for f in r["failures"]:
            ctx.violation(f"panic in {f['stage']}: {norm_panic(f['panic'])}", {"src": f["src"], "panic": f["panic"], "space": label}, cli_cmd=cli_for(f["stage"]))
    return total


def attribute(ctx, label, job):
    alpha, n, seps = job["alphabet"], job["len"], job["seps"]
    srcs = []
    for word in itertools.product(range(len(alpha)), repeat=n - 1):
        w = (job["first"],) + word
        for sw in itertools.product(seps, repeat=n - 1):
            s = alpha[w[0]]
            for i in range(1, n):
                s += sw[i - 1] + alpha[w[i]]
            srcs.append(s)
    jobs = [{"op": "front_many", "srcs": srcs[i:i + 200]} for i in range(0, len(srcs), 200)]
    res = ctx.pool.map(jobs, batch=1, timeout=60)
    for j, r in zip(jobs, res):
        if "count" in r:
            ctx.outcome(f"{label}:parse_ok", r["parse_ok"])
            for f in r["failures"]:
                ctx.violation(f"panic in {f['stage']}: {norm_panic(f['panic'])}", {"src": j["srcs"][f["i"]], "panic": f["panic"], "space": label}, cli_cmd=cli_for(f["stage"]))
            continue
        singles = ctx.pool.map([{"op": "front_many", "srcs": [x]} for x in j["srcs"]], batch=1, timeout=10)
        for x, r1 in zip(j["srcs"], singles):
            if "count" not in r1:
                kind = "does not end" if "timeout" in r1 else f"process dies ({r1.get('crash')})"
                ctx.violation(f"front end {kind}: {classify_src(x)}", {"src": x, "result": r1, "space": label}, cli_cmd="garden check <file with src>")
            else:
                for f in r1["failures"]:
                    ctx.violation(f"panic in {f['stage']}: {norm_panic(f['panic'])}", {"src": x, "panic": f["panic"], "space": label}, cli_cmd=cli_for(f["stage"]))
    return len(srcs)


def classify_src(x):
    """Coarse class of a crashing input: its first lexeme."""
    return "input starting with `" + x.split()[0][:12] + "`" if x.split() else "blank input"


def cli_for(stage):
    return {"parse": "garden reftest-ast <file>", "check": "garden check <file>", "format": "garden format <file>"}[stage]


def norm_panic(msg):
    import re
    head, _, loc = msg.partition(" @ ")
    loc = loc.split(":")[0].replace("/repo/", "")
    head = re.sub(r"`[^`]*`", "`…`", head)
    head = re.sub(r"'[^']*'", "'…'", head)
    head = re.sub(r"\d+", "N", head)
    return f"{head[:100]} ({loc})"


def seeds():
    files = sorted(glob.glob(os.path.join(REPO, "src", "**", "*.gdn"), recursive=True))
    out = []
    for f in files:
        try:
            s = open(f, encoding="utf-8").read()
        except UnicodeDecodeError:
            continue
        # strip the reftest footer like the CLI does
        cut = s.find("\n// args: ")
        if cut >= 0:
            s = s[:cut + 1]
        out.append((os.path.relpath(f, REPO), s))
    return out


def run(ctx):
    import time
    only = os.environ.get("GV_C01_ONLY", "abcde")
    total = 0
    t0 = time.time()
    total += part_ab(ctx, only)
    print(f"  [c01] a+b {time.time()-t0:.1f}s total={total}", flush=True)
    t0 = time.time()
    if "c" in only:
        total += part_c(ctx)
    print(f"  [c01] c {time.time()-t0:.1f}s total={total}", flush=True)
    t0 = time.time()
    if "e" in only:
        total += part_e(ctx)
    print(f"  [c01] e {time.time()-t0:.1f}s total={total}", flush=True)
    t0 = time.time()
    if "d" in only:
        total += part_d(ctx)
    print(f"  [c01] d {time.time()-t0:.1f}s total={total}", flush=True)
    confirm(ctx)
    la, lb = (3, 3) if ctx.quick else (4, 4)
    ctx.add(states=total, transitions=total, nontrivial=total - len(SIGMA_C) - len(SIGMA_T))
    ctx.sample({"space": "chars", "example": "é\"\\"})
    ctx.sample({"space": "tokens", "example": "match\n=> {"})
    ctx.sample({"space": "edits", "example": "seed src/test_files/parser/match.gdn with token 3 replaced by `=>`"})
    ctx.sample({"space": "ladder", "example": "'(' * 10000 + '1' + ')' * 10000 via garden check"})
    return (f"(a) every string of length <= {la} over a {len(SIGMA_C)}-character alphabet incl. multi-byte and Unicode whitespace; (b) every sequence of <= {lb} lexemes over "
            f"{len(SIGMA_T)} lexemes joined by every combination of space/newline (length 2 also glued); (c) every single-token delete/insert/replace over the edit alphabet and every "
            "truncation, at every token of every .gdn file in the repository (within the seed size bound); (e) an error snippet at every column with every neighbouring line of a pool "
            "of ASCII/multi-byte/wide lines (the diagnostics are rendered with their source excerpt, as the CLI prints them); (d) a nesting ladder of 26 self-embedding constructs through the real CLI. "
            "Oracle: lex+parse+(check iff no parse errors)+format complete without panic/abort/signal/timeout. Non-trivial = everything beyond single alphabet elements.")


def part_ab(ctx, only):
    total = 0
    if "a" not in only and "b" not in only:
        return 0
    # (a) character strings
    la = 3 if ctx.quick else 4
    ctx.bound("char_string_length", la)
    for n in range(1, la + 1):
        jobs = enum_jobs(SIGMA_C, n, [""])
        res = ctx.pool.map(jobs, batch=1, timeout=120 if ctx.quick else 1200)
        total += collect(ctx, f"chars^{n}", jobs, res)
    # (b) token sequences
    lb = 3 if ctx.quick else 4
    ctx.bound("token_sequence_length", lb)
    for n in range(1, lb + 1):
        seps = [" ", "\n"] if n <= 3 else [" "]
        jobs = enum_jobs(SIGMA_T, n, seps)
        res = ctx.pool.map(jobs, batch=1, timeout=120 if ctx.quick else 3600)
        total += collect(ctx, f"tokens^{n}", jobs, res)
    jobs = enum_jobs(SIGMA_T, 2, [""])
    res = ctx.pool.map(jobs, batch=1, timeout=600)
    total += collect(ctx, "tokens^2-glued", jobs, res)
    return total


def part_c(ctx):
    total = 0
    # (c) single edits of every seed
    sd = seeds()
    tok = ctx.pool.map([{"op": "front", "src": s, "want": ["tokens"]} for _, s in sd], batch=8, timeout=60)
    edit_alpha = ["x", "1", '"s', "(", ")", "{", "}", ",", ".", "=", "let", "fun", "=>", "+", "match", "// c\n", ":", "é"] if ctx.quick else SIGMA_T + ["é"]
    max_tokens = 60 if ctx.quick else 100000
    ctx.bound("edit_alphabet", len(edit_alpha))
    ctx.bound("edit_seed_max_tokens", max_tokens)
    jobs, meta = [], []
    nseeds = 0
    for (name, s), t in zip(sd, tok):
        if "tokens" not in t:
            ctx.violation(f"panic lexing seed: {norm_panic(t.get('panic', str(t)))}", {"seed": name})
            continue
        toks = t["tokens"]
        if len(toks) > max_tokens:
            continue
        nseeds += 1
        b = s.encode()
        variants = []
        for (st, en) in toks:
            variants.append((b[:st] + b[en:]).decode("utf-8", "ignore"))
            for e in edit_alpha:
                eb = e.encode()
                variants.append((b[:st] + eb + b" " + b[st:]).decode("utf-8", "ignore"))
                variants.append((b[:st] + eb + b[en:]).decode("utf-8", "ignore"))
        # also truncation at every token boundary (unterminated constructs)
        for (st, en) in toks:
            variants.append(b[:en].decode("utf-8", "ignore"))
        for i in range(0, len(variants), 300):
            jobs.append({"op": "front_many", "srcs": variants[i:i + 300]})
            meta.append(name)
    res = ctx.pool.map(jobs, batch=1, timeout=120)
    nedit = 0
    for job, name, r in zip(jobs, meta, res):
        if "count" not in r:
            # attribute singly
            singles = ctx.pool.map([{"op": "front_many", "srcs": [s]} for s in job["srcs"]], batch=1, timeout=10)
            for s, r1 in zip(job["srcs"], singles):
                nedit += 1
                if "count" not in r1:
                    ctx.violation(f"edit of seed kills the process ({'timeout' if 'timeout' in r1 else 'crash'})", {"seed": name, "src": s, "result": r1}, cli_cmd="garden check <file>")
                else:
                    for f in r1["failures"]:
                        ctx.violation(f"panic in {f['stage']}: {norm_panic(f['panic'])}", {"seed": name, "src": s, "panic": f["panic"], "space": "edits"}, cli_cmd=cli_for(f["stage"]))
            continue
        nedit += r["count"]
        ctx.outcome("edits:parse_ok", r["parse_ok"])
        ctx.outcome("edits:parse_errors", r["count"] - r["parse_ok"])
        for f in r["failures"]:
            ctx.violation(f"panic in {f['stage']}: {norm_panic(f['panic'])}", {"seed": name, "src": job["srcs"][f["i"]], "panic": f["panic"], "space": "edits"}, cli_cmd=cli_for(f["stage"]))
    ctx.bound("edit_seeds", nseeds)
    total += nedit
    return total


def part_e(ctx):
    """(e) diagnostic rendering: an error at every column of a line, with every neighbour line from a pool of ASCII / multi-byte /
    wide-character lines of every small length: the CLI prints the source lines around an error with carets under it."""
    errors = ["nosuch()", ")", '"unterminated', "1 +", "let = 3", "x.", "fun f(", "1 2 ) 3", "nosuch_é()" if False else "nosuch(1, 2)"]
    neigh = [""]
    for ch in ("a", "é", "€", "😀", "\t", " "):
        for k in (1, 2, 3, 5, 8, 13):
            neigh.append(ch * k)
            neigh.append("// " + ch * k)
            neigh.append('"' + ch * k + '"')
    cols = list(range(0, 14)) if ctx.quick else list(range(0, 30))
    srcs = []
    for e in errors:
        for c in cols:
            for nb in neigh:
                line = " " * c + e
                srcs.append(line + "\n" + nb + "\n")
                srcs.append(nb + "\n" + line + "\n" + nb)
                srcs.append("  é😀 " * (c % 3) + line + "\n" + nb)
    srcs = sorted(set(srcs))
    ctx.bound("rendering_family", {"error_snippets": len(errors), "columns": len(cols), "neighbour_lines": len(neigh)})
    jobs = [{"op": "front_many", "srcs": srcs[i:i + 300]} for i in range(0, len(srcs), 300)]
    res = ctx.pool.map(jobs, batch=1, timeout=300)
    n = 0
    for job, r in zip(jobs, res):
        if "count" not in r:
            singles = ctx.pool.map([{"op": "front_many", "srcs": [x]} for x in job["srcs"]], batch=1, timeout=20)
            for x, r1 in zip(job["srcs"], singles):
                n += 1
                if "count" not in r1:
                    ctx.violation(f"front end dies rendering a diagnostic ({'timeout' if 'timeout' in r1 else 'crash'})", {"src": x, "result": r1}, cli_cmd="garden check <file>")
                else:
                    for f in r1["failures"]:
                        ctx.violation(f"panic in {f['stage']}: {norm_panic(f['panic'])}", {"src": x, "panic": f["panic"], "space": "rendering"}, cli_cmd=cli_for(f["stage"]))
            continue
        n += r["count"]
        ctx.outcome("rendering:parse_ok", r["parse_ok"])
        ctx.outcome("rendering:parse_errors", r["count"] - r["parse_ok"])
        for f in r["failures"]:
            ctx.violation(f"panic in {f['stage']}: {norm_panic(f['panic'])}", {"src": job["srcs"][f["i"]], "panic": f["panic"], "space": "rendering"}, cli_cmd=cli_for(f["stage"]))
    return n


def part_d(ctx):
    total = 0
    # (d) nesting ladder through the real CLI, one process each, default 8 MiB stack
    ladder = [("(", "1", ")"), ("[", "1", "]"), ("{ ", "1", " }"), ("if x { ", "1", " }"), ("fun() { ", "1", " }"), ("f(", "1", ")"), ("1 + ", "1", ""), ("", "x", ".y"), ("Some(", "1", ")"),
              ("-", "1", ""), ("let a = ", "1", ""), ("x = ", "1", ""), ("match x { A => ", "1", " }"), ("while x { ", "1", " }"), ("return ", "1", ""), ("assert(", "1", ")"),
              ("", "x", "()"), ("", "x", "::y"), ("Dict[1 => ", "1", "]"), ("Foo{ f: ", "1", " }"), ("try { ", "1", " } catch (e) {}"), ("for i in ", "x", " {}"), ("", "x", " {"), ("//", "", ""), ("\"", "", ""), ("\\", "", "")]
    # deeper rungs only repeat the same unbounded recursion at a huge cost in time and memory (a 10^5-deep input takes minutes per process)
    depths = [10, 100, 1000] if ctx.quick else [10, 100, 1000, 10000]
    ctx.bound("nesting_depths", depths)
    import concurrent.futures
    failed = {}      # (construct, sub) -> (depth, kind, stderr)
    ncases = 0

    def one(case):
        pre, mid, post, d, sub = case
        src = pre * d + mid + post * d + "\n"
        path = ctx.tmpfile(f"ladder/{abs(hash(case))}.gdn", src)
        rc, out, err = ctx.cli([sub, path], stdin=b"", timeout=300)
        try:
            os.remove(path)
        except OSError:
            pass
        return rc, err[-300:]

    for d in depths:
        cases = []
        for (pre, mid, post) in ladder:
            for sub in ("check", "format", "run", "reftest-ast"):
                if sub == "reftest-ast" and d > 100:
                    continue      # pretty-printing a deep tree is quadratic, not a crash; covered up to 100
                if sub != "check" and d > 10000:
                    continue
                if ((pre, mid, post), sub) in failed:
                    continue      # already failing at a smaller depth
                cases.append((pre, mid, post, d, sub))
        with concurrent.futures.ThreadPoolExecutor(16) as ex:
            results = list(ex.map(one, cases))
        ncases += len(cases)
        for case, (rc, err) in zip(cases, results):
            pre, mid, post, d, sub = case
            ok = isinstance(rc, int) and rc in (0, 1, 10)
            ctx.outcome(f"ladder:{'ok' if ok else 'crash'}")
            if not ok:
                kind = "timeout" if rc == "timeout" else ("panic" if rc == 101 else ("stack overflow" if "overflowed its stack" in err else f"signal/abort rc={rc}"))
                failed[((pre, mid, post), sub)] = (d, kind, err)
    by_construct = {}
    for ((pre, mid, post), sub), (d, kind, err) in failed.items():
        by_construct.setdefault(((pre, mid, post), d, kind), []).append((sub, err))
    for ((pre, mid, post), d, kind), subs in sorted(by_construct.items()):
        name = (pre.strip() + "…" + post.strip()) if (pre.strip() or post.strip()) else mid
        ctx.violation(f"deep nesting of `{name}`: {kind} at depth {d}", {"construct": f"{pre}{mid}{post}", "smallest_failing_depth_tried": d, "subcommands": sorted(x for x, _ in subs),
                                                                     "stderr_tail": subs[0][1]},
                      cli_cmd=f"python3 -c \"print({pre!r}*{d}+{mid!r}+{post!r}*{d})\" > f.gdn && garden {sorted(x for x, _ in subs)[0]} f.gdn")
    total += ncases
    return total


def confirm(ctx):
    # CLI confirmation of in-process panics (one per signature)
    for sig, v in list(ctx.violations.items()):
        d = v["detail"]
        if "src" not in d or "panic" not in d:
            continue
        stage = sig.split(":")[0].replace("panic in ", "")
        sub = {"parse": "reftest-ast", "check": "check", "format": "format"}.get(stage)
        if not sub:
            continue
        path = ctx.tmpfile("confirm.gdn", d["src"])
        rc, out, err = ctx.cli([sub, path], stdin=b"")
        d["cli_exit"] = rc
        bad = lambda rc: rc == 101 or rc == "timeout" or (isinstance(rc, int) and (rc < 0 or rc == 134))
        if bad(rc):
            ctx.cov["cli_confirmed"] += 1
            v["cli"] = f"garden {sub} <file with src>"
            continue
        # the CLI normalises line endings / footers before formatting; an editor buffer reaches the same code with the raw text
        import json as _json
        msgs = [{"jsonrpc": "2.0", "method": "textDocument/didOpen", "params": {"textDocument": {"uri": "file:///c.gdn", "languageId": "garden", "version": 1, "text": d["src"]}}},
                {"jsonrpc": "2.0", "id": 1, "method": "textDocument/formatting", "params": {"textDocument": {"uri": "file:///c.gdn"}, "options": {"tabSize": 2, "insertSpaces": True}}}]
        lpath = ctx.tmpfile("confirm.jsonl", "".join(_json.dumps(m) + "\n" for m in msgs))
        rc2, out2, err2 = ctx.cli(["reftest-lsp", lpath], stdin=b"")
        d["lsp_exit"] = rc2
        if bad(rc2):
            ctx.cov["cli_confirmed"] += 1
            v["cli"] = "garden reftest-lsp <didOpen with src, then textDocument/formatting>"
            continue
        raise Machinery(f"adapter drift: in-process panic '{sig}' but `garden {sub}` exits {rc} and reftest-lsp exits {rc2} on {d['src']!r}")

