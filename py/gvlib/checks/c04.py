"""C04 integer and float arithmetic against an unbounded-integer / IEEE reference."""
REG = dict(
    engine='E1-enum',
    technique='bounded-exhaustive enumeration of operand pairs over a boundary grid, executed on the real interpreter, compared with an unbounded-integer / IEEE-754 reference model',
    text="All pairs over 34 boundary integers and all of [-20,20]^2 for the 12 Int operators and +=/-= (these also on eight kinds of binding: shadowed in an inner / the same block, parameter, loop variable, enclosing block, three nested lets, closure-captured), and all pairs of 20 finite floats for the 4 float operators, are evaluated by the real interpreter and compared with a reference computed in Python's unbounded integers / binary64 directly from the property statement. Fully exhaustive over these grids.",
    note="The 'rest sampled' half of the quantifier is not claimed. Results are compared through string_repr; float inf/NaN results only need to be a value or an exception.",
    design_ref='DESIGN.md §6 C04',
)

import itertools, math, struct
from ..core import Machinery

MAX, MIN = 2**63 - 1, -2**63


def boundary():
    b = {0, MAX, MAX - 1, MIN, MIN + 1}
    for v in (1, 2, 3, 7, 10, 63, 64, 2**31, 2**31 - 1, 2**32, 2**62, 3037000499, 3037000500):
        b.add(v); b.add(-v)
    return sorted(b)


def wrap(x):
    return (x + 2**63) % 2**64 - 2**63


def fits(x):
    return MIN <= x <= MAX


def ref_int(op, a, b):
    """('val', text) or ('exc',) straight from the statement."""
    def val(x): return ("val", str(x))
    def boolean(x): return ("val", "True" if x else "False")
    if op == "+": return val(wrap(a + b))
    if op == "-": return val(wrap(a - b))
    if op == "*": return val(wrap(a * b))
    if op == "/":
        if b == 0: return ("exc",)
        q = abs(a) // abs(b)
        if (a < 0) != (b < 0): q = -q
        return val(q) if fits(q) else ("exc",)
    if op == "%":
        if b == 0: return ("exc",)
        r = a % abs(b)          # Euclidean: 0 <= r < |b|
        return val(r)
    if op == "**":
        if b < 0: return ("exc",)
        if abs(a) <= 1 or b <= 64:
            r = a ** b if b <= 64 else (0 if a == 0 else (1 if a == 1 or b % 2 == 0 else -1))
        else:
            return ("exc",)     # |a| >= 2 and b > 64: overflow
        return val(r) if fits(r) else ("exc",)
    if op == "==": return boolean(a == b)
    if op == "!=": return boolean(a != b)
    if op == "<": return boolean(a < b)
    if op == "<=": return boolean(a <= b)
    if op == ">": return boolean(a > b)
    if op == ">=": return boolean(a >= b)
    raise ValueError(op)


INT_OPS = ["+", "-", "*", "/", "%", "**", "==", "!=", "<", "<=", ">", ">="]

FLOATS = ["0.0", "-0.0", "1.5", "-1.5", "0.1", "0.2", "3.0", "-3.0", "1.0", "2.5", "0.0000001", "-0.0000001", "100000000000000000000.0",
          "-100000000000000000000.0", "1" + "0" * 308 + ".0", "-1" + "0" * 308 + ".0", "0." + "0" * 323 + "5", "-0." + "0" * 323 + "5", "123456789.125", "0.3333333333333333"]
FLOAT_OPS = ["+.", "-.", "*.", "/."]


def ref_float(op, a, b):
    fa, fb = float(a), float(b)
    try:
        if op == "+.": r = fa + fb
        elif op == "-.": r = fa - fb
        elif op == "*.": r = fa * fb
        else:
            if fb == 0.0:
                return ("exc",)
            r = fa / fb
    except OverflowError:
        return ("any",)
    if math.isinf(r) or math.isnan(r):
        return ("any",)
    return ("fval", r)


def bits(f):
    return struct.unpack("<q", struct.pack("<d", f))[0]


def run(ctx):
    B = boundary()
    small = list(range(-20, 21))
    pairs = sorted(set(itertools.product(B, B)) | set(itertools.product(small, small)))
    ctx.bound("int_boundary_values", len(B))
    ctx.bound("int_small_range", "[-20,20]^2")
    cases = [(op, a, b) for (a, b) in pairs for op in INT_OPS]
    # group: expected-value cases 200 per program; expected-exception one per program
    val_cases, exc_cases = [], []
    for c in cases:
        (val_cases if ref_int(*c)[0] == "val" else exc_cases).append(c)
    jobs, meta = [], []
    for i in range(0, len(val_cases), 200):
        chunk = val_cases[i:i + 200]
        src = "".join(f"println(string_repr({a} {op} {b}))\n" for op, a, b in chunk)
        jobs.append({"op": "run", "src": src, "tick_limit": 1000000})
        meta.append(("vals", chunk))
    for c in exc_cases:
        op, a, b = c
        jobs.append({"op": "run", "src": f"println(string_repr({a} {op} {b}))\n", "tick_limit": 100000})
        meta.append(("exc", [c]))
    # += / -= against x = x + e
    upd = [(a, b, u) for (a, b) in itertools.product(B, B) for u in ("+=", "-=")] + [(a, b, u) for a in small[::4] for b in small[::4] for u in ("+=", "-=")]
    for i in range(0, len(upd), 100):
        chunk = upd[i:i + 100]
        src = ""
        for a, b, u in chunk:
            src += f"{{\n let x = {a}\n let y = {a}\n x {u} {b}\n y = y {u[0]} {b}\n println(string_repr(x) ^ \" \" ^ string_repr(y))\n}}\n"
        jobs.append({"op": "run", "src": src, "tick_limit": 1000000})
        meta.append(("upd", chunk))
    # += / -= on every kind of binding (shadowed in an inner block, shadowed in the same block, parameter, loop variable, a variable of an
    # enclosing block, closure-captured): x and y go through the same steps, x with the update operator and y with `y = y op e`
    P = 'println(string_repr(x) ^ " " ^ string_repr(y))'
    CTX = {
        "inner block shadows": "{{\n let x = 1000\n let y = 1000\n if True {{\n  let x = {a}\n  let y = {a}\n  x {u} {b}\n  y = y {o} {b}\n  " + P + "\n }}\n " + P + "\n}}\n",
        "same block shadows": "{{\n let x = 1000\n let y = 1000\n let x = {a}\n let y = {a}\n x {u} {b}\n y = y {o} {b}\n " + P + "\n}}\n",
        "parameter": "fun f{i}(x, y) {{\n x {u} {b}\n y = y {o} {b}\n " + P + "\n}}\nf{i}({a}, {a})\n",
        "parameter shadowed by a let": "fun f{i}(x, y) {{\n if True {{\n  let x = {a}\n  let y = {a}\n  x {u} {b}\n  y = y {o} {b}\n  " + P + "\n }}\n " + P + "\n}}\nf{i}(1000, 1000)\n",
        "loop variable": "for x in [{a}] {{\n let y = x\n x {u} {b}\n y = y {o} {b}\n " + P + "\n}}\n",
        "variable of the enclosing block": "{{\n let x = {a}\n let y = {a}\n if True {{\n  while True {{\n   x {u} {b}\n   y = y {o} {b}\n   break\n  }}\n }}\n " + P + "\n}}\n",
        "three nested lets": "{{\n let x = 1000\n let y = 1000\n if True {{\n  let x = 2000\n  let y = 2000\n  if True {{\n   let x = {a}\n   let y = {a}\n   x {u} {b}\n   y = y {o} {b}\n   " + P + "\n  }}\n  x {u} {b}\n  y = y {o} {b}\n  " + P + "\n }}\n " + P + "\n}}\n",
        "captured by a closure": "{{\n let x = {a}\n let y = {a}\n let g{i} = fun() {{\n  x {u} {b}\n  y = y {o} {b}\n  " + P + "\n }}\n g{i}()\n " + P + "\n}}\n",
    }
    k = 0
    for cname, tpl in CTX.items():
        for a, b in ((1, 2), (MAX, 1), (MIN, 1), (-5, -7)):
            for u in ("+=", "-="):
                k += 1
                jobs.append({"op": "run", "src": tpl.format(a=a, b=b, u=u, o=u[0], i=k), "tick_limit": 100000})
                meta.append(("updctx", [(cname, a, b, u)]))
    # floats
    fcases = [(op, a, b) for a in FLOATS for b in FLOATS for op in FLOAT_OPS]
    for c in fcases:
        op, a, b = c
        jobs.append({"op": "run", "src": f"println(string_repr({a} {op} {b}))\n", "tick_limit": 100000})
        meta.append(("float", [c]))

    res = ctx.pool.map(jobs, batch=16, timeout=60)
    n = 0
    for (kind, chunk), job, r in zip(meta, jobs, res):
        if "panic" in r or "crash" in r or "timeout" in r:
            # attribute within a multi-case program by re-running singly
            if len(chunk) > 1:
                singles = []
                if kind == "vals":
                    singles = [{"op": "run", "src": f"println(string_repr({a} {op} {b}))\n"} for op, a, b in chunk]
                else:
                    singles = [{"op": "run", "src": f"{{\n let x = {a}\n x {u} {b}\n println(string_repr(x))\n}}\n"} for a, b, u in chunk]
                rs = ctx.pool.map(singles, batch=1, timeout=30)
                for c, r1 in zip(chunk, rs):
                    if "panic" in r1 or "crash" in r1 or "timeout" in r1:
                        report_crash(ctx, kind, c, r1)
                    n += 1
            else:
                report_crash(ctx, kind, chunk[0], r)
                n += 1
            continue
        out = r.get("stdout", "").split("\n")
        okind = r["outcome"]["kind"]
        if kind == "vals":
            if okind != "ok" or len(out) - 1 != len(chunk):
                # find the first failing case
                idx = len(out) - 1
                c = chunk[min(idx, len(chunk) - 1)]
                ctx.violation(f"int {c[0]}: exception where a value was expected", {"case": f"{c[1]} {c[0]} {c[2]}", "expected": ref_int(*c)[1], "outcome": r["outcome"]},
                              cli_cmd=f"garden run -c 'println(string_repr({c[1]} {c[0]} {c[2]}))'")
                n += len(chunk)
                continue
            for c, line in zip(chunk, out):
                n += 1
                want = ref_int(*c)[1]
                if line != want:
                    ctx.violation(f"int {c[0]}: wrong value ({classify(c)})", {"case": f"{c[1]} {c[0]} {c[2]}", "expected": want, "got": line},
                                  cli_cmd=f"garden run -c 'println(string_repr({c[1]} {c[0]} {c[2]}))'")
        elif kind == "exc":
            n += 1
            c = chunk[0]
            if okind != "exception":
                ctx.violation(f"int {c[0]}: no exception ({classify(c)})", {"case": f"{c[1]} {c[0]} {c[2]}", "expected": "Garden exception", "got": r.get("stdout"), "outcome": r["outcome"]},
                              cli_cmd=f"garden run -c 'println(string_repr({c[1]} {c[0]} {c[2]}))'")
        elif kind == "updctx":
            n += 1
            cname, a, b, u = chunk[0]
            lines = [l for l in out if l]
            if okind != "ok" or not lines:
                ctx.violation(f"int {u} on a binding ({cname}): error", {"src": job["src"], "outcome": r["outcome"]})
            elif any(len(l.split(" ")) != 2 or l.split(" ")[0] != l.split(" ")[1] for l in lines):
                ctx.violation(f"int {u} on a binding ({cname}): differs from x = x {u[0]} e", {"src": job["src"], "printed (x y per line)": lines},
                              cli_cmd="garden run <file with src>")
            ctx.outcome("update in context: " + cname)
        elif kind == "upd":
            if okind != "ok" or len(out) - 1 != len(chunk):
                c = chunk[min(len(out) - 1, len(chunk) - 1)]
                ctx.violation(f"int {c[2]}: error in update", {"case": f"x = {c[0]}; x {c[2]} {c[1]}", "outcome": r["outcome"]})
                n += len(chunk)
                continue
            for (a, b, u), line in zip(chunk, out):
                n += 1
                want = str(wrap(a + b if u == "+=" else a - b))
                x, y = line.split(" ")
                if x != y or x != want:
                    ctx.violation(f"int {u}: differs from x = x {u[0]} e", {"case": f"x = {a}; x {u} {b}", "x_after_update": x, "x_after_assign": y, "reference": want})
        else:
            n += 1
            c = chunk[0]
            want = ref_float(*c)
            if want[0] == "exc":
                if okind != "exception":
                    ctx.violation(f"float {c[0]}: division by zero gives no exception", {"case": f"{c[1]} {c[0]} {c[2]}", "outcome": r["outcome"], "stdout": r.get("stdout")})
            elif want[0] == "fval":
                if okind != "ok":
                    ctx.violation(f"float {c[0]}: exception on finite result", {"case": f"{c[1]} {c[0]} {c[2]}", "outcome": r["outcome"]})
                else:
                    try:
                        got = float(out[0])
                    except ValueError:
                        got = None
                    if got is None or bits(got) != bits(want[1]):
                        ctx.violation(f"float {c[0]}: wrong value", {"case": f"{c[1]} {c[0]} {c[2]}", "expected": repr(want[1]), "got": out[0]})
            ctx.outcome("float:" + want[0])
    for c in cases:
        ctx.outcome("int:" + ref_int(*c)[0])
    ctx.add(states=n, transitions=len(jobs), evaluations=n, nontrivial=len(cases) + len(upd) + len(fcases) - len(small) ** 2)
    ctx.sample({"case": f"{MIN} / -1", "reference": "exception (quotient 2^63 is not representable)"})
    ctx.sample({"case": f"{MIN} % -1", "reference": "0"})
    ctx.sample({"case": f"x = {MAX}; x += 1", "reference": str(MIN)})
    ctx.assume("float results are compared through string_repr parsed back as binary64 and compared bit-for-bit; where IEEE gives inf/NaN only 'value or exception' is required")
    return (f"all pairs of {len(B)} boundary values and all of [-20,20]^2, times the 12 Int operators, += and -= (against x = x + e and the wrapped reference), "
            f"and all pairs of {len(FLOATS)} finite floats times +. -. *. /.; reference computed in unbounded integers / IEEE doubles from the statement. "
            "Non-trivial = pairs outside the small range or with an exceptional reference outcome.")


def classify(c):
    op, a, b = c
    tags = []
    if a == MIN: tags.append("lhs=MIN")
    if a == MAX: tags.append("lhs=MAX")
    if b == -1: tags.append("rhs=-1")
    if b == 0: tags.append("rhs=0")
    if b == MIN: tags.append("rhs=MIN")
    if b < 0: tags.append("rhs<0")
    return ",".join(tags) or "generic"


def report_crash(ctx, kind, c, r):
    what = "panic" if "panic" in r else ("crash" if "crash" in r else "timeout")
    if kind == "upd":
        a, b, u = c
        ctx.violation(f"int {u}: {what} ({classify((u, a, b))})", {"case": f"x = {a}; x {u} {b}", "result": r}, cli_cmd=f"garden run -c 'let x = {a} x {u} {b}'")
    else:
        op, a, b = c
        ctx.violation(f"{'float' if kind == 'float' else 'int'} {op}: {what} ({classify(c)})", {"case": f"{a} {op} {b}", "result": r},
                      cli_cmd=f"garden run -c 'println(string_repr({a} {op} {b}))'")
