"""C30 nREPL: one final `done` per request, after all its output; sessions isolated."""
import json, os, time
from ..core import Machinery
from .. import schedx

REG = dict(
    engine="E3-sched",
    technique="stateless deviation-bounded exhaustive exploration of thread schedules and timer firings of the real nREPL connection/worker/flusher threads under a controlled scheduler, with replay",
    text="The real nrepl.rs code (Connection, handle_message, session_worker, spawn_output_flusher, eval_code_in_namespace and the interpreter loop) runs under a controlled "
         "scheduler whose scheduling points are every channel send/recv/recv_timeout, thread spawn/join, the per-step interrupt check of the interpreter and every lock() of the "
         "mutexes nrepl.rs uses (output buffers, interrupt-flag table); the flusher's 100 ms timer is a data choice. For nine client scenarios (an eval that crashes the interpreter, one/two sessions, printing evals, failing eval, queued completions/lookup, close, clone after close, print quota and stream chunk sizes inside multi-byte characters, "
         "malformed requests) EVERY schedule with at most 2 (quick) / 3 (thorough) deviations (preemptions or timer firings) is executed and checked: exactly one "
         "`done` per request id and nothing after it, stdout/stderr chunks complete, in order and before `done`, sessions do not see each other's definitions, no deadlock. "
         "Exhaustive within the deviation bound, the bound completed is reported.",
    note="Scheduling is sequentially consistent; the TCP reader/writer threads are represented by the client task and the response channel (the writer only forwards the channel in "
         "order). Real time is abstracted: a timer may fire at any point. Scenarios are small (evals of a few steps); longer programs and more than two sessions are not covered. "
         "Determinism of replay is demonstrated at the start of every run. Executions run one after the other in warm server processes (all threads of an execution unwind and exit at its "
         "end); probe prefixes and every 97th execution are repeated in a forked child of their own and must give identical traces and responses.",
    design_ref="DESIGN.md §6 C30",
)


def clone(i):
    return [{"send": {"op": "clone", "id": f"c{i}"}}, {"await": {"counter": "sent.ch0", "n": i}}]


def ev(i, session, code):
    return {"send": {"op": "eval", "id": i, "session": session, "code": code}}


SCENARIOS = {
    "S1-print": dict(script=clone(1) + [ev("e1", "garden-1", 'print("a") print("b")'), ev("e2", "garden-1", 'eprint("x") 1')],
                     expect={"e1": {"out": "ab", "err": "", "ok": True}, "e2": {"out": "", "err": "x", "ok": True, "value": "1"}}),
    "S2-error": dict(script=clone(1) + [ev("e1", "garden-1", 'print("a") throw("boom")')],
                     expect={"e1": {"out": "a", "err_prefix": "", "ok": False}}),
    "S3-two-sessions": dict(script=clone(1) + clone(2) + [ev("d1", "garden-1", "fun f() { 41 }"), ev("u1", "garden-1", "f()"), ev("u2", "garden-2", "f()"),
                                                         {"send": {"op": "ls-sessions", "id": "ls"}}],
                            expect={"d1": {"out": "", "ok": True}, "u1": {"out": "", "ok": True, "value": "41"}, "u2": {"out": "", "ok": False, "isolation": True}, "ls": {"plain": True}}),
    "S4-queued": dict(script=clone(1) + [ev("e1", "garden-1", 'print("a") 1'), {"send": {"op": "completions", "id": "k1", "session": "garden-1", "prefix": "prin"}},
                                         {"send": {"op": "lookup", "id": "l1", "session": "garden-1", "sym": "print"}}],
                      expect={"e1": {"out": "a", "ok": True, "value": "1"}, "k1": {"plain": True}, "l1": {"plain": True}}),
    "S5-close": dict(script=clone(1) + [ev("e1", "garden-1", 'print("a") 1'), {"send": {"op": "close", "id": "x1", "session": "garden-1"}},
                                        ev("e2", "garden-1", "2")],
                     expect={"e1": {"out": "a", "maybe_interrupted": True}, "x1": {"plain": True}, "e2": {"plain": True}}),
    # a session is cloned after another one was closed: the new session must not be (or share state with) a live one
    "S7-clone-after-close": dict(script=clone(1) + clone(2) + [ev("d2", "garden-2", "fun f() { 42 }"), {"send": {"op": "close", "id": "x1", "session": "garden-1"}},
                                                              {"await": {"counter": "sent.ch0", "n": 4}}, {"send": {"op": "clone", "id": "c3"}}, {"await": {"counter": "sent.ch0", "n": 5}},
                                                              ev("u3", "garden-3", "f()"), ev("u2", "garden-2", "f()")],
                                 expect={"d2": {"out": "", "ok": True}, "x1": {"plain": True}, "u3": {"out": "", "ok": False, "isolation": True}, "u2": {"out": "", "ok": True, "value": "42"}}, fresh_clone="c3"),
    # print options of the value message: a quota and a chunk size that fall inside multi-byte characters of the printed value
    # ("é😀ab" prints as 10 bytes: quote, 2-byte é, 4-byte 😀, a, b, quote)
    "S8-print-options": dict(script=clone(1) + [
        {"send": {"op": "eval", "id": "q2", "session": "garden-1", "code": '"é😀ab"', "nrepl.middleware.print/quota": 2}},
        {"send": {"op": "eval", "id": "q5", "session": "garden-1", "code": '"é😀ab"', "nrepl.middleware.print/quota": 5}},
        {"send": {"op": "eval", "id": "s2", "session": "garden-1", "code": '"é😀ab"', "nrepl.middleware.print/stream?": 1, "nrepl.middleware.print/buffer-size": 2}},
        {"send": {"op": "eval", "id": "s3q6", "session": "garden-1", "code": 'print("x") "é😀ab"', "nrepl.middleware.print/stream?": 1, "nrepl.middleware.print/buffer-size": 3,
                  "nrepl.middleware.print/quota": 6}},
        {"send": {"op": "load-file", "id": "l4", "session": "garden-1", "file": '"é😀ab"', "file-path": "/verif_scratch/p.gdn", "nrepl.middleware.print/quota": 4}}],
        expect={"q2": {"out": "", "ok": True, "value_of": '"é😀ab"', "quota": 2}, "q5": {"out": "", "ok": True, "value_of": '"é😀ab"', "quota": 5},
                "s2": {"out": "", "ok": True, "value_of": '"é😀ab"', "chunk": 2}, "s3q6": {"out": "x", "ok": True, "value_of": '"é😀ab"', "quota": 6, "chunk": 3},
                "l4": {"out": "", "ok": True, "value_of": '"é😀ab"', "quota": 4}}),
    # an eval that makes the interpreter itself panic (break/continue in operand position, a recorded C05 finding): the output printed
    # before the crash and a final `done` must still arrive, and the request queued behind it must be served
    "S9-eval-crashes": dict(script=clone(1) + [ev("e1", "garden-1", 'print("a") for e in [1, 2] { let x = e + (if e == 2 { continue } else { e }) }'),
                                                ev("e2", "garden-1", 'print("b") 2')],
                            expect={"e1": {"out": "a", "ok": False}, "e2": {"out": "b", "ok": True, "value": "2"}}, panics_expected=True),
    "S6-malformed": dict(script=clone(1) + [ev("e0", "nosuch", "1"), {"send": {"op": "frobnicate", "id": "u1"}}, {"send": {"id": "m1"}},
                                            {"send": {"op": "interrupt", "id": "i0", "session": "nosuch"}}, ev("e1", "garden-1", 'print("z") 7')],
                         expect={"e0": {"plain": True}, "u1": {"plain": True}, "m1": {"plain": True}, "i0": {"plain": True}, "e1": {"out": "z", "ok": True, "value": "7"}}),
}


def check_exec(ctx, name, scn, res, prefix, cost):
    """Property oracle for one execution."""
    script, expect = scn["script"], scn["expect"]
    end = res["end"]

    def viol(kind, extra=None):
        d = {"scenario": name, "script": script, "prefix": prefix, "deviations": cost, "end": end, "responses": res["responses"]}
        if extra:
            d.update(extra)
        ctx.violation(f"{name}: {kind}", d, cli_cmd=f"./gv replay <this file>  (garden-verif verif nrepl-run with the script and prefix)")

    for (at, task, text) in res["notes"]:
        if text.startswith("PANIC") and not scn.get("panics_expected"):
            viol("a server thread panicked", {"panic": text})
            return
    if end.startswith("horizon"):
        viol("does not become quiescent within the step horizon")
        return
    # deadlock: at quiescence only session workers waiting for their next request may remain
    blocked = end[end.find("[") + 1:end.rfind("]")] if "[" in end else ""
    for b in [x.strip() for x in blocked.split(",") if x.strip()]:
        tname = b.split(":", 1)[1]
        if not (tname.startswith("nrepl-session-") and "@recv.ch" in tname):
            viol("deadlock: a thread other than an idle session worker is blocked at the end", {"blocked": blocked})
            return
    ids = schedx.by_id(res["responses"])
    for rid, exp in expect.items():
        msgs = ids.get(rid, [])
        dones = [(k, m) for k, m in msgs if "done" in schedx.status_of(m)]
        if len(dones) != 1:
            viol(f"request gets {len(dones)} `done` messages instead of exactly one ({'eval' if 'out' in exp else 'op'})", {"request": rid})
            continue
        kdone = dones[0][0]
        if any(k > kdone for k, m in msgs):
            viol("a message with the request's id arrives after its `done`", {"request": rid})
            continue
        st = schedx.status_of(dones[0][1])
        if exp.get("plain"):
            continue
        out = "".join(m["out"] for k, m in msgs if "out" in m)
        if exp.get("maybe_interrupted") and "interrupted" in st:
            if not exp["out"].startswith(out):
                viol("stdout of an interrupted eval is not a prefix of what it prints", {"request": rid, "out": out})
            continue
        if out != exp["out"]:
            viol("stdout chunks are incomplete, duplicated or out of order", {"request": rid, "out": out, "expected": exp["out"]})
            continue
        errs = [m["err"] for k, m in msgs if "err" in m]
        if "ok" in exp:
            failed = "eval-error" in st
            if failed == exp["ok"]:
                viol("a session sees another session's definition" if exp.get("isolation") else "eval outcome differs from the sequential outcome",
                     {"request": rid, "status": st})
                continue
            if exp["ok"]:
                if "".join(errs) != exp.get("err", ""):
                    viol("stderr chunks are incomplete, duplicated or out of order", {"request": rid, "err": errs, "expected": exp.get("err", "")})
                if "value" in exp:
                    vals = [m["value"] for k, m in msgs if "value" in m]
                    if vals != [exp["value"]]:
                        viol("value message missing or wrong", {"request": rid, "values": vals})
                if "value_of" in exp:
                    # print options: the value messages, joined, are the printed value cut at the last character boundary within the quota;
                    # a streamed chunk is at most `chunk` bytes unless it is a single character
                    vals = [m["value"] for k, m in msgs if "value" in m]
                    full = exp["value_of"].encode()
                    want = full
                    if "quota" in exp and len(full) > exp["quota"]:
                        cut = exp["quota"]
                        while cut > 0 and (full[cut] & 0xC0) == 0x80:
                            cut -= 1
                        want = full[:cut]
                    if "".join(vals).encode() != want or not vals:
                        viol("value messages do not add up to the printed value within the quota", {"request": rid, "values": vals, "expected": want.decode()})
                    elif "chunk" in exp and any(len(v.encode()) > exp["chunk"] and len(v) > 1 for v in vals):
                        viol("a streamed value chunk exceeds the buffer size", {"request": rid, "values": vals})
            else:
                if len(errs) < 1:
                    viol("failed eval has no error text message", {"request": rid})
    if scn.get("fresh_clone"):
        # the id handed out by the last clone must not be the id of a session that is still open
        news = {rid: m.get("new-session") for rid, ms in ids.items() for k, m in ms if isinstance(m, dict) and "new-session" in m}
        closed = {a["send"].get("session") for a in script if "send" in a and a["send"].get("op") == "close"}
        live = {v for r, v in news.items() if r != scn["fresh_clone"] and v not in closed}
        if news.get(scn["fresh_clone"]) in live:
            viol("clone hands out the id of a session that is still open", {"new_sessions": news})
    extra = [i for i in ids if i not in expect and i is not None and not str(i).startswith("c")]
    if extra:
        viol("response with an id that no request carried", {"ids": extra})


def run(ctx):
    bound = 2 if ctx.quick else 3
    budget = float(os.environ.get("GV_SCHED_BUDGET", 100 if ctx.quick else 1500))
    horizon = 600
    ctx.bound("deviation_bound_requested", bound)
    only = os.environ.get("GV_C30_ONLY")
    names = [n for n in SCENARIOS if not only or n in only.split(",")]
    t0 = time.time()
    total_execs = total_points = outcomes = 0
    completed = {}
    stats_all = {"interrupted": 0}
    bases = {}

    def explore(name, bnd, deadline):
        scn = SCENARIOS[name]

        def chk(res, prefix, cost):
            if any("interrupted" in schedx.status_of(m) for m in res["responses"]):
                stats_all["interrupted"] += 1
            check_exec(ctx, name, scn, res, prefix, cost)
        ex = schedx.Explorer(ctx.binary, scn["script"], horizon, bnd, chk, deadline=deadline)
        ex.explore()
        return ex

    # pass 1: determinism, then every schedule with at most one deviation, for every scenario (no time cap)
    first = {}
    for name in names:
        scn = SCENARIOS[name]
        base = schedx.run_exec(ctx.binary, scn["script"], [], horizon)
        if not base["trace"]:
            raise Machinery(f"{name}: empty trace: {base['end']} {base.get('stderr', '')[:300]}")
        bases[name] = base
        ch = [p["choice"] for p in base["trace"]]
        probes = [[]]
        for i, p in enumerate(base["trace"]):
            if len(p["alts"]) > 1:
                probes.append(ch[:i] + [1])
                break
        for i, p in enumerate(base["trace"]):
            tix = [k for k, a in enumerate(p["alts"]) if a[2]]
            if tix:
                probes.append(ch[:i] + [tix[0]])
                break
        schedx.Explorer(ctx.binary, scn["script"], horizon, 0, lambda *a: None).determinism(probes)
        first[name] = explore(name, 1, None)
        completed[name] = first[name].completed_bound
    # pass 2: deeper bounds, in priority order, within the time budget
    final = dict(first)
    for depth in range(2, bound + 1):
        # expected number of schedules: bound-1 count to the power of the depth; smallest first, shares in proportion
        size = lambda n: max(first[n].execs, 2) ** depth
        order = sorted(names, key=size)
        for idx, name in enumerate(order):
            left = t0 + budget - time.time()
            if left <= 0:
                break
            share = time.time() + left * size(name) / sum(size(n) for n in order[idx:])
            ex = explore(name, depth, share)
            if ex.completed_bound >= depth:
                completed[name] = depth
                final[name] = ex
            elif ex.execs > final[name].execs:
                final[name] = ex
    for name in names:
        ex = final[name]
        total_execs += ex.execs
        ctx.cov["cross_checked_in_fresh_process"] = ctx.cov.get("cross_checked_in_fresh_process", 0) + ex.cross_checked
        total_points += ex.points
        outcomes += len(ex.outcomes)
        ctx.outcome(f"{name}: executions", ex.execs)
        ctx.outcome(f"{name}: distinct response sequences", len(ex.outcomes))
        for e, n in ex.ends.items():
            ctx.outcome(f"{name}: end={e}", n)
        ctx.bound(f"{name}: bound completed / executions by cost / longest trace", [completed[name], ex.by_cost, ex.max_len])
        if completed[name] < bound:
            ctx.cap(f"{name}: deviation bound {completed[name]} completed, bound {completed[name] + 1} explored partially ({ex.by_cost.get(completed[name] + 1, 0)} schedules) within the time budget")
        if len(ctx.cov["samples"]) < 3:
            ctx.sample({"scenario": name, "script": SCENARIOS[name]["script"], "default_schedule": [f"{t}:{l}" for (i, t, l, to) in schedx.executed_ops(bases[name])][:80]})
    completed = list(completed.values())
    seen_interrupted = stats_all["interrupted"]
    ctx.bound("deviation_bound_completed_all_scenarios", min(completed))
    if outcomes <= len(names) and total_execs > 50 * len(names):
        raise Machinery(f"vacuous: only {outcomes} distinct observable response sequences over {total_execs} schedules")
    if min(completed) < 1:
        raise Machinery(f"time budget too small: completed deviation bounds {completed}")
    ctx.add(states=total_execs, transitions=total_points, evaluations=total_execs, nontrivial=outcomes)
    ctx.assume("sequentially consistent interleaving of the instrumented points; virtual time (a recv_timeout timer may fire at any point)")
    return ("for each client scenario every schedule of the real threads with at most <bound> deviations from the default non-preemptive schedule (preemption at any scheduling point, "
            "or a flusher timer firing at any point) is executed in its own process and checked against the C30 oracle. states = executions (distinct schedules), transitions = "
            "scheduling points executed, non-trivial = distinct observable response sequences.")
