"""C15 joins computed by the checker cover every element."""
from ..core import Machinery
from .c14 import run_mode

REG = dict(
    engine="E1-enum",
    technique="bounded-exhaustive enumeration of type pairs and triples up to a depth bound, join laws evaluated on the real unify / unify_all and is_subtype",
    text="Every ordered pair of the 361 depth<=1 types (6 leaves) and of the depth<=2 types with unary outer constructors (quick) / all 16 426 depth<=2 types (thorough, 2.7e8 "
         "pairs), and every ordered triple of the 73 depth<=1 types over 3 leaves, is passed to the checker's real `unify` / `unify_all` (the function used for list and dict "
         "literals, if/else, try/catch and match arms). Whenever a combined type is returned it must be a supertype (real is_subtype) of every input, and combining equal types "
         "must return that type. Exhaustive within the depth bound.",
    note="`None` (no join: the checker then reports a type error) is allowed by the statement. The call sites that feed unify (which expressions are combined) are not "
         "enumerated here; they are exercised by C16. Error types excluded.",
    design_ref="DESIGN.md §6 C15",
)


def report(ctx, tot, universe):
    for f in tot["failures"]:
        sig = f"{f['law']} heads={'/'.join(f['heads'])}"
        ctx.violation(sig, {"law": f["law"], "types": f["types"], "note": f["extra"], "universe": universe})


def run(ctx):
    trans = 0
    states = 0
    for u in (["D1:6", "D2u:3"] if ctx.quick else ["D1:6", "D2u:3", "D2:3"]):
        t = run_mode(ctx, "unify", u, timeout=3600)
        report(ctx, t, u)
        trans += t["count"]
        states += t["universe"]
        ctx.outcome(f"{u}: pairs", t["count"])
        ctx.outcome(f"{u}: pairs with a join", t["related"])
        ctx.bound(f"pairs_{u}", t["count"])
        if t["related"] < t["universe"] or t["related"] == t["count"]:
            raise Machinery(f"vacuous: {t['related']} joins of {t['count']} pairs in {u}")
    t = run_mode(ctx, "unify_all", "D1:3", timeout=1800)
    report(ctx, t, "D1:3")
    trans += t["count"]
    ctx.outcome("triples", t["count"])
    ctx.outcome("triples with a join", t["related"])
    if t["count"] != 73 ** 3:
        raise Machinery("unify_all did not enumerate 73^3 triples")
    ctx.add(states=states, transitions=trans, nontrivial=trans - states)
    ctx.sample({"pair": ["List<Int>", "List<NoValue>"], "law": "unify = List<Int>; both inputs are subtypes of it"})
    ctx.sample({"triple": ["Option<NoValue>", "Option<Int>", "Any"], "law": "unify_all result is a supertype of each"})
    return ("every ordered pair of the stated universes through the real unify, every ordered triple of D1 over 3 leaves through unify_all; oracle: result (when present) is a "
            "supertype of each input by the real is_subtype, and unify(t, t) = t. states = types, transitions = unify calls, non-trivial = pairs of distinct types.")
