"""C15 joins computed by the checker cover every element."""
from ..core import Machinery
from .c14 import run_mode

REG = dict(
    engine="E1-enum",
    technique="bounded-exhaustive enumeration of type pairs and triples up to a depth bound, join laws evaluated on the real unify / unify_all and is_subtype",
    text="Every ordered pair of the 361 depth<=1 types (6 leaves) and of the depth<=2 types with unary outer constructors (quick) / all 16 426 depth<=2 types (thorough, 2.7e8 "
         "pairs), and every ordered triple of the 73 depth<=1 types over 3 leaves, is passed to the checker's real `unify` / `unify_all` (the function used for list and dict "
         "literals, if/else, try/catch and match arms). Whenever a combined type is returned it must be a supertype (real is_subtype) of every input, and combining equal types "
         "must return that type. Exhaustive within the depth bound.",
    note="`None` (no join: the checker then reports a type error) is allowed by the statement. The call sites (list and dict literals, if/else, else-if chains, try/catch, match "
         "arms incl. wildcard arms) are enumerated over a pool of 20 typed atoms (all ordered pairs, triples of 8) and judged in the hook: the type the checker records for the "
         "combining expression must be a supertype (real is_subtype) of the type it records for each part. Error types excluded.",
    design_ref="DESIGN.md §6 C15",
)


def report(ctx, tot, universe):
    for f in tot["failures"]:
        sig = f"{f['law']} heads={'/'.join(f['heads'])}"
        ctx.violation(sig, {"law": f["law"], "types": f["types"], "note": f["extra"], "universe": universe})


ATOMS = ["1", "n", '"s"', "s", "[]", "[1]", '["a"]', "None", "Some(1)", 'Some("a")', "o", "Unit", "True", "(1, 2)", 'throw("x")',
         "fun(x: Int): Int { x }", "Red", "Pt{ x: 1 }", "l", "ls"]
SMALL = ["1", '"s"', "[]", "[1]", "None", "Some(1)", 'throw("x")', "l"]
PRELUDE = ("enum Color { Red, Green }\nstruct Pt { x: Int }\nfun takes_list(l: List<Int>): Int { 0 }\n"
           "fun t(n: Int, s: String, o: Option<Int>, l: List<Int>, ls: List<String>) {\n  let r = @\n  r\n}\n")


def constructs():
    """(kind label, source of the combining expression) for every construct x every argument vector of the pools."""
    import itertools
    for a, b in itertools.product(ATOMS, repeat=2):
        yield "list literal", f"[{a}, {b}]"
        yield "dict literal", f'Dict["j" => {a}, "k" => {b}]'
        yield "if/else", f"if True {{ {a} }} else {{ {b} }}"
        yield "try/catch", f"try {{ {a} }} catch (e) {{ {b} }}"
        yield "match Some/None", f"match o {{ Some(v) => {{ {a} }} None => {{ {b} }} }}"
        yield "match Some/_", f"match o {{ Some(v) => {{ {a} }} _ => {{ {b} }} }}"
        yield "match None/_", f"match o {{ None => {{ {a} }} _ => {{ {b} }} }}"
        yield "match _/Some", f"match o {{ _ => {{ {a} }} Some(v) => {{ {b} }} }}"
    # the same literals where the checker knows what it expects (checking mode): a `for` subject, an annotated let, an argument
    for a, b in itertools.product(ATOMS, repeat=2):
        yield "list literal as for subject", f"STMT:for zz in [{a}, {b}] {{ }}"
        yield "list literal under a let hint", f"STMT:let q: List<Int> = [{a}, {b}]"
        yield "list literal as an argument", f"takes_list([{a}, {b}])"
        yield "dict literal under a let hint", f'STMT:let q: Dict<Int> = Dict["j" => {a}, "k" => {b}]'
        yield "if/else under a let hint", f"STMT:let q: Int = if True {{ {a} }} else {{ {b} }}"
    # match / try / if whose parts are each a subtype of the expected type but do not unify with each other (tuples with a
    # partly unknown component), and the ordinary atoms under an Option hint
    TUPLES = ["(1, None)", "(2, Some(3))", "(n, o)", "(n, None)"]
    for a, b in itertools.product(TUPLES, repeat=2):
        yield "match under a let hint (tuple parts)", f"STMT:let q: (Int, Option<Int>) = match o {{ Some(v) => {{ {a} }} None => {{ {b} }} }}"
        yield "match with wildcard under a let hint (tuple parts)", f"STMT:let q: (Int, Option<Int>) = match o {{ Some(v) => {{ {a} }} _ => {{ {b} }} }}"
        yield "if/else under a let hint (tuple parts)", f"STMT:let q: (Int, Option<Int>) = if True {{ {a} }} else {{ {b} }}"
        yield "try/catch under a let hint (tuple parts)", f"STMT:let q: (Int, Option<Int>) = try {{ {a} }} catch (e) {{ {b} }}"
        yield "list literal under a let hint (tuple parts)", f"STMT:let q: List<(Int, Option<Int>)> = [{a}, {b}]"
    for a, b in itertools.product(ATOMS, repeat=2):
        yield "match under a let hint", f"STMT:let q: Option<Int> = match o {{ Some(v) => {{ {a} }} None => {{ {b} }} }}"
        yield "try/catch under a let hint", f"STMT:let q: Option<Int> = try {{ {a} }} catch (e) {{ {b} }}"
    for a, b, c in itertools.product(SMALL, repeat=3):
        yield "list literal of three as for subject", f"STMT:for zz in [{a}, {b}, {c}] {{ }}"
        yield "list literal of three", f"[{a}, {b}, {c}]"
        yield "match Some/None/_", f"match o {{ Some(v) => {{ {a} }} None => {{ {b} }} _ => {{ {c} }} }}"
        yield "if/else if/else", f"if True {{ {a} }} else if False {{ {b} }} else {{ {c} }}"


def call_sites(ctx):
    """The places where the checker combines types: every construct over the atom pools, judged by the hook with the real is_subtype."""
    progs = list(constructs())
    srcs = [PRELUDE.replace("let r = @\n  r", e[5:]) if e.startswith("STMT:") else PRELUDE.replace("@", e) for _, e in progs]
    jobs = [{"op": "combine_types", "srcs": srcs[i:i + 40]} for i in range(0, len(srcs), 40)]
    res = ctx.pool.map(jobs, batch=1, timeout=300)
    n_sites = combined_ok = combined_err = 0
    kinds = set()
    for j, r in zip(jobs, res):
        if "results" not in r:
            raise Machinery(f"combine_types job failed: {str(r)[:300]}")
        for src, one in zip(j["srcs"], r["results"]):
            if "sites" not in one:
                raise Machinery(f"generated program does not check: {src!r} {str(one)[:200]}")
            label = progs[srcs.index(src)][0]
            err_at = [e["position"]["start_offset"] for e in one.get("errors", [])]
            for site in one["sites"]:
                n_sites += 1
                sp = site["position"]
                if site["combined_is_error"] or any(sp["start_offset"] <= o < sp["end_offset"] for o in err_at):
                    # no combined type, or the checker reports a type error inside this expression: the statement allows that
                    combined_err += 1
                    continue
                combined_ok += 1
                kinds.add(site["kind"])
                if site["not_covered"]:
                    ctx.violation(f"{label}: the combined type does not cover a part", {"src": src, "site": site}, cli_cmd="garden check <file> (hover over the expression shows the combined type)")
                elif site["equal_not_kept"] and not any(w in label for w in ("hint", "argument", "for subject")):
                    # (where the checker is given an expected type it records that type for the expression: only the covering clause applies there)
                    ctx.violation(f"{label}: equal types are not combined to that same type", {"src": src, "site": site})
    ctx.outcome("call sites: combined type reported", combined_ok)
    ctx.outcome("call sites: no combined type (checker reports a type error)", combined_err)
    ctx.bound("call_site_programs", len(progs))
    if combined_ok < 500 or combined_err < 100 or len(kinds) < 5:
        raise Machinery(f"vacuous call-site exploration: {combined_ok} combined, {combined_err} rejected, kinds {sorted(kinds)}")
    ctx.sample({"src": srcs[5], "judged": "every list/dict literal, if/else, match and try/catch in it: combined type vs. the inferred type of each part"})
    return len(progs), n_sites


def run(ctx):
    trans = 0
    states = 0
    for u in (["D1:6", "D2u:3"] if ctx.quick else ["D1:6", "D2u:3", "D2:3"]):
        t = run_mode(ctx, "unify", u, timeout=3600)
        report(ctx, t, u)
        trans += t["count"]
        states += t["universe"]
        ctx.outcome(f"{u}: pairs", t["count"])
        ctx.outcome(f"{u}: pairs with a join", t["related"])
        ctx.bound(f"pairs_{u}", t["count"])
        if t["related"] < t["universe"] or t["related"] == t["count"]:
            raise Machinery(f"vacuous: {t['related']} joins of {t['count']} pairs in {u}")
    t = run_mode(ctx, "unify_all", "D1:3", timeout=1800)
    report(ctx, t, "D1:3")
    trans += t["count"]
    ctx.outcome("triples", t["count"])
    ctx.outcome("triples with a join", t["related"])
    if t["count"] != 73 ** 3:
        raise Machinery("unify_all did not enumerate 73^3 triples")
    n_prog, n_sites = call_sites(ctx)
    states += n_prog
    trans += n_sites
    ctx.add(states=states, transitions=trans, nontrivial=trans - states)
    ctx.sample({"pair": ["List<Int>", "List<NoValue>"], "law": "unify = List<Int>; both inputs are subtypes of it"})
    ctx.sample({"triple": ["Option<NoValue>", "Option<Int>", "Any"], "law": "unify_all result is a supertype of each"})
    return ("every ordered pair of the stated universes through the real unify, every ordered triple of D1 over 3 leaves through unify_all; oracle: result (when present) is a "
            "supertype of each input by the real is_subtype, and unify(t, t) = t. states = types, transitions = unify calls, non-trivial = pairs of distinct types.")
