"""C19 rename changes exactly the occurrences of one variable."""
REG = dict(
    engine='E1-enum',
    technique='bounded-exhaustive enumeration of binder programs (same name bound by let / destructuring let / parameter / closure parameter / for / match payload / catch variable in nested, sibling and enclosing scopes) x every variable occurrence, rename on the real tool and LSP server, compared with an independent lexical-scope resolver and by running both programs',
    text='Every program of a binder grammar (containers: top-level block, function with a parameter, top-level statements, each with or without a global function of the same name; statements: print, let, let using the previous binding, destructuring let, assignment, if-block, for, match payload, try/catch as a statement and as the value of an annotated let, closure parameter, capturing closure; sequences of <=2 statements, block nesting 1 in quick and 2 in thorough, i.e. up to 3/4 nested binders of one name) is printed with distinct values per binder and a print after every statement. For every occurrence of a local or parameter: (a) rename_positions equals the occurrence set of the binder computed by py/gvlib/scopes.py; (b) the renamed program (fresh name zz9) has the same stdout/outcome as the original; (c) LSP textDocument/rename edits, applied by an independent UTF-16 text-edit applier, give the same text as the rename tool. A refusal on a local/parameter occurrence is a violation.',
    note='ASCII programs; one-letter names; no break/continue/return (C06 owns variables outliving a block that is left early) and no read of a top-level-block binding after its block (the interpreter splices top-level blocks). Function bodies have no free local variables. Rename of functions/types/methods is only counted.',
    design_ref='DESIGN.md §6 C19',
)


import itertools
from ..core import Machinery
from .. import refgen, scopes

K = ("Int", "K")          # placeholder, renumbered per program
V = ("Var", "v")
PV = ("Call", ("Var", "p"), [V])
E_CONST = K
E_USE = ("Tuple", [V, K])

HELPERS = ("Raw", "fun p(x) { println(string_repr(x)) }\nfun ap(f, x) { f(x) }\nfun ap0(f) { f() }\n"
                  "fun apt<T>(f: Fun<(T), Unit>, x: T) { f(x) }")
GLOBAL_V = ("Fun", "v", False, None, [], [("x", None)], None, [("Var", "x")])


def leaves(quick):
    ls = [PV,
          ("Let", ("Sym", "v"), None, K),
          ("Let", ("Sym", "v"), None, E_USE),
          ("Let", ("Destructure", ["v", "w"]), None, ("Tuple", [E_USE, K])),
          ("Assign", "v", E_USE)]
    return ls


def match_stmts(b, e):
    """Match statements over body b: the payload `v` of an earlier case shadows the outer `v`, which a later case (without a payload,
    with a payload of another name, or with its own payload `v`) uses again; in two of the three the later case is the one that runs."""
    return [
        ("Match", ("Call", ("Var", "Some"), [e]), [(("Some", ("Sym", "v")), b, True), (("None", None), [PV], True)]),
        ("Match", ("Call", ("Var", "Err"), [e]), [(("Ok", ("Sym", "v")), [PV], True), (("Err", ("Sym", "v")), b, True)]),
        ("Match", ("Call", ("Var", "Err"), [e]), [(("Ok", ("Sym", "v")), b, True), (("Err", ("Sym", "w")), [PV], True)]),
    ]


def block_stmts(bodies):
    """Every block-introducing statement over the given bodies."""
    out = []
    for b in bodies:
        out.append(("If", ("Var", "True"), b, None))
        out.append(("Call", ("Var", "ap0"), [("Lambda", [], None, b)]))
        for e in (E_CONST, E_USE):
            out.append(("For", ("Sym", "v"), ("List", [e]), b))
        # the first match form with both scrutinee payloads, the other two with one each
        out.append(match_stmts(b, E_CONST)[0])
        out.extend(match_stmts(b, E_USE))
        # try/catch: the catch variable `v` shadows the outer `v` in the catch block only. As a statement (types inferred), and as the
        # value of a `let` with a type hint (checked against the expected type); a use of the outer `v` follows in either case
        out.append(("Try", [PV], "v", b))
        out.append(("Try", b, "v", [PV]))
        out.append(("Let", ("Sym", "w"), ("T", "Int", []), ("Try", [E_CONST], "v", b + [("Int", 0)])))
        # a closure literal passed to an untyped parameter and to a parameter with a function type (checked against that type)
        out.append(("Call", ("Var", "ap"), [("Lambda", [("v", None)], None, b), E_USE]))
        out.append(("Call", ("Var", "apt"), [("Lambda", [("v", None)], None, b), E_CONST]))
    return out


def nested_match_stmts():
    """Match statements (minimal bodies) inside a for body, a closure with a parameter, a capturing closure and a match case,
    and after each kind of let: the outer binder of the shadowed name is then a for variable, closure parameter, payload, let."""
    out = []
    for e in (E_CONST, E_USE):
        for m in match_stmts([PV], e):
            inner = with_prints([m])
            out.append([("For", ("Sym", "v"), ("List", [E_USE]), inner)])
            out.append([("Call", ("Var", "apt"), [("Lambda", [("v", None)], None, inner), E_CONST])])
            out.append([("Call", ("Var", "ap0"), [("Lambda", [], None, inner)])])
            out.append([("Match", ("Call", ("Var", "Some"), [E_USE]), [(("Some", ("Sym", "v")), inner, True), (("None", None), [PV], True)])])
            out.append([("Let", ("Destructure", ["v", "w"]), None, ("Tuple", [E_USE, K])), m])
    return out


def with_prints(seq):
    """A print of v after every statement that is not itself a print."""
    out = []
    for s in seq:
        out.append(s)
        if s is not PV:
            out.append(PV)
    return out


def bodies0(quick):
    L = leaves(quick)
    return [[a] for a in L] + [[a, b] for a in L for b in L]


def bodies_over(blocks, L, pair_leaves, both_orders=True):
    """Sequences of <=2 statements with at most one block statement."""
    out = [[b] for b in blocks]
    for b in blocks:
        for l in pair_leaves:
            out.append([l, b])
            if both_orders:
                out.append([b, l])
    return out


def programs(quick):
    L = leaves(quick)
    b0 = bodies0(quick)
    inner0 = [with_prints(b) for b in b0]
    blocks1 = block_stmts(inner0)
    pair_leaves = [L[1]] if quick else L
    b1 = b0 + bodies_over(blocks1, L, pair_leaves, both_orders=not quick) + nested_match_stmts()
    all_containers = ["top-block", "fun-param", "top-level", "top-block+global-fun", "top-level+global-fun", "method-receiver", "method-param"]
    if quick:
        for cont in ["top-block", "fun-param", "top-level"]:
            for body in b1:
                yield cont, with_prints(body)
        for body in b0 + [[b] for b in blocks1]:
            yield "top-block+global-fun", with_prints(body)
        # method receiver / parameter containers over the leaf bodies only
        for cont in ("method-receiver", "method-param"):
            for body in b0 + [[m] for e in (E_CONST, E_USE) for m in match_stmts([PV], e)]:
                yield cont, with_prints(body)
        return
    for cont in all_containers:
        for body in b1:
            yield cont, with_prints(body)
    # one more nesting level (blocks over single level-1 block statements, each followed by a print) in the three basic containers
    inner1 = [with_prints([b]) for b in blocks1]
    blocks2 = block_stmts(inner1)
    for cont in all_containers[:3]:
        for body in bodies_over(blocks2, L, [L[1]]):
            yield cont, with_prints(body)


def renumber(tree, counter):
    if tree == K:
        counter[0] += 1
        return ("Int", counter[0])
    if isinstance(tree, tuple):
        return tuple(renumber(x, counter) for x in tree)
    if isinstance(tree, list):
        return [renumber(x, counter) for x in tree]
    return tree


def build(cont, body):
    body = renumber(body, [0])
    items = [HELPERS]
    base = cont.split("+")[0]
    if "global-fun" in cont:
        items.append(GLOBAL_V)
        pre = []
    else:
        pre = [("Let", ("Sym", "v"), None, ("Int", 0))]
    if base == "top-block":
        items.append(("Block", pre + [PV] + body))
    elif base == "method-receiver":
        items.append(("Method", False, None, "v", "Int", "mm", [], [], None, [PV] + body))
        items.append(("Expr", ("MethodCall", ("Int", 0), "mm", [])))
    elif base == "method-param":
        items.append(("Method", False, None, "u", "Int", "mm", [], [("v", None)], None, [PV] + body))
        items.append(("Expr", ("MethodCall", ("Int", 7), "mm", [("Int", 0)])))
    elif base == "fun-param":
        items.append(("Fun", "main_", False, None, [], [("v", None)], None, [PV] + body))
        items.append(("Expr", ("Call", ("Var", "main_"), [("Int", 0)])))
    else:
        for s in pre + [PV] + body:
            items.append(("Expr", s))
    return items


LOCAL_NAMES = {"v", "w", "x"}
VAR_ROLES = {"def-let", "def-destructure", "def-param", "def-for", "def-match", "def-catch", "use", "assign"}
URI = "file:///verif_scratch/main.gdn"
PATH = "/verif_scratch/main.gdn"


def scope_of(key, kinds):
    """Path of the scope a binder governs (prefix relation ~ nesting): the enclosing block for a let, the construct otherwise."""
    p = key[:-1]
    if kinds.get(key, "").startswith("let"):
        return p[:-1]
    return p


def relation(a, b, kinds):
    """Relation of binder b to binder a (both keys)."""
    if a == b:
        return "same binder"
    if not isinstance(b, tuple) or (b and b[0] == "global"):
        return "global function"
    if not isinstance(a, tuple) or (a and a[0] == "global"):
        return "local vs global function"
    sa, sb = scope_of(a, kinds), scope_of(b, kinds)
    if sa == sb:
        return "shadowing-sibling-in-block"
    if sb[:len(sa)] == sa:
        return "shadowing-inner"
    if sa[:len(sb)] == sb:
        return "shadowing-outer"
    return "sibling-scope"


def run(ctx):
    quick = ctx.quick
    progs = []
    for cont, body in programs(quick):
        items = build(cont, body)
        src, pr = refgen.render(items)
        res, kinds = scopes.resolve(items)
        progs.append({"cont": cont, "items": items, "src": src, "syms": pr.syms, "res": res, "kinds": kinds, "exprs": pr.exprs})
    import os
    stride = int(os.environ.get("GV_DEV_STRIDE", "1"))
    if stride > 1:
        progs = progs[::stride]
        ctx.cap(f"development stride {stride}")
    ctx.bound("programs", len(progs))
    ctx.bound("block_nesting", 1 if quick else 2)
    # alignment of printer and resolver
    for P in progs[:: max(1, len(progs) // 50)] + progs[-1:]:
        for s in P["syms"]:
            if s["role"] in VAR_ROLES and s["key"] not in P["res"]:
                raise Machinery(f"resolver/printer misaligned on {s}")

    # ---- phase 1: original run, rename_positions at every variable occurrence, LSP rename at every occurrence
    jobs = []
    meta = []
    OTHER_FULL = 40      # programs in which every other symbol (functions, variants) is probed too
    for pi, P in enumerate(progs):
        occ = [s for s in P["syms"] if (s["role"] in VAR_ROLES and s["name"] in LOCAL_NAMES) or s["role"] == "fun-name" or pi < OTHER_FULL]
        P["occ"] = occ
        jobs.append({"op": "run", "src": P["src"], "tick_limit": 100000})
        jobs.append({"op": "refactor", "tool": "rename_positions", "src": P["src"], "path": PATH, "spans": [[s["start"], s["start"]] for s in occ]})
        msgs = [{"jsonrpc": "2.0", "method": "textDocument/didOpen",
                 "params": {"textDocument": {"uri": URI, "languageId": "garden", "version": 1, "text": P["src"]}}}]
        for i, s in enumerate(occ):
            line, col = refgen.offset_to_lsp(P["src"], s["start"])
            msgs.append({"jsonrpc": "2.0", "id": i + 1, "method": "textDocument/rename",
                         "params": {"textDocument": {"uri": URI}, "position": {"line": line, "character": col}, "newName": "zz9"}})
        jobs.append({"op": "lsp", "messages": msgs})
    res = ctx.pool.map(jobs, batch=12, timeout=60)
    n_exec = 0
    phase2 = []      # (pi, frozenset spans, rep offset)
    for pi, P in enumerate(progs):
        r_run, r_pos, r_lsp = res[3 * pi], res[3 * pi + 1], res[3 * pi + 2]
        for r in (r_run, r_pos, r_lsp):
            if "crash" in r or "timeout" in r or "panic" in r:
                ctx.violation(f"crash in rename machinery ({P['cont']})", {"src": P["src"], "result": str(r)[:500]})
        if "parse_errors" in r_run:
            raise Machinery(f"generated program does not parse: {P['src']!r} {r_run['parse_errors'][0]['message']}")
        if "results" not in r_pos or "results" not in r_lsp:
            continue
        P["orig"] = refgen.behaviour(r_run)
        ctx.outcome("original:" + P["orig"][0])
        src = P["src"]
        by_key = {s["key"]: s for s in P["syms"]}
        lsp_out = r_lsp["results"]
        seen_sets = {}
        for i, (s, rr) in enumerate(zip(P["occ"], r_pos["results"])):
            n_exec += 2
            binder = P["res"].get(s["key"]) if ((s["role"] in VAR_ROLES and s["name"] in LOCAL_NAMES) or s["role"] == "fun-name") else "other"
            is_local = isinstance(binder, tuple) and binder and binder[0] != "global"
            # LSP answer for the same position
            lo = lsp_out[i + 1] if i + 1 < len(lsp_out) else {"panic": "no answer"}
            lsp_text = None
            lsp_null = False
            if "panic" in lo:
                ctx.violation("LSP rename panics", {"src": src, "offset": s["start"], "panic": lo["panic"]})
            else:
                answers = [m for m in lo["out"] if m.get("id") == i + 1]
                if len(answers) != 1:
                    raise Machinery(f"LSP rename: {len(answers)} answers")
                result = answers[0].get("result")
                if result is None:
                    lsp_null = True
                else:
                    edits = result.get("changes", {}).get(URI)
                    if edits is None:
                        raise Machinery(f"LSP rename: unexpected result shape {str(result)[:200]}")
                    lsp_text = refgen.apply_lsp_edits(src, edits)
            if "err" in rr or "panic" in rr:
                if "panic" in rr:
                    ctx.violation(f"rename panics on a {s['role']} occurrence", {"src": src, "offset": s["start"], "panic": rr["panic"]})
                elif is_local:
                    kind = P["kinds"].get(binder, "?")
                    ctx.violation(f"refused: {kind} binder, probed at {s['role']} in {P['cont']}",
                                  {"src": src, "offset": s["start"], "message": rr["err"]},
                                  cli_cmd=f"garden reftest-rename <file> {s['start']} --new-name zz9")
                    ctx.outcome("refused-local")
                else:
                    ctx.outcome("refused-" + ("global-function" if binder != "other" else "other:" + s["role"]))
                if not lsp_null and "panic" not in lo:
                    ctx.violation("lsp differs: tool refuses, LSP returns edits", {"src": src, "offset": s["start"], "lsp_text": lsp_text})
                continue
            actual = frozenset((p["start_offset"], p["end_offset"]) for p in rr["positions"])
            if binder == "other":
                ctx.outcome("renamed-other:" + s["role"])
                expected = None
            else:
                expected = frozenset((t["start"], t["end"]) for t in P["syms"]
                                     if (t["role"] in VAR_ROLES or t["role"] == "fun-name") and P["res"].get(t["key"]) == binder)
            applied = apply_spans(src, actual, "zz9")
            ok_a = True
            if expected is not None and actual != expected:
                ok_a = False
                if is_local:
                    bkind = P["kinds"].get(binder, "?")
                    extra = sorted(actual - expected)
                    missing = sorted(expected - actual)
                    span2sym = {(t["start"], t["end"]): t for t in P["syms"]}
                    what = []
                    for label, spans in (("extra span", extra), ("missing span", missing)):
                        for sp in spans[:1]:
                            t = span2sym.get(sp)
                            if t is None:
                                what.append(f"{label} not on a symbol")
                                continue
                            ob = P["res"].get(t["key"])
                            okind = P["kinds"].get(ob, "global function" if ob and ob[0] == "global" else "?") if ob != binder else bkind
                            via = " via closure" if any(o == "Lambda" for o, _ in expr_ctx(P, t)) else ""
                            what.append(f"{label}: a {t['role']} of a {okind} binder ({relation(binder, ob, P['kinds'])}{via})")
                    ctx.violation(f"{bkind} binder probed at {s['role']}: " + "; ".join(what),
                                  {"src": src, "offset": s["start"], "expected_spans": sorted(expected), "actual_spans": sorted(actual),
                                   "container": P["cont"]},
                                  cli_cmd=f"garden reftest-rename <file> {s['start']} --new-name zz9")
                    ctx.outcome("span-mismatch")
                else:
                    ctx.outcome("global-function-span-mismatch (not in scope of the statement)")
            elif expected is not None:
                ctx.outcome("spans-agree:" + (P["kinds"].get(binder, "?") if is_local else "global-function"))
            # (c) LSP text equals tool text
            if "panic" not in lo:
                if lsp_null and actual:
                    ctx.violation("lsp differs: LSP returns null, tool renames", {"src": src, "offset": s["start"]})
                elif not lsp_null and lsp_text != applied:
                    ctx.violation(f"lsp differs: edits give another text ({s['role']} occurrence)",
                                  {"src": src, "offset": s["start"], "lsp_text": lsp_text, "tool_text": applied})
                else:
                    ctx.outcome("lsp-agrees")
            if actual not in seen_sets:
                seen_sets[actual] = True
                phase2.append((pi, actual, s, applied, ok_a, is_local, binder))

    # ---- phase 2: the tool's own text for one representative per distinct span set, and its behaviour
    jobs2 = []
    for pi, actual, s, applied, ok_a, is_local, binder in phase2:
        jobs2.append({"op": "refactor", "tool": "rename", "src": progs[pi]["src"], "path": PATH, "spans": [[s["start"], s["start"]]], "name": "zz9"})
        jobs2.append({"op": "run", "src": applied, "tick_limit": 100000})
    res2 = ctx.pool.map(jobs2, batch=24, timeout=60)
    n_cmp = 0
    for j, (pi, actual, s, applied, ok_a, is_local, binder) in enumerate(phase2):
        P = progs[pi]
        rt, rr = res2[2 * j], res2[2 * j + 1]
        n_exec += 2
        if "results" not in rt or "ok" not in rt["results"][0]:
            ctx.violation("rename refuses where rename_positions answers", {"src": P["src"], "offset": s["start"], "result": str(rt)[:300]})
            continue
        if rt["results"][0]["ok"] != applied:
            ctx.violation("rename text is not its positions applied", {"src": P["src"], "offset": s["start"], "tool": rt["results"][0]["ok"], "applied": applied})
            continue
        if not is_local:
            continue
        new = refgen.behaviour(rr)
        d = refgen.diff_class(P["orig"], new)
        n_cmp += 1
        if d is None:
            ctx.outcome("behaviour-same")
            continue
        bkind = P["kinds"].get(binder, "?")
        if ok_a:
            ctx.violation(f"output differs: {bkind} binder in {P['cont']}, spans as expected, {d}",
                          {"src": P["src"], "offset": s["start"], "renamed": applied, "original": P["orig"], "after": new},
                          cli_cmd=f"garden reftest-rename <file> {s['start']} --new-name zz9 > out.gdn; garden run <file>; garden run out.gdn")
        ctx.outcome("behaviour-differs")

    # CLI confirmation of up to 10 violations
    for sig, v in list(ctx.violations.items())[:10]:
        d = v["detail"]
        if "offset" not in d or "src" not in d:
            continue
        path = ctx.tmpfile("confirm.gdn", d["src"])
        rc, out, err = ctx.cli(["reftest-rename", path, str(d["offset"]), "--new-name", "zz9"])
        d["cli_exit"] = rc
        d["cli_stdout"] = out[-1500:]
        d["cli_stderr"] = err[-300:]
        if "actual_spans" in d:
            if rc == 0 and out.rstrip("\n") == apply_spans(d["src"], frozenset(map(tuple, d["actual_spans"])), "zz9").rstrip("\n"):
                ctx.cov["cli_confirmed"] += 1
            else:
                raise Machinery(f"adapter drift: CLI rename differs from in-process for {sig}")
    n_occ = sum(len(P.get("occ", [])) for P in progs)
    ctx.add(states=n_occ, transitions=n_exec, nontrivial=sum(1 for pi, a, s, ap, ok, loc, b in phase2 if loc and len(a) >= 2))
    ctx.bound("occurrences", n_occ)
    for P in (progs[len(progs) // 3], progs[-1]):
        ctx.sample({"container": P["cont"], "src": P["src"], "occurrences": len(P["occ"])})
    oc = ctx.cov["outcomes"]
    kinds_seen = {k.split(":", 1)[1] for k in oc if k.startswith("spans-agree:")}
    if not ctx.violations:
        need = {"let", "let-destructure", "fun-param", "closure-param", "for", "match-payload", "method-receiver", "method-param"}
        if not need <= kinds_seen:
            raise Machinery(f"vacuous: binder kinds renamed: {sorted(kinds_seen)}")
        if oc.get("behaviour-same", 0) < len(progs) or oc.get("lsp-agrees", 0) < n_occ // 2:
            raise Machinery("vacuous: too few behaviour / LSP comparisons")
    if oc.get("original:ok", 0) < len(progs) // 2:
        raise Machinery("vacuous: most generated programs fail at run time")
    return ("programs = container x (sequences of <=2 statements over 5 leaf statements and 8 block-introducing statements whose bodies are "
            "again such sequences; at most one block statement per sequence; nesting 1 quick / 2 thorough), a print of v after every statement, "
            "distinct literal per binder; cases = every occurrence of a local/parameter/global-function symbol (all other symbols too in the first 40 programs). "
            "Oracle: rename_positions == occurrence set of the same binder by the independent resolver; rename text == positions applied; renamed program "
            "behaves as the original; LSP rename edits applied == rename text. Non-trivial = distinct (program, binder) renames touching >=2 occurrences.")


def apply_spans(src, spans, new):
    out, i = [], 0
    for a, b in sorted(spans):
        out.append(src[i:a])
        out.append(new)
        i = b
    out.append(src[i:])
    return "".join(out)


def expr_ctx(P, sym):
    """Context chain of the expression that holds symbol `sym` (for `use` symbols), else ()."""
    for e in P["exprs"]:
        if e["start"] == sym["start"] and e["end"] == sym["end"]:
            return e["ctx"]
    # definitions / assignment targets: smallest expression containing the symbol
    best = None
    for e in P["exprs"]:
        if e["start"] <= sym["start"] and sym["end"] <= e["end"]:
            if best is None or e["end"] - e["start"] < best["end"] - best["start"]:
                best = e
    return best["ctx"] if best else ()
