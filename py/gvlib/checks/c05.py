"""C05 core-language programs behave as the reference semantics says."""
REG = dict(
    engine='E1-enum',
    technique='bounded-exhaustive enumeration of every core-fragment program up to a weighted size, executed on the real interpreter and by an independent reference interpreter (differential)',
    text="Every program of the core grammar of gvlib/coregen.py (let/assignment/+=, println(string_repr(e)), if/else, guarded while, for-in, break, continue, return, "
         "named functions f(a)/h(a,b) with guarded recursion, one closure, match over Option/Result/a user enum, value-position if/match; <=2 functions, <=3 top-level "
         "statements, <=3 statements per block, block depth <=3) whose weighted size is <=5 (quick, about 60 k programs) or <=6 (thorough, about 860 k) is generated exactly once, "
         "including every binary operator of the fragment with a printing call in both operands (operand order), "
         "simplest first, run by the real interpreter (`run` job, tick limit 20000) and by gvlib/refint.py, an environment-passing interpreter written from the manual pages. "
         "stdout must be identical and the outcome kind (ok | exception | assertion) equal. Exhaustive within the grammar and bound; no sampling.",
    note="Only the fragment where every reasonable semantics agrees is generated (DESIGN.md section 5): sibling operands have at most one effectful member, captured variables are "
         "not reassigned, operator chains are parenthesised, programs are well-scoped. Programs on which either side exhausts its budget are discarded and counted. Error message "
         "texts are not compared. The printer gast.program_src is trusted (C33 checks it).",
    design_ref='DESIGN.md §6 C05',
)
LEVEL = "model_checking"

import multiprocessing, os, queue as queue_mod
from ..core import Machinery
from ..pool import NCPU
from .. import gast, coregen, refint

TICK_LIMIT = 20000
REF_STEPS = 3000
CHUNK = 4000
STAT_KEYS = ("loop_iterations", "fun_calls", "closure_calls", "breaks", "continues", "returns", "arms", "branches", "shadowing_lets")


# --------------------------------------------------------------------------- syntactic features (for signatures)

def features(items):
    """The set of syntactic features of a program: construct kinds, and for every jump the chain of
    block kinds it leaves.  No values, no names of variables."""
    feats = set()

    def expr(e, path, scopes, in_value=False):
        k = e[0]
        if k in ("Int", "Str", "Var"):
            return
        if k == "Paren":
            return expr(e[1], path, scopes)
        if k == "Bin":
            if e[2] in ("/", "%"):
                feats.add("division")
            elif e[2] in ("&&", "||"):
                feats.add("bool-op")
            elif e[2] == "^":
                feats.add("string-concat")
            if jumps_out(e[1]) or jumps_out(e[3]) or returns_out(e[1]) or returns_out(e[3]):
                feats.add("jump-in-operand")
            if coregen.effectful(e[1]) and coregen.effectful(e[3]):
                feats.add("effectful-operands:" + gast.OP_KIND[e[2]])
            expr(e[1], path, scopes)
            expr(e[3], path, scopes)
            return
        if k == "Call":
            name = e[1][1] if e[1][0] == "Var" else "?"
            if name in ("f", "h"):
                feats.add("call")
                if any(p == "fun:" + name for p in path):
                    feats.add("recursion")
                if any(a[0] == "Call" and a[1][1] in ("f", "h", "g") for a in e[2]):
                    feats.add("call-as-argument")
            elif name == "g":
                feats.add("closure-call")
            elif name == "print":
                feats.add("print")
            elif name in ("Some", "Ok", "Err", "Cust"):
                feats.add("constructor")
            for a in e[2]:
                expr(a, path, scopes)
            return
        if k == "MethodCall":
            feats.add("method:" + e[2])
            expr(e[1], path, scopes)
            for a in e[3]:
                expr(a, path, scopes)
            return
        if k == "List":
            feats.add("list")
            for a in e[1]:
                expr(a, path, scopes)
            return
        if k == "Tuple":
            feats.add("tuple")
            for a in e[1]:
                expr(a, path, scopes)
            return
        if k == "Lambda":
            feats.add("closure")
            params = {p for p, _ in e[1]}
            free = coregen.var_names(e[3], set()) & set().union(*scopes)
            if free - params:
                feats.add("closure-captures")
            block(e[3], path + ["closure"], scopes, bind=params)
            return
        if k == "Let":
            names = [e[1][1]] if e[1][0] == "Sym" else list(e[1][1])
            if e[1][0] != "Sym":
                feats.add("let-tuple")
            if e[3][0] == "If":
                feats.add("value-if")
            elif e[3][0] == "Match":
                feats.add("value-match")
            expr(e[3], path, scopes)
            if e[3][0] != "Lambda":
                feats.add("let-in-block" if len(path) > 0 and path[-1] not in ("closure",) and not path[-1].startswith("fun:") else "let")
                if any(n in s for n in names for s in scopes[:-1]):
                    feats.add("shadow")
                elif any(n in scopes[-1] for n in names):
                    feats.add("redeclare")
            for n in names:
                scopes[-1].add(n)
            return
        if k in ("Assign", "AssignUpdate"):
            feats.add("assign" if k == "Assign" else e[2])
            if e[1] not in scopes[-1]:
                feats.add("assign-outer")
            expr(e[-1], path, scopes)
            return
        if k == "If":
            expr(e[1], path, scopes)
            feats.add("if-else" if e[3] is not None else "if")
            block(e[2], path + ["if"], scopes)
            if e[3] is not None:
                block(e[3], path + ["else"], scopes)
            return
        if k == "While":
            feats.add("while")
            expr(e[1], path, scopes)
            block(e[2], path + ["while"], scopes)
            return
        if k == "For":
            feats.add("for")
            if e[1][0] != "Sym":
                feats.add("for-destructure")
            expr(e[2], path, scopes)
            block(e[3], path + ["for"], scopes, bind=[e[1][1]] if e[1][0] == "Sym" else e[1][1])
            return
        if k == "Match":
            expr(e[1], path, scopes)
            variants = [v for (v, _d), _b in e[2]]
            feats.add("match-option" if "Some" in variants or "None" in variants else "match-result" if "Ok" in variants else "match-enum")
            if "_" in variants:
                feats.add("match-wildcard")
            for (v, d), b in e[2]:
                names = [] if d is None else ([d[1]] if d[0] == "Sym" else list(d[1]))
                block(b, path + ["arm"], scopes, bind=[n for n in names if n != "_"])
            return
        if k in ("Break", "Continue", "Return"):
            chain = []
            for p in reversed(path):
                chain.append(p.split(":")[0])
                if (k == "Return" and (p.startswith("fun:") or p == "closure")) or (k != "Return" and p in ("while", "for")):
                    break
            feats.add(k.lower() + "@" + "/".join(chain))
            if k == "Return" and e[1] is not None:
                expr(e[1], path, scopes)
            return
        if k == "Assert":
            feats.add("assert")
            return expr(e[1], path, scopes)
        raise Machinery(f"features: unknown node {k}")

    def block(body, path, scopes, bind=()):
        scopes.append(set(bind))
        in_loop = False
        for p in reversed(path):
            if p in ("while", "for"):
                in_loop = True
                break
            if p == "closure" or p.startswith("fun:"):
                break
        jump_seen = False
        for s in body:
            if in_loop and jump_seen and s[0] in ("While", "For"):
                feats.add("loop-after-jump")       # a loop statement is pending when the jump runs
            expr(s, path, scopes)
            jump_seen = jump_seen or jumps_out(s)
        scopes.pop()

    top = [set()]
    for it in items:
        if it[0] == "Fun" and it[1] == "noisy":
            continue
        if it[0] == "Fun":
            feats.add("fun" if len(it[5]) == 1 else "fun2")
            block(it[7], ["fun:" + it[1]], [set()], bind=[p for p, _ in it[5]])
        elif it[0] == "Expr":
            expr(it[1], [], top)
    return tuple(sorted(feats))


INCIDENTAL = frozenset(["+=", "-=", "assign", "assign-outer", "let", "list", "constructor", "tuple", "print", "redeclare",
                        "string-concat", "bool-op"])


def signature_features(feats):
    """The features that go into a signature: a jump keeps its kind and its target (`break@for`, `return@fun`) but
    not the chain of blocks in between, and features every program has (plain let, assignment, literals) are left
    out.  The full set stays in the replay detail."""
    out = set()
    for f in feats:
        if f in INCIDENTAL:
            continue
        if "@" in f:
            kind, path = f.split("@")
            f = kind + "@" + path.split("/")[-1]
        out.add(f)
    return tuple(sorted(out))


def jumps_out(t):
    """Does this statement contain a break/continue that targets a loop around it (not one inside it)?"""
    if isinstance(t, tuple):
        if t and t[0] in ("Break", "Continue"):
            return True
        if t and t[0] in ("While", "For", "Lambda"):
            return False
        return any(jumps_out(x) for x in t)
    if isinstance(t, list):
        return any(jumps_out(x) for x in t)
    return False


def returns_out(t):
    if isinstance(t, tuple):
        if t and t[0] == "Return":
            return True
        if t and t[0] == "Lambda":
            return False
        return any(returns_out(x) for x in t)
    if isinstance(t, list):
        return any(returns_out(x) for x in t)
    return False


def diff_kind(ref_out, garden_out):
    a, b = ref_out.split("\n"), garden_out.split("\n")
    if len(b) > len(a):
        return "garden prints more lines"
    if len(b) < len(a):
        return "garden prints fewer lines"
    return "garden prints different values"


# --------------------------------------------------------------------------- producer (generation + reference run), optionally in a child process

def produce(level, depth, groups, emit):
    """Generate every program of exactly this size (of these function groups), re-check the fragment rules, run
    the reference, and hand over chunks of (src, cost, ref_kind, ref_stdout, ref_steps, features, stats)."""
    g = coregen.Gen()
    buf = []
    for items, cost in g.programs(level, depth, exact=level, groups=groups):
        try:
            coregen.check_fragment(items)
            ref = refint.run_program(items, step_limit=REF_STEPS)
        except (coregen.FragmentError, refint.Unsupported) as e:
            raise Machinery(f"generated program outside the fragment ({type(e).__name__}: {e}): {gast.program_src(items)!r}")
        st = ref["stats"]
        buf.append((gast.program_src(items), cost, ref["kind"], ref["stdout"], ref["steps"], features(items),
                    tuple(st[k] for k in STAT_KEYS)))
        if len(buf) >= CHUNK:
            emit(buf)
            buf = []
    if buf:
        emit(buf)


def _child(q, level, depth, groups):
    try:
        produce(level, depth, groups, lambda buf: q.put(("chunk", buf)))
        q.put(("done", groups))
    except BaseException as e:      # reported to the parent as a machinery problem
        q.put(("error", f"{type(e).__name__}: {e}"))


def chunks(level, depth, nproc):
    """Iterator over chunks of one level; with nproc > 0 the level is generated by child processes (split by
    function group) while the parent runs the programs."""
    if nproc <= 0:
        out = []
        produce(level, depth, coregen.GROUPS, out.append)
        yield from out
        return
    # the group without functions is about half of a level, the one with both functions the smallest
    split = {1: [coregen.GROUPS], 2: [((), ("f", "h")), (("f",), ("h",))], 3: [((),), (("f",), ("f", "h")), (("h",),)],
             4: [(g,) for g in coregen.GROUPS]}[nproc]
    mp = multiprocessing.get_context("fork")
    q = mp.Queue(maxsize=2 * nproc)
    procs = [mp.Process(target=_child, args=(q, level, depth, gs), daemon=True) for gs in split]
    for p in procs:
        p.start()
    done = 0
    try:
        while done < nproc:
            try:
                kind, payload = q.get(timeout=600)
            except queue_mod.Empty:
                raise Machinery("program generator stalled")
            if kind == "chunk":
                yield payload
            elif kind == "done":
                done += 1
            else:
                raise Machinery(f"program generator failed: {payload}")
    finally:
        for p in procs:
            p.terminate()


# --------------------------------------------------------------------------- the check

def garden_kind(r):
    k = r["outcome"]["kind"]
    return "budget" if k in ("tick_limit", "stack_limit") else k


def run(ctx):
    size, depth = (5, 3) if ctx.quick else (6, 3)
    ctx.bound("weighted_size", size)
    ctx.bound("block_depth", depth)
    ctx.bound("top_level_statements", coregen.MAX_TOP)
    ctx.bound("function_definitions", 2)
    ctx.bound("statements_per_block", coregen.MAX_BLOCK)
    ctx.bound("tick_limit", TICK_LIMIT)
    ctx.bound("reference_step_limit", REF_STEPS)
    nproc = max(1, min(4, NCPU // 3))

    failures = {}        # (what, features) -> {"count", "best": (cost, len, src), "detail"}
    totals = dict.fromkeys(STAT_KEYS, 0)
    per_level = {}
    seen = set() if ctx.quick else None
    n_prog = n_run = n_nontrivial = n_compared = n_discarded = 0
    max_ratio = 0.0
    samples = {}

    def fail(what, feats, cost, src, detail):
        f = failures.setdefault((what, signature_features(feats)), {"count": 0, "best": None, "detail": None})
        f["count"] += 1
        key = (cost, len(src), src)
        if f["best"] is None or key < f["best"]:
            f["best"], f["detail"] = key, dict(detail, all_features="+".join(feats))

    for level in range(1, size + 1):
        n_level = 0
        for chunk in chunks(level, depth, nproc if level >= size - 1 and level >= 4 else 0):
            jobs = [{"op": "run", "src": c[0], "tick_limit": TICK_LIMIT} for c in chunk]
            res = ctx.pool.map(jobs, batch=48, timeout=20)
            n_prog += len(chunk)
            n_run += len(chunk)
            n_level += len(chunk)
            for (src, cost, rk, rout, rsteps, feats, st), r in zip(chunk, res):
                if seen is not None:
                    if src in seen:
                        raise Machinery(f"generator produced a program twice: {src!r}")
                    seen.add(src)
                for k, v in zip(STAT_KEYS, st):
                    totals[k] += v
                if any(st[:8]):
                    n_nontrivial += 1
                if "timeout" in r:
                    # not a verdict under load: alone, with ten times the time
                    r = ctx.pool.one({"op": "run", "src": src, "tick_limit": TICK_LIMIT}, timeout=200)
                    n_run += 1
                if "panic" in r or "crash" in r or "timeout" in r:
                    what = "garden crashes" if "timeout" not in r else "garden does not end"
                    ctx.outcome(what)
                    fail(what, feats, cost, src, {"src": src, "result": r, "reference": {"kind": rk, "stdout": rout}})
                    continue
                if "parse_errors" in r:
                    raise Machinery(f"generated program does not parse: {src!r}: {r['parse_errors'][0]['message']}")
                gk = garden_kind(r)
                if rk == "budget" or gk == "budget":
                    n_discarded += 1
                    ctx.outcome(f"discarded:reference_{'budget' if rk == 'budget' else 'ends'}+garden_{'budget' if gk == 'budget' else 'ends'}")
                    if gk == "budget" and rk != "budget" and rsteps * 100 <= TICK_LIMIT * 10:
                        # the reference ends within 1% of ten times the tick limit: look again with that limit
                        r2 = ctx.pool.one({"op": "run", "src": src, "tick_limit": TICK_LIMIT * 10}, timeout=200)
                        n_run += 1
                        if "outcome" in r2 and garden_kind(r2) == "budget":
                            fail("garden does not end where the reference ends", feats, cost, src,
                                 {"src": src, "reference": {"kind": rk, "stdout": rout, "steps": rsteps}, "garden": {"kind": r2["outcome"]["kind"], "ticks": r2.get("ticks")}})
                    continue
                n_compared += 1
                ctx.outcome(rk)
                if rsteps:
                    max_ratio = max(max_ratio, r.get("ticks", 0) / rsteps)
                if gk != rk:
                    fail(f"outcome differs (reference {rk}, garden {gk})", feats, cost, src,
                         {"src": src, "reference": {"kind": rk, "stdout": rout}, "garden": {"kind": gk, "message": r["outcome"].get("message"), "stdout": r["stdout"]}})
                elif r["stdout"] != rout:
                    fail("stdout differs, " + diff_kind(rout, r["stdout"]), feats, cost, src,
                         {"src": src, "outcome": rk, "reference_stdout": rout, "garden_stdout": r["stdout"]})
                # samples: per outcome kind a program of the largest size that loops and calls, if any
                rich = bool(st[0] and (st[1] or st[2]))
                skey = (rich, cost, -len(src), src)       # deterministic whatever the arrival order of chunks
                if rk not in samples or skey > samples[rk][0]:
                    samples[rk] = (skey, {"src": src, "size": cost, "outcome": rk, "stdout": rout, "ticks": r.get("ticks"), "reference_steps": rsteps})
        per_level[level] = n_level
        if not n_level:
            raise Machinery(f"no program of size {level}")

    # ---- report: one violation per minimal feature set (per kind of difference)
    by_what = {}
    for (what, feats), f in failures.items():
        by_what.setdefault(what, []).append((frozenset(feats), feats, f))
    for what, lst in sorted(by_what.items()):
        minimal = [x for x in lst if not any(y[0] < x[0] for y in lst)]
        for fs, feats, f in sorted(minimal, key=lambda x: x[1]):
            sig = f"{what}: features={'+'.join(feats)}"
            n = sum(g["count"] for gs, _, g in lst if fs <= gs)
            extra = sorted({"+".join(sorted(gs - fs)) for gs, _, g in lst if fs < gs})
            detail = dict(f["detail"], programs_with_a_superset_of_these_features_that_fail=n, size=f["best"][0],
                          additional_features_of_those_programs=extra[:40])
            ctx.violation(sig, detail, cli_cmd="garden run <file with src>")
            ctx.violations[sig]["count"] = n
    # ---- CLI confirmation of (up to 20) reported programs
    for sig, v in list(ctx.violations.items())[:20]:
        d = v["detail"]
        path = ctx.tmpfile("confirm.gdn", d["src"])
        rc, out, err = ctx.cli(["run", path], stdin=b"", timeout=120)
        d["cli_exit"] = rc
        d["cli_stdout"] = out[-600:]
        d["cli_stderr_tail"] = err[-400:]
        expected = d.get("garden_stdout", d.get("garden", {}).get("stdout"))
        if expected is None or rc == "timeout":
            if rc in (101, 134, "timeout") or (isinstance(rc, int) and rc < 0):
                ctx.cov["cli_confirmed"] += 1
            continue
        if out == expected:
            ctx.cov["cli_confirmed"] += 1
        else:
            raise Machinery(f"adapter drift: `garden run` prints {out!r}, the run job gave {expected!r} for {d['src']!r}")

    # ---- evidence
    for k, v in totals.items():
        ctx.bound("reference_total_" + k, v)
    ctx.bound("programs_per_size", per_level)
    ctx.bound("max_garden_ticks_per_reference_step", round(max_ratio, 2))
    ctx.add(states=n_prog, transitions=n_run, evaluations=n_compared, nontrivial=n_nontrivial)
    for _k, s in sorted(samples.items()):
        ctx.sample(s[1])
    ctx.assume("the reference interpreter gvlib/refint.py is the oracle: written from website/keyword:*.md, website/operator:*.md and the prelude doc comments; "
               "eval.rs was consulted only for the display format of values and for which constructs open a block")
    ctx.assume("only programs inside the fragment of DESIGN.md section 5 are generated (gvlib/coregen.py, re-checked per program by check_fragment)")
    oc = ctx.cov["outcomes"]
    vac = [k for k in ("ok", "exception", "assertion") if not oc.get(k)] + [k for k in STAT_KEYS if not totals[k]]
    if vac:
        raise Machinery(f"vacuous exploration: nothing of {vac}")
    if n_discarded * 10 > n_prog:
        raise Machinery(f"more than 10% of the programs were discarded for budget ({n_discarded} of {n_prog})")
    ctx.bound("programs_discarded_for_budget", n_discarded)
    return (f"every program of the core grammar (gvlib/coregen.py) of weighted size <= {size} with block depth <= {depth}, <= 2 functions, <= 3 top-level statements, "
            "each generated exactly once in order of size, restricted to the defined fragment; executed by the real interpreter (run job) and by the reference interpreter; "
            "compared on exact stdout and outcome kind; either side out of budget = discarded (counted under outcomes). Non-trivial = the reference executed at least one "
            "loop iteration, call, jump, match arm or if-branch.")
