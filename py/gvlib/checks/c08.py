"""C08 an evaluation interrupted anywhere resumes to the same outcome."""
REG = dict(
    engine='E3-sched',
    technique='exhaustive fault (interrupt) injection at every interpreter step of each corpus program, and at every pair / triple of steps, on the real JSON-session handler; resumed to completion and compared with the uninterrupted run',
    text="For each program of a hand-written corpus (one construct per program, covering every Expression_ variant in every ExpressionState of eval_expr, plus programs ending in each kind of runtime error): T = interpreter steps of the uninterrupted session run. The interrupt flag is raised at EVERY step k in 1..T (hook in the eval loop), then `:resume` is sent until the evaluation finishes; every pair of interrupt points for T <= 40 (quick) / all programs (thorough) and every triple for T <= 24 (thorough), including re-interrupting the step that was just resumed. Oracle: the sequence of printed chunks (stdout and stderr) and the final value or error (message and position) equal those of the uninterrupted run, and every injection produces exactly one `interrupted` response. Also: the uninterrupted session outcome equals the plain `run` outcome. Fault enumeration is the right level: the property quantifies over crash points of a deterministic evaluation.",
    note="History family: for every corpus program with function definitions the single injections are repeated after an earlier eval-up-to request on those definitions (which reloads them and sets a stop position), and that request must not change the uninterrupted run either. Injection is deterministic (cumulative step counter in the worker), not a real Ctrl-C; the interrupt request path of json_session::handle_request (flag set from the reader thread) is mirrored by the hook. Programs are small (T <= 150) and single-request; definitions are loaded in a separate request that takes no step. Assertion failures are rendered 'Assertion failed' by the first response and in full by :resume; only the prefix and the position are compared there.",
    design_ref='DESIGN.md §6 C08',
    level='fault_enumeration',
)
LEVEL = "fault_enumeration"

import json, re
from ..core import Machinery
from .. import c08_corpus

TICKS = 100000
PATH = "__user.gdn"
req = lambda s: json.dumps({"method": "run", "input": s})


def observe(result, first_req, want_canon=False):
    """Walk the responses of the interrupted request and the following :resume requests up to the first one that
    is not an interrupt. Returns dict(chunks, final, interrupts, finished, panic, constructs)."""
    resp = result.get("responses", [])
    panic = result.get("panic")
    chunks, interrupts, final, constructs = [], 0, None, []
    for i in range(first_req, len(resp)):
        texts = resp[i]
        last = None
        for t in texts:
            k = json.loads(t).get("kind")
            if isinstance(k, dict) and "printed" in k:
                chunks.append(("out", k["printed"]["s"]))
            elif isinstance(k, dict) and "printed_stderr" in k:
                chunks.append(("err", k["printed_stderr"]["s"]))
            else:
                last = k
        if panic and panic["request"] == i:
            return dict(chunks=chunks, final=("panic", re.sub(r"\d+", "N", panic["message"].split(" @ ")[0])[:80]), interrupts=interrupts, finished=True, constructs=constructs)
        if last is None:
            return dict(chunks=chunks, final=("no-response", ""), interrupts=interrupts, finished=True, constructs=constructs)
        is_int = False
        if isinstance(last, dict) and "interrupted" in last:
            is_int = True
        elif isinstance(last, dict) and "evaluate" in last:
            v = last["evaluate"]["value"]
            if "Err" in v and v["Err"] and v["Err"][0].get("message") == "Interrupted" and v["Err"][0].get("position") is None:
                is_int = True
        if is_int:
            interrupts += 1
            if want_canon and "canon" in result:
                constructs.append(construct_of(result["canon"][i]))
            continue
        if isinstance(last, dict) and "evaluate" in last:
            v = last["evaluate"]["value"]
            if "Err" in v:
                e = v["Err"][0]
                p = e.get("position") or {}
                final = ("err", e.get("message"), (p.get("path"), p.get("start_offset"), p.get("end_offset"), p.get("line_number")))
            else:
                final = ("ok", v.get("Ok"))
        else:
            final = ("other", json.dumps(last)[:120])
        return dict(chunks=chunks, final=final, interrupts=interrupts, finished=True, constructs=constructs)
    return dict(chunks=chunks, final=None, interrupts=interrupts, finished=False, constructs=constructs)


def construct_of(canon):
    """`Variant/State` of the step that was interrupted: the top of exprs_to_eval of the top frame after the interrupt."""
    frames = canon.split("F[")[1:]
    if not frames:
        return "?"
    top = frames[-1]
    parts = top.split("|")
    if len(parts) < 2:
        return "?"
    entries = [e for e in re.split(r";(?=(?:NotEvaluated|PartiallyEvaluated|EvaluatedSubexpressions))", parts[1]) if e]
    if not entries:
        return "?"
    m = re.match(r"^(\w+(?:\(\w+\))?):(\w+)", entries[-1])
    if not m:
        return "?"
    state = {"NotEvaluated": "start", "EvaluatedSubexpressions": "done-subexprs"}.get(m.group(1), m.group(1).replace("PartiallyEvaluated", "partial"))
    return f"{m.group(2)}/{state}"


def expression_variants():
    """Variant names of `enum Expression_` parsed from the repository's own src/parser/ast.rs."""
    import os
    from ..build import REPO
    text = open(os.path.join(REPO, "src", "parser", "ast.rs")).read()
    m = re.search(r"pub(?:\(crate\))? enum Expression_ \{(.*?)\n\}", text, re.S)
    if not m:
        raise Machinery("cannot find `enum Expression_` in src/parser/ast.rs")
    out = re.findall(r"^    ([A-Z]\w*)\b", m.group(1), re.M)
    if len(out) < 20:
        raise Machinery(f"parsed only {len(out)} Expression_ variants")
    return out


def chunk_diff(ref, got):
    if ref == got:
        return None
    from collections import Counter
    a, b = Counter(ref), Counter(got)
    if a == b:
        return "output reordered"
    if not (a - b) and (b - a):
        return "output repeated"
    if (a - b) and not (b - a):
        return "output lost"
    return "output differs"


def final_diff(ref, got, assertion_msg=None):
    if got is None:
        return "not finished"
    if got[0] == "panic":
        return "panic: " + got[1]
    if got[0] in ("no-response", "other"):
        return "no evaluate response"
    if ref[0] == "ok":
        if got[0] == "ok":
            return None if ref[1] == got[1] else "different value"
        return "error instead of value"
    if got[0] == "ok":
        return "value instead of error"
    if ref[1] == "Assertion failed":            # err_to_response renders a fixed text, eval_to_response (:resume) the message itself
        same_msg = got[1] in ("Assertion failed", assertion_msg)
    else:
        same_msg = ref[1] == got[1]
    if not same_msg:
        return "different error message"
    if ref[2] != got[2]:
        return "different error position"
    return None


def judge(base, obs, n_inj):
    hows = []
    f = final_diff(base["final"], obs["final"], base.get("assertion_msg"))
    if f:
        hows.append(f)
    c = chunk_diff(base["chunks"], obs["chunks"])
    if c:
        hows.append(c)
    if obs["interrupts"] != n_inj and not (f and f.startswith("panic")):
        hows.append(f"{obs['interrupts']} interrupted responses for {n_inj} injections")
    return hows


def run(ctx):
    progs = c08_corpus.PROGRAMS
    names = [p[0] for p in progs]
    if len(set(names)) != len(names):
        raise Machinery("duplicate corpus program name")
    pair_T = 40 if ctx.quick else 150
    triple_T = 0 if ctx.quick else 24
    ctx.bound("corpus_programs", len(progs))
    ctx.bound("pairs_for_T<=", pair_T)
    ctx.bound("triples_for_T<=", triple_T)

    def sess_job(defs, src, inject, n_resume, canon=False):
        reqs = ([req(defs)] if defs else []) + [req(src)] + [req(":resume")] * n_resume
        j = {"op": "session", "tick_limit": TICKS, "inject": inject, "requests": reqs}
        if canon:
            j["canon"] = True
        return j

    # ---- baseline: uninterrupted session (inject []) and the plain `run` job
    jobs = []
    for name, defs, src in progs:
        jobs.append({"op": "run", "src": defs + src + "\n", "tick_limit": TICKS, "path": PATH})
        jobs.append(sess_job(defs, src, [], 0))
    res = ctx.pool.map(jobs, batch=8, timeout=30)
    base = {}
    n_exec = len(jobs)
    for i, (name, defs, src) in enumerate(progs):
        r, s = res[2 * i], res[2 * i + 1]
        if "parse_errors" in r:
            raise Machinery(f"corpus program {name} does not parse: {r['parse_errors'][0]['message']}")
        if "outcome" not in r or "responses" not in s or "panic" in s:
            raise Machinery(f"corpus program {name}: uninterrupted run did not complete: {str(r)[:200]} / {str(s)[:200]}")
        first = 1 if defs else 0
        if defs:
            d = json.loads(s["responses"][0][-1])["kind"]["evaluate"]["value"]
            if "Err" in d:
                raise Machinery(f"corpus program {name}: definitions do not load: {d}")
        o = observe(s, first)
        T = s.get("steps")
        if not o["finished"] or o["interrupts"] or not T:
            raise Machinery(f"corpus program {name}: bad baseline {o} steps={T}")
        if T > 150:
            raise Machinery(f"corpus program {name}: T={T} > 150, shorten it")
        base[name] = dict(o, T=T)
        # sanity: the session outcome equals the `run` job outcome
        out = r["outcome"]
        stdout = "".join(c[1] for c in o["chunks"] if c[0] == "out")
        stderr = "".join(c[1] for c in o["chunks"] if c[0] == "err")
        bad = []
        if stdout != r["stdout"] or stderr != r["stderr"]:
            bad.append("printed output differs")
        if out["kind"] == "ok":
            if o["final"] != ("ok", r["values"][-1] if r["values"] else None):
                bad.append("value differs")
        elif out["kind"] in ("exception", "assertion"):
            f = o["final"]
            msg = ("Exception: " + out["message"]) if out["kind"] == "exception" else "Assertion failed"
            if out["kind"] == "assertion":
                base[name]["assertion_msg"] = out["message"]
            p = out["position"]
            off = len(defs.encode())
            ok_pos = f[0] == "err" and ((p["start_offset"] - off, p["end_offset"] - off) == (f[2][1], f[2][2]) or (p["start_offset"], p["end_offset"]) == (f[2][1], f[2][2]))
            if f[0] != "err" or f[1] != msg or not ok_pos:
                bad.append("error differs")
        else:
            raise Machinery(f"corpus program {name}: unexpected run outcome {out}")
        if bad:
            ctx.violation(f"{name}: uninterrupted session run differs from `garden run`: {', '.join(bad)}",
                          {"definitions": defs, "request": src, "run_job": {k: r.get(k) for k in ("outcome", "values", "stdout", "stderr")}, "session": {"final": o["final"], "chunks": o["chunks"]}})
        ctx.outcome("baseline:" + o["final"][0])
    ctx.bound("max_T", max(b["T"] for b in base.values()))
    ctx.bound("sum_T", sum(b["T"] for b in base.values()))

    # ---- injection sets. Step numbers are cumulative over the job: after an interrupt at k the resumed step is k+1,
    # so an uninterrupted run of T steps interrupted j times takes T+j counted steps and the (j+1)-th injection can
    # be anywhere in (previous, T+j]; all of them fire if resuming is faithful.
    cases = []      # (name, inject tuple)
    for name, defs, src in progs:
        T = base[name]["T"]
        for k in range(1, T + 1):
            cases.append((name, (k,)))
    n_single = len(cases)
    for name, defs, src in progs:
        T = base[name]["T"]
        if T <= pair_T:
            for k1 in range(1, T + 1):
                for k2 in range(k1 + 1, T + 2):
                    cases.append((name, (k1, k2)))
    n_pair = len(cases) - n_single
    for name, defs, src in progs:
        T = base[name]["T"]
        if T <= triple_T:
            for k1 in range(1, T + 1):
                for k2 in range(k1 + 1, T + 2):
                    for k3 in range(k2 + 1, T + 3):
                        cases.append((name, (k1, k2, k3)))
    n_triple = len(cases) - n_single - n_pair
    ctx.bound("single_injection_cases", n_single)
    ctx.bound("pair_cases", n_pair)
    ctx.bound("triple_cases", n_triple)
    src_of = {name: (defs, src) for name, defs, src in progs}
    # single injections also dump the canonical Env after each request: the top of exprs_to_eval names the interrupted step
    jobs = [sess_job(*src_of[name], list(inj), len(inj) + 2, canon=(len(inj) == 1)) for name, inj in cases]
    res = ctx.pool.map(jobs, batch=48, timeout=60)
    n_exec += len(jobs)

    # ---- the real interrupt request (what Ctrl-C sends) before the run request: the flag is pending, the first step is interrupted
    ijobs = []
    for name, defs, src in progs:
        ijobs.append({"op": "session", "tick_limit": TICKS, "inject": [],
                      "requests": ([req(defs)] if defs else []) + [json.dumps({"method": "interrupt"}), req(src), req(":resume"), req(":resume"), req(":resume")]})
    ires = ctx.pool.map(ijobs, batch=8, timeout=60)
    n_exec += len(ijobs)
    for (name, defs, src), r in zip(progs, ires):
        if "responses" not in r:
            ctx.violation(f"{name}: interrupt request before run: " + ("worker crash" if "crash" in r else "does not end"), {"definitions_request": defs, "request": src})
            continue
        o = observe(r, 2 if defs else 1)
        hows = judge(base[name], o, 1)
        ctx.outcome("interrupt request, run, resume: " + ("differs" if hows else "same outcome"))
        if hows:
            ctx.violation(f"{name}: `interrupt` request pending when the run request arrives: {' + '.join(hows)}",
                          {"definitions_request": defs, "requests": ['{"method":"interrupt"}', src, ":resume", ":resume", ":resume"],
                           "uninterrupted": {"final": base[name]["final"], "printed": base[name]["chunks"]},
                           "interrupted_run": {"final": o["final"], "printed": o["chunks"], "interrupted_responses": o["interrupts"]}},
                          cli_cmd="garden reftest-json-session <file with the request lines>")

    # ---- the same single injections after an earlier eval-up-to request on the definitions (a session has history: the
    # functions the run calls were last loaded, and a stop position last set, by that request)
    hist = [(name, defs, src) for name, defs, src in progs if defs and "fun " in defs and "{" in defs]
    hjobs, hmeta = [], []
    for name, defs, src in hist:
        off = defs.index("{", defs.index("fun ")) + 2
        eut = json.dumps({"method": "eval_up_to", "src": defs, "offset": off})
        T = base[name]["T"]
        for inj in [()] + [(k,) for k in range(1, T + 1)]:
            hjobs.append({"op": "session", "tick_limit": TICKS, "inject": list(inj), "requests": [req(defs), eut, req(src)] + [req(":resume")] * (len(inj) + 2)})
            hmeta.append((name, inj))
    hres = ctx.pool.map(hjobs, batch=48, timeout=60)
    n_exec += len(hjobs)
    hbase = {}
    n_hist_fired = 0
    for (name, inj), r in zip(hmeta, hres):
        if "responses" not in r:
            ctx.violation(f"{name}: after an eval-up-to request on its definitions: " + ("worker crash" if "crash" in r else "does not end"), {"definitions": src_of[name][0], "request": src_of[name][1], "inject": list(inj)})
            continue
        o = observe(r, 2)
        if not inj:
            hbase[name] = o
            # the history itself must not change what the uninterrupted run does
            hows = judge(base[name], o, 0)
            if hows:
                ctx.violation(f"{name}: an earlier eval-up-to request changes the uninterrupted run: {' + '.join(hows)}",
                              {"definitions": src_of[name][0], "request": src_of[name][1], "expected": {"final": base[name]["final"], "printed": base[name]["chunks"]}, "got": {"final": o["final"], "printed": o["chunks"]}})
            continue
        n_hist_fired += 1 if o["interrupts"] else 0
        hows = judge(base[name], o, 1)
        ctx.outcome("after eval-up-to history, 1 interrupt: " + ("differs" if hows else "same outcome"))
        if hows:
            v = ctx.violations.get(f"{name}: interrupted after an earlier eval-up-to request on its definitions: {' + '.join(hows)}")
            if v is None:
                ctx.violation(f"{name}: interrupted after an earlier eval-up-to request on its definitions: {' + '.join(hows)}",
                              {"definitions": src_of[name][0], "request": src_of[name][1], "interrupt_at_step": inj[0], "uninterrupted": {"final": base[name]["final"], "printed": base[name]["chunks"]},
                               "interrupted_run": {"final": o["final"], "printed": o["chunks"]}}, cli_cmd="garden reftest-json-session <file with the request lines>")
            else:
                v["count"] += 1
    ctx.bound("history_cases(eval-up-to before the run)", len(hjobs))
    if hist and n_hist_fired == 0:
        raise Machinery("vacuous: no injection fired in the eval-up-to history family")

    bad = {}        # (name, inj) -> hows
    cmap = {}       # (name, step) -> Variant/state of the step interrupted there
    total_interrupts = 0
    fired_cases = 0
    for (name, inj), r in zip(cases, res):
        if "responses" not in r:
            bad[(name, inj)] = ["worker crash" if "crash" in r else "does not end"]
            ctx.outcome(bad[(name, inj)][0])
            continue
        o = observe(r, 1 if src_of[name][0] else 0, want_canon=(len(inj) == 1))
        if len(inj) == 1 and o["constructs"]:
            cmap[(name, inj[0])] = o["constructs"][0]
        total_interrupts += o["interrupts"]
        fired_cases += 1 if o["interrupts"] else 0
        hows = judge(base[name], o, len(inj))
        if hows:
            bad[(name, inj)] = hows
            ctx.outcome(f"{len(inj)} interrupt(s): differs")
        else:
            ctx.outcome(f"{len(inj)} interrupt(s): same outcome")
    if total_interrupts == 0 or fired_cases < len(cases) // 2:
        raise Machinery(f"vacuous: injections produced {total_interrupts} interrupted responses in {fired_cases} of {len(cases)} cases")
    ctx.bound("interrupted_responses_observed", total_interrupts)

    # ---- minimal counterexamples only: a pair/triple is reported when no sub-multiset of its (original) steps already fails
    def orig(inj):
        return tuple(k - j for j, k in enumerate(inj))
    bad_orig = {(name, orig(inj)) for (name, inj) in bad}
    minimal = []
    for (name, inj), hows in bad.items():
        o = orig(inj)
        subs = set()
        if len(o) >= 2:
            for j in range(len(o)):
                subs.add(tuple(x for i, x in enumerate(o) if i != j))
            if len(o) == 3:
                subs.update({(o[0],), (o[1],), (o[2],)})
        if any((name, s) in bad_orig for s in subs):
            ctx.outcome("non-minimal counterexample (a subset of its interrupt points already fails)")
            continue
        minimal.append((name, inj, hows))

    # ---- coverage of the dispatch arms of eval_expr: every Expression_ variant of the repository's ast.rs must have been interrupted
    variants = expression_variants()
    hit = sorted(set(cmap.values()))
    hit_variants = {h.split("/")[0] for h in hit}
    missing = [v for v in variants if v not in hit_variants and v != "Invalid"]
    if missing:
        raise Machinery(f"corpus does not interrupt Expression_ variant(s) {missing}: add a program to gvlib/c08_corpus.py")
    ctx.bound("expression_variants_interrupted", f"{len(hit_variants)} of {len(variants)} (all but Invalid)")
    ctx.bound("variant/state_arms_interrupted", len(hit))
    ctx.cov["arms_interrupted"] = hit

    minimal.sort(key=lambda x: (names.index(x[0]), len(x[1]), x[1]))
    for idx, (name, inj, hows) in enumerate(minimal):
        T = base[name]["T"]
        constructs = []
        for k in orig(inj):
            constructs.append(cmap.get((name, k)) or ("first step" if k == 1 else ("last step" if k >= T else "a middle step")))
        where = ", then ".join(constructs)
        sig = f"{name}: interrupt at {where}: {' + '.join(hows)}"
        defs, src = src_of[name]
        r = res[cases.index((name, inj))] if len(minimal) < 400 else None
        detail = {"definitions_request": defs, "request": src, "inject_at_cumulative_steps": list(inj), "then": [":resume"] * (len(inj) + 2), "T": T,
                  "uninterrupted": {"final": base[name]["final"], "printed": base[name]["chunks"]}}
        if r is not None and "responses" in r:
            o = observe(r, 1 if defs else 0)
            detail["interrupted_run"] = {"final": o["final"], "printed": o["chunks"], "interrupted_responses": o["interrupts"]}
        ctx.violation(sig, detail, cli_cmd="no CLI equivalent (needs step-exact injection): ./gv replay; or `garden-verif verif serve` with {\"op\":\"session\",\"inject\":[k],...}")

    ctx.add(states=len(cases) + 2 * len(progs), transitions=n_exec, nontrivial=fired_cases)
    for name in (names[0], "while-continue", "err-in-loop"):
        if name in base:
            ctx.sample({"program": name, "request": src_of[name][1], "T": base[name]["T"], "uninterrupted": {"final": base[name]["final"], "printed": base[name]["chunks"]},
                        "injections": f"every k in 1..{base[name]['T']}" + (", every pair" if base[name]["T"] <= pair_T else "") + (", every triple" if base[name]["T"] <= triple_T else "")})
    return ("corpus of small programs (one construct each); T = steps of the uninterrupted session run; the interrupt flag is raised at every step k in 1..T, "
            f"at every pair of steps for T <= {pair_T}" + (f" and every triple for T <= {triple_T}" if triple_T else "") +
            ", then `:resume` until the evaluation finishes. Oracle: printed chunks and final value/error equal the uninterrupted run and one `interrupted` "
            "response per injection. Non-trivial = a case in which at least one injection actually interrupted the evaluation.")
