"""C28 The LSP server answers every request and never dies."""
REG = dict(
    engine='E2-bfs',
    technique='explicit-state breadth-first search over client message histories on the real lsp::handle_message (state = DocumentStore + shutdown flag, deduplicated), every request / malformed message explored from every reachable state; diagnostics compared with the real checker through an independent LSP text model; sampled histories and every violation replayed through a real `garden lsp` process with Content-Length framing',
    text="State-changing alphabet: didOpen/didChange/didClose x 2 URIs x 5 documents (valid; type error with CRLF and an emoji before the error; parse error; empty; e-acute/emoji outside strings) and shutdown (with and without id); histories of length <=3 (quick) / <=4 (thorough, closes the state space: 72 states, every transition taken). From every reachable state: every request method of handle_message x {open, unopened, on-disk, non-file URI, garbage URI} x positions {0:0, inside an identifier, end of line, inside a surrogate pair, line = line count, line >> count, character >> width}, every method with params missing / null / string / number / array / {} / mistyped fields / negative and non-integer numbers, notification-shaped requests, unknown methods with and without id, response-shaped messages, non-JSON and non-object messages, unusual ids, exit. Oracle: no panic; exactly one response carrying the request's id per request; none for notifications, responses and junk; after didOpen/didChange the published diagnostics equal (message, severity, range) those of the checker on the same text with ranges mapped by gvlib/lsp_text.py; a state reached by two histories answers a probe set identically.",
    note='handle_message is driven in-process (same function `garden lsp` and `garden reftest-lsp` call); the framing loop of run_lsp is exercised only by the sampled real-process replays (liveness until exit, exit status 0/1). Definition results inside built-in files differ between the in-process adapter and the real server (temporary copies) and are compared by shape only. Message interleavings with server-initiated requests do not exist (the server sends none).',
    design_ref='DESIGN.md §6 C28',
)
LEVEL = "model_checking"

import json, os, re, select, subprocess, time
from ..core import Machinery
from .. import lsp_text as T

DOCS = [
    ("valid", 'fun add(x: Int, y: Int): Int {\n  x + y\n}\n\nlet total = add(1, 2)\nlet s = string_repr(total)\nprintln(s.trim_left())\n'),
    ("type-error", 'fun first(_: String, i: Int): Int {\r\n  i\r\n}\r\n\r\nfun unused_fn() {}\r\nfirst("😀é", no_such_var) + "x"\r\n'),
    ("parse-error", 'fun f( {\n  let "é😀" = \n'),
    ("empty", ''),
    ("non-ascii", '// é😀 comment\nlet x = 1 é 😀\n€x\n'),
    # parses cleanly; its diagnostics come from loading the imports (a missing file, an unknown built-in file), not from the checker passes
    ("bad-imports", 'import "./no_such_file_c28.gdn"\nimport "__no_such_builtin.gdn" as nb\n\nlet y = 1\nprintln(string_repr(y))\n'),
]
DOC_NAME = {t: n for n, t in DOCS}
PATH = {"A": "/verif_scratch/a.gdn", "B": "/verif_scratch/b.gdn", "C": "/verif_scratch/never_opened.gdn"}
URI = {k: "file://" + v for k, v in PATH.items()}
URI["E"] = "untitled:Untitled-1"
URI["F"] = "not a uri"
POSITION_METHODS = ["completion", "definition", "hover", "signatureHelp", "documentHighlight", "references", "rename"]
ALL_METHODS = POSITION_METHODS + ["codeAction", "documentSymbol", "formatting"]
SUPPORTED = {"initialize", "initialized", "shutdown", "exit"} | {"textDocument/" + m for m in ALL_METHODS} | {"textDocument/did" + k for k in ("Open", "Change", "Close")}


# ------------------------------------------------------------------ message construction

def note(method, params=...):
    m = {"jsonrpc": "2.0", "method": method}
    if params is not ...:
        m["params"] = params
    return m


def did_open(u, text):
    return note("textDocument/didOpen", {"textDocument": {"uri": u, "languageId": "garden", "version": 1, "text": text}})


def did_change(u, text):
    return note("textDocument/didChange", {"textDocument": {"uri": u, "version": 2}, "contentChanges": [{"text": text}]})


def did_close(u):
    return note("textDocument/didClose", {"textDocument": {"uri": u}})


def valid_params(method, uri, pos=(0, 0), end=None):
    p = {"textDocument": {"uri": uri}}
    pj = {"line": pos[0], "character": pos[1]}
    if method in POSITION_METHODS:
        p["position"] = pj
    if method == "references":
        p["context"] = {"includeDeclaration": True}
    if method == "rename":
        p["newName"] = "renamed_v"
    if method == "completion":
        p["context"] = {"triggerKind": 1}
    if method == "signatureHelp":
        p["context"] = {"triggerKind": 1, "isRetrigger": False}
    if method == "codeAction":
        e = end if end is not None else pos
        p["range"] = {"start": pj, "end": {"line": e[0], "character": e[1]}}
        p["context"] = {"diagnostics": []}
    if method == "formatting":
        p["options"] = {"tabSize": 2, "insertSpaces": True}
    return p


def positions_for(text, full=False):
    """[(class, coarse class, (line, character))] for a document text.  `full`: also every position of the document
    (every UTF-16 column of every line, and one column past the end of each line)."""
    out = []
    ls = T.lines(text)
    out.append(("0:0", "in-range", (0, 0)))
    KW = {"fun", "let", "if", "else", "while", "match", "return", "struct", "enum", "method", "test", "import", "public", "for", "in"}
    m = next((x for x in re.finditer(r"[A-Za-z_][A-Za-z_0-9]+", text) if x.group(0) not in KW), None)
    dot = re.search(r"[a-z_]\.[a-z_]", text)
    if dot:
        out.append(("after-dot", "in-range", T.index_to_position(text, dot.start() + 2)))
        out.append(("in-method-name", "in-range", T.index_to_position(text, dot.start() + 3)))
    call = re.search(r"= [a-z_]+\(", text)
    if call:
        out.append(("in-call-arguments", "in-range", T.index_to_position(text, call.end())))
    if m:
        l, c = T.index_to_position(text, m.start() + 1)
        out.append(("inside-identifier", "in-range", (l, c)))
        s, e, _ = ls[l]
        out.append(("end-of-line", "in-range", (l, T.utf16_len(text[s:e]))))
    for i, ch in enumerate(text):
        if ord(ch) > 0xFFFF:
            l, c = T.index_to_position(text, i)
            out.append(("inside-surrogate-pair", "in-surrogate-pair", (l, c + 1)))
            break
    out.append(("end-of-document", "in-range", T.end_position(text)))
    out.append(("line=count", "out-of-range", (len(ls), 0)))
    out.append(("line>>count", "out-of-range", (1000000, 3)))
    out.append(("character>>width", "out-of-range", (0, 4000000000)))
    if full:
        for n, (a, b, _) in enumerate(ls):
            width = T.utf16_len(text[a:b])
            for c in range(width + 2):
                f = {}
                T.position_to_index(text, n, c, f)
                out.append(("every-position", "in-surrogate-pair" if f.get("inside_surrogate_pair") else ("out-of-range" if f.get("character_clamped") else "in-range"), (n, c)))
    seen, res = set(), []
    for cls, coarse, lc in out:
        if lc not in seen:
            seen.add(lc)
            res.append((cls, coarse, lc))
    return res


class Ev:
    """One alphabet element: the message plus its classification."""
    __slots__ = ("msg", "method", "pclass", "target", "poscls", "kind", "diag_for", "label")

    def __init__(self, msg, method, pclass="valid", target=None, poscls=None, kind=None, diag_for=None):
        self.msg, self.method, self.pclass, self.target, self.poscls, self.diag_for = msg, method, pclass, target, poscls, diag_for
        if kind is None:
            if isinstance(msg, dict) and "method" in msg:
                kind = "request" if msg.get("id") is not None else "notification"
            elif isinstance(msg, dict) and ("result" in msg or "error" in msg):
                kind = "response"
            else:
                kind = "junk"
        self.kind = kind
        self.label = f"{method} [{pclass}{'' if poscls is None else ' @' + poscls}] -> {target or '-'}"


def changing_events():
    evs = []
    for k in ("A", "B"):
        for name, text in DOCS:
            evs.append(Ev(did_open(URI[k], text), "textDocument/didOpen", target=k, diag_for=(k, text)))
        for name, text in DOCS:
            evs.append(Ev(did_change(URI[k], text), "textDocument/didChange", target=k, diag_for=(k, text)))
        evs.append(Ev(did_close(URI[k]), "textDocument/didClose", target=k))
    # document notifications sent with an id and well-formed params: JSON-RPC makes them requests, so the notification is
    # carried out (diagnostics may be published) and the id still needs exactly one response
    name, text = DOCS[1]
    for mk in (lambda: did_open(URI["A"], text), lambda: did_change(URI["A"], text), lambda: did_close(URI["A"])):
        m = mk()
        m["id"] = 0
        evs.append(Ev(m, "<notification method sent with an id>", pclass="valid", kind="request", target="A",
                      diag_for=None if m["method"].endswith("didClose") else ("A", text)))
    sd = note("shutdown")
    sd["id"] = "sd"
    evs.append(Ev(sd, "shutdown"))
    evs.append(Ev(note("shutdown"), "shutdown", pclass="notification-shaped"))
    return evs


def malformed_variants(method, vp):
    """(class, params or ... for 'no params key')"""
    import copy
    out = [("params:missing", ...), ("params:null", None), ("params:string", "x"), ("params:number", 5), ("params:array", []), ("params:empty-object", {})]

    def mod(cls, f):
        p = copy.deepcopy(vp)
        f(p)
        out.append((cls, p))
    mod("textDocument:string", lambda p: p.__setitem__("textDocument", "x"))
    mod("textDocument:null", lambda p: p.__setitem__("textDocument", None))
    mod("uri:number", lambda p: p.__setitem__("textDocument", {"uri": 5}))
    mod("uri:missing", lambda p: p.__setitem__("textDocument", {}))
    if "position" in vp:
        mod("position:missing", lambda p: p.pop("position"))
        mod("position:string", lambda p: p.__setitem__("position", "0:0"))
        mod("position:null", lambda p: p.__setitem__("position", None))
        mod("line:negative", lambda p: p["position"].__setitem__("line", -1))
        mod("character:negative", lambda p: p["position"].__setitem__("character", -1))
        mod("line:float", lambda p: p["position"].__setitem__("line", 1.5))
        mod("line:string", lambda p: p["position"].__setitem__("line", "1"))
        mod("line:2^32", lambda p: p["position"].__setitem__("line", 4294967296))
        mod("character:missing", lambda p: p["position"].pop("character"))
    if "range" in vp:
        mod("range:missing", lambda p: p.pop("range"))
        mod("range:string", lambda p: p.__setitem__("range", "all"))
        mod("range.start.line:negative", lambda p: p["range"]["start"].__setitem__("line", -1))
        mod("range.end:missing", lambda p: p["range"].pop("end"))
        mod("context:missing", lambda p: p.pop("context"))
        mod("context:null", lambda p: p.__setitem__("context", None))
    if method == "rename":
        mod("newName:missing", lambda p: p.pop("newName"))
        mod("newName:number", lambda p: p.__setitem__("newName", 7))
    if method == "references":
        mod("context:missing", lambda p: p.pop("context"))
        mod("includeDeclaration:string", lambda p: p["context"].__setitem__("includeDeclaration", "yes"))
    if method == "formatting":
        mod("options:missing", lambda p: p.pop("options"))
        mod("options:string", lambda p: p.__setitem__("options", "tabs"))
        mod("tabSize:negative", lambda p: p["options"].__setitem__("tabSize", -2))
    return out


def request_events(state_docs, ondisk_uri, ondisk_text, full=False):
    """Every non-state-changing message explored from a state whose documents are `state_docs` (path -> text)."""
    evs = []
    uri = dict(URI, D=ondisk_uri)

    def req(method, params, **kw):
        m = note("textDocument/" + method if method in ALL_METHODS else method, params)
        m["id"] = 0      # replaced by a unique id when the job is built
        evs.append(Ev(m, m["method"], **kw))

    # 1. well-formed requests
    for k in ("A", "B", "D"):
        text = state_docs.get(PATH[k]) if k in PATH else None
        if k == "D":
            text = ondisk_text
        if text is None:
            plist = [("0:0", "in-range", (0, 0)), ("line>>count", "out-of-range", (1000000, 3))]
        else:
            plist = positions_for(text, full and k != "D")
        for method in POSITION_METHODS:
            for cls, coarse, lc in plist:
                req(method, valid_params(method, uri[k], lc), target=k, poscls=coarse)
        for cls, coarse, lc in plist:
            req("codeAction", valid_params("codeAction", uri[k], lc), target=k, poscls=coarse)
            req("codeAction", valid_params("codeAction", uri[k], (0, 0), lc), target=k, poscls=coarse)
        # start after end (a client bug, or a backwards selection passed on unnormalised)
        rev = (1000000, 3) if text is None else T.end_position(text)
        req("codeAction", valid_params("codeAction", uri[k], rev, (0, 0)), pclass="valid:reversed-range", target=k)
        req("documentSymbol", valid_params("documentSymbol", uri[k]), target=k)
        req("formatting", valid_params("formatting", uri[k]), target=k)
    for k in ("C", "E", "F"):
        for method in ALL_METHODS:
            for lc, coarse in (((0, 0), "in-range"), ((1000000, 3), "out-of-range")):
                if method in ("documentSymbol", "formatting") and lc != (0, 0):
                    continue
                req(method, valid_params(method, uri[k], lc), target=k, poscls=coarse if method not in ("documentSymbol", "formatting") else None)
    # client extras a real editor sends
    p = valid_params("completion", uri["A"], (0, 4))
    p["context"] = {"triggerKind": 2, "triggerCharacter": "."}
    p["workDoneToken"] = "t1"
    req("completion", p, pclass="valid:trigger-character", target="A", poscls="in-range")
    p = valid_params("references", uri["A"], (0, 4))
    p["context"] = {"includeDeclaration": False}
    req("references", p, pclass="valid:no-declaration", target="A", poscls="in-range")
    p = valid_params("rename", uri["A"], (0, 4))
    p["newName"] = ""
    req("rename", p, pclass="valid:empty-new-name", target="A", poscls="in-range")
    p = valid_params("rename", uri["A"], (0, 4))
    p["newName"] = "é 😀\n"
    req("rename", p, pclass="valid:odd-new-name", target="A", poscls="in-range")
    p = valid_params("codeAction", uri["A"], (0, 0), (0, 4))
    p["context"] = {"diagnostics": [], "only": ["quickfix"], "triggerKind": 1}
    req("codeAction", p, pclass="valid:only-quickfix", target="A", poscls="in-range")
    # 2. malformed params
    for method in ALL_METHODS:
        for cls, params in malformed_variants(method, valid_params(method, uri["A"], (0, 4))):
            req(method, params, pclass=cls, target="A")
    for cls, params in [("params:missing", ...), ("params:null", None), ("params:string", "x"), ("params:empty-object", {}), ("capabilities:string", {"capabilities": "all"}),
                        ("valid", {"processId": None, "rootUri": None, "capabilities": {}}), ("valid:rich", {"processId": 1, "rootUri": "file:///verif_scratch", "capabilities": {"general": {"positionEncodings": ["utf-8", "utf-16"]}}, "clientInfo": {"name": "x"}})]:
        req("initialize", params, pclass=cls)
    # notification-shaped requests (no id): no response may be sent
    for method in ALL_METHODS:
        evs.append(Ev(note("textDocument/" + method, valid_params(method, uri["A"], (0, 4))), "textDocument/" + method, pclass="notification-shaped", target="A"))
    evs.append(Ev(note("initialize", {"capabilities": {}}), "initialize", pclass="notification-shaped"))
    evs.append(Ev(note("initialized", {}), "initialized"))
    evs.append(Ev(note("initialized"), "initialized", pclass="params:missing"))
    m = note("initialized")
    m["id"] = 0
    evs.append(Ev(m, "<notification method sent with an id>", pclass="params:missing", kind="request"))
    m = note("initialized", {})
    m["id"] = 0
    evs.append(Ev(m, "<notification method sent with an id>", pclass="valid", kind="request"))
    # 3. malformed document notifications (must not change the store, must not be answered)
    for meth, base in (("didOpen", did_open(uri["A"], "x")["params"]), ("didChange", did_change(uri["A"], "x")["params"]), ("didClose", did_close(uri["A"])["params"])):
        import copy
        vs = [("params:missing", ...), ("params:null", None), ("params:string", "x"), ("params:number", 5), ("params:array", []), ("params:empty-object", {}),
              ("textDocument:string", dict(base, textDocument="x")), ("uri:number", dict(base, textDocument=dict(base["textDocument"], uri=5))),
              ("uri:non-file", dict(base, textDocument=dict(base["textDocument"], uri=URI["E"]))), ("uri:garbage", dict(base, textDocument=dict(base["textDocument"], uri=URI["F"]))),
              ("uri:missing", dict(base, textDocument={k: v for k, v in base["textDocument"].items() if k != "uri"}))]
        if meth == "didOpen":
            vs += [("text:missing", dict(base, textDocument={k: v for k, v in base["textDocument"].items() if k != "text"})),
                   ("text:number", dict(base, textDocument=dict(base["textDocument"], text=5))), ("text:null", dict(base, textDocument=dict(base["textDocument"], text=None)))]
        if meth == "didChange":
            vs += [("contentChanges:missing", {k: v for k, v in base.items() if k != "contentChanges"}), ("contentChanges:empty", dict(base, contentChanges=[])),
                   ("contentChanges:string", dict(base, contentChanges="x")), ("contentChanges:[{}]", dict(base, contentChanges=[{}])), ("contentChanges:text-number", dict(base, contentChanges=[{"text": 5}])),
                   ("contentChanges:[null]", dict(base, contentChanges=[None]))]
        for cls, params in vs:
            evs.append(Ev(note("textDocument/" + meth, params), "textDocument/" + meth, pclass=cls, target="A"))
        # the same with an id.  JSON-RPC 2.0: "a Notification is a Request object without an id member",
        # so this is a request and the client waits for its response.  (params missing: the store stays as it is)
        m = note("textDocument/" + meth, ...)
        m["id"] = 0
        evs.append(Ev(m, "<notification method sent with an id>", pclass="params:missing", kind="request"))

    # 4. protocol-level messages
    m = note("workspace/noSuchMethod", {})
    m["id"] = 0
    evs.append(Ev(m, "<unknown method>"))
    m = note("$/noSuchRequest")
    m["id"] = 0
    evs.append(Ev(m, "<unknown method>", pclass="params:missing"))
    evs.append(Ev(note("workspace/noSuchNotification", {}), "<unknown method>", pclass="notification-shaped"))
    evs.append(Ev(note("$/cancelRequest", {"id": 1}), "$/cancelRequest"))
    evs.append(Ev(note("$/setTrace", {"value": "off"}), "$/setTrace"))
    evs.append(Ev({"jsonrpc": "2.0", "id": 99, "result": None}, "<response>", pclass="result"))
    evs.append(Ev({"jsonrpc": "2.0", "id": "r1", "result": {"applied": True}}, "<response>", pclass="result:string-id"))
    evs.append(Ev({"jsonrpc": "2.0", "id": 98, "error": {"code": -32601, "message": "nope"}}, "<response>", pclass="error"))
    evs.append(Ev({"jsonrpc": "2.0", "id": 97}, "<no method, no result>", kind="unjudged"))
    evs.append(Ev({"jsonrpc": "2.0"}, "<no method, no id>", kind="junk"))
    evs.append(Ev({}, "<empty object>", kind="junk"))
    evs.append(Ev("this is not json", "<raw text>", pclass="words", kind="junk"))
    evs.append(Ev('{"jsonrpc": "2.0", "id": 1, "method"', "<raw text>", pclass="truncated-json", kind="junk"))
    evs.append(Ev("Content-Length: 2", "<raw text>", pclass="header-like", kind="junk"))
    for raw, cls in (("[]", "array"), ("5", "number"), ('"str"', "string"), ("null", "null"), ('[{"jsonrpc":"2.0","id":1,"method":"shutdown"}]', "batch-array")):
        evs.append(Ev(raw, "<non-object json>", pclass=cls, kind="junk"))
    hv = valid_params("hover", uri["A"], (0, 4))
    m = {"id": 0, "method": "textDocument/hover", "params": hv}
    evs.append(Ev(m, "textDocument/hover", pclass="jsonrpc:missing", target="A"))
    m = {"jsonrpc": 2, "id": 0, "method": "textDocument/hover", "params": hv}
    evs.append(Ev(m, "textDocument/hover", pclass="jsonrpc:number", target="A"))
    m = {"jsonrpc": "2.0", "id": 0, "method": 5, "params": hv}
    evs.append(Ev(m, "<non-string method>", pclass="method:number"))
    m = {"jsonrpc": "2.0", "id": 0, "method": None, "params": hv}
    evs.append(Ev(m, "<non-string method>", pclass="method:null", kind="unjudged"))
    for idv, cls in ((0, "id:zero"), (-1, "id:negative"), ("", "id:empty-string"), (1.5, "id:float"), (9007199254740993, "id:2^53+1"), ({"a": 1}, "id:object"), ([1], "id:array"), (True, "id:bool")):
        m = {"jsonrpc": "2.0", "id": idv, "method": "textDocument/hover", "params": hv}
        e = Ev(m, "textDocument/hover", pclass=cls, target="A", kind="request")
        evs.append(e)
    m = {"jsonrpc": "2.0", "id": None, "method": "textDocument/hover", "params": hv}
    evs.append(Ev(m, "textDocument/hover", pclass="id:null", target="A", kind="unjudged"))
    return evs


FIXED_ID_CLASSES = {"id:zero", "id:negative", "id:empty-string", "id:float", "id:2^53+1", "id:object", "id:array", "id:bool", "id:null"}


def with_ids(evs, start=1):
    """Copies of the messages with unique ids (alternating integer / string ids)."""
    msgs = []
    for k, e in enumerate(evs):
        m = e.msg
        if isinstance(m, dict) and "id" in m and e.pclass not in FIXED_ID_CLASSES and m["id"] in (0, "sd") and e.kind in ("request", "unjudged"):
            m = dict(m)
            n = start + k
            m["id"] = n if n % 2 else f"s{n}"
        msgs.append(m)
    return msgs


def probes():
    evs = []
    for method in ALL_METHODS:
        m = note("textDocument/" + method, valid_params(method, URI["A"], (0, 4), (0, 7)))
        m["id"] = 0
        evs.append(Ev(m, m["method"], target="A", poscls="in-range"))
    for method in ("hover", "formatting", "documentSymbol"):
        m = note("textDocument/" + method, valid_params(method, URI["B"], (0, 4)))
        m["id"] = 0
        evs.append(Ev(m, m["method"], target="B", poscls="in-range"))
    return evs


# ------------------------------------------------------------------ oracle

def jkey(x):
    return json.dumps(x, sort_keys=True, ensure_ascii=False)


def split_out(out):
    responses = [o for o in out if isinstance(o, dict) and "method" not in o]
    notes_ = [o for o in out if isinstance(o, dict) and "method" in o and "id" not in o]
    server_reqs = [o for o in out if isinstance(o, dict) and "method" in o and "id" in o]
    return responses, notes_, server_reqs


def judge_count(ev, msg, out):
    """Failure kinds about the number of responses."""
    responses, _, server_reqs = split_out(out)
    fails = []
    if server_reqs:
        fails.append("server sends a request of its own")
    if ev.kind == "request":
        mine = [r for r in responses if jkey(r.get("id")) == jkey(msg["id"])]
        if len(mine) == 0:
            fails.append("no response")
        elif len(mine) > 1:
            fails.append("two responses")
        elif ("result" in mine[0]) == ("error" in mine[0]):
            fails.append("response has neither or both of result/error")
        if len(mine) != len(responses):
            fails.append("response with a foreign id")
    elif ev.kind in ("notification", "response"):
        if [r for r in responses if r.get("id") is not None]:
            fails.append("response to a " + ev.kind)
    elif ev.kind == "junk":
        if [r for r in responses if r.get("id") is not None]:
            fails.append("response with an id to a message that has none")
    return fails


def expected_diags(text, front):
    """[(message, severity number, (sl, sc, el, ec))] from the checker's result, ranges through the independent model."""
    exp = []
    items = [(e["message"], 1, e["position"]) for e in front["parse_errors"]]
    if not front["parse_errors"]:
        items = [(d["message"], 1 if d["severity"] == "error" else 2, d["position"]) for d in front.get("diagnostics", [])]
    for msg, sev, pos in items:
        s = T.offset_to_position(text, pos["start_offset"])
        e = T.offset_to_position(text, pos["end_offset"])
        exp.append((msg, sev, (s[0], s[1], e[0], e[1])))
    return exp


def judge_diags(text, published, exp):
    """None if equal, else the name of the first field that differs."""
    got = []
    literal_same = True
    for d in published:
        r = d["range"]
        s = T.normalise_position(text, r["start"]["line"], r["start"]["character"])
        e = T.normalise_position(text, r["end"]["line"], r["end"]["character"])
        if (s, e) != ((r["start"]["line"], r["start"]["character"]), (r["end"]["line"], r["end"]["character"])):
            literal_same = False
        got.append((d["message"], d.get("severity"), (s[0], s[1], e[0], e[1])))
    if sorted(g[0] for g in got) != sorted(x[0] for x in exp):
        return "messages", literal_same
    if sorted(g[:2] for g in got) != sorted(x[:2] for x in exp):
        return "severity", literal_same
    if sorted(got) != sorted(exp):
        return "range", literal_same
    return None, literal_same


def norm_panic(msg):
    head, _, loc = msg.partition(" @ ")
    loc = loc.split(":")[0]
    loc = loc[loc.find("src/"):] if "src/" in loc else loc
    head = re.sub(r"`[^`]*`", "`…`", head, flags=re.S)
    head = re.sub(r"'[^']*'", "'…'", head, flags=re.S)
    head = re.sub(r"\d+", "N", head)
    head = " ".join(head.split())
    return f"{head[:100]} ({loc})"


# ------------------------------------------------------------------ real process

def frame(m):
    body = m.encode("utf-8") if isinstance(m, str) else json.dumps(m, ensure_ascii=False).encode("utf-8")
    return b"Content-Length: %d\r\n\r\n" % len(body) + body


def real_lsp(ctx, messages, timeout=60):
    """Feed `messages` to a real `garden-verif lsp` process.  Unless the last message is `exit`, a
    sentinel request is appended; the server is alive iff the sentinel is answered.
    Returns {"out": [...], "alive": bool, "rc": exit code or None}."""
    ends_with_exit = bool(messages) and isinstance(messages[-1], dict) and messages[-1].get("method") == "exit"
    sentinel = {"jsonrpc": "2.0", "id": "__sentinel__", "method": "verif/sentinel"}
    p = subprocess.Popen([ctx.binary, "lsp"], stdin=subprocess.PIPE, stdout=subprocess.PIPE, stderr=subprocess.DEVNULL, cwd=ctx.scratch)
    out, alive, rc = [], False, None
    framing = None
    try:
        data = b"".join(frame(m) for m in messages) + (b"" if ends_with_exit else frame(sentinel))

        def feed():
            try:
                p.stdin.write(data)
                p.stdin.flush()
            except (BrokenPipeError, OSError, ValueError):
                pass
        import threading
        th = threading.Thread(target=feed, daemon=True)
        th.start()
        fd = p.stdout.fileno()
        buf = b""
        deadline = time.time() + timeout
        done = False
        while not done:
            # parse complete frames
            while True:
                i = buf.find(b"\r\n\r\n")
                if i < 0:
                    break
                m = re.search(rb"Content-Length: *(\d+)", buf[:i], re.I)
                if not m:
                    raise Machinery(f"unframed output from garden lsp: {buf[:80]!r}")
                n = int(m.group(1))
                if len(buf) < i + 4 + n:
                    break
                try:
                    obj = json.loads(buf[i + 4:i + 4 + n].decode("utf-8"))
                except (ValueError, UnicodeDecodeError) as e:
                    # the announced length does not delimit a JSON message: a client cannot read this server's output
                    framing = f"Content-Length {n} does not delimit a JSON value: {e}; body starts {buf[i + 4:i + 4 + min(n, 60)]!r}"
                    done = True
                    break
                buf = buf[i + 4 + n:]
                if isinstance(obj, dict) and obj.get("id") == "__sentinel__":
                    alive = True
                    done = True
                    break
                out.append(obj)
            if done:
                break
            left = deadline - time.time()
            if left <= 0:
                break
            r, _, _ = select.select([fd], [], [], left)
            if not r:
                break
            chunk = os.read(fd, 1 << 16)
            if not chunk:
                break
            buf += chunk
        th.join(timeout=5)
        try:
            p.stdin.close()          # EOF: the server leaves its loop and cleans up
        except (OSError, ValueError):
            pass
        try:
            rc = p.wait(timeout=10)
        except subprocess.TimeoutExpired:
            rc = None
    finally:
        if p.poll() is None:
            p.kill()
            p.wait()
    return {"out": out, "alive": alive, "rc": rc, "framing": framing}


def framing_probe(ctx):
    """The real process over stdio with non-ASCII text in both directions: every response must arrive in a frame whose
    Content-Length is the byte length of its body (the in-process adapter never frames, so this is checked on the real server only)."""
    text = 'let s = "héllo wörld ✓ 😀"\nlet  t=1 // é\n'
    uri = "file:///verif_scratch/framing.gdn"
    msgs = [{"jsonrpc": "2.0", "id": 1, "method": "initialize", "params": {"capabilities": {}}},
            {"jsonrpc": "2.0", "method": "textDocument/didOpen", "params": {"textDocument": {"uri": uri, "languageId": "garden", "version": 1, "text": text}}},
            {"jsonrpc": "2.0", "id": 2, "method": "textDocument/formatting", "params": {"textDocument": {"uri": uri}, "options": {"tabSize": 2, "insertSpaces": True}}},
            {"jsonrpc": "2.0", "id": 3, "method": "textDocument/hover", "params": {"textDocument": {"uri": uri}, "position": {"line": 0, "character": 4}}},
            {"jsonrpc": "2.0", "id": 4, "method": "textDocument/documentSymbol", "params": {"textDocument": {"uri": uri}}}]
    real = real_lsp(ctx, msgs)
    ids = [o.get("id") for o in real["out"] if isinstance(o, dict) and "method" not in o]
    if real["framing"] or not real["alive"] or ids != [1, 2, 3, 4]:
        ctx.violation("real `garden lsp` process, non-ASCII document: responses are badly framed or missing",
                      {"messages": msgs, "framing_error": real["framing"], "alive": real["alive"], "response_ids": ids, "exit": real["rc"]},
                      cli_cmd="garden lsp  (Content-Length framed messages on stdin)")
    ctx.outcome("framing probe on the real process: " + ("ok" if not ctx.violations.get("real `garden lsp` process, non-ASCII document: responses are badly framed or missing") else "bad"))


def parse_reftest_output(out):
    dec = json.JSONDecoder()
    i, objs = 0, []
    while True:
        while i < len(out) and out[i].isspace():
            i += 1
        if i >= len(out):
            return objs
        o, i = dec.raw_decode(out, i)
        # reftest-lsp reports lines that are not JSON with an object of its own
        if not (isinstance(o, dict) and set(o) == {"error", "line"} and isinstance(o["error"], str)):
            objs.append(o)


def reftest_lsp(ctx, messages):
    """Replay through `garden-verif reftest-lsp`; returns (rc, objects printed, stderr tail)."""
    lines = []
    for m in messages:
        s = m if isinstance(m, str) else json.dumps(m, ensure_ascii=False)
        if "\n" in s or s.strip() == "" or s.strip().startswith("//"):
            raise Machinery("message not representable as a reftest line")
        lines.append(s)
    path = ctx.tmpfile("confirm.jsonl", "\n".join(lines) + "\n")
    rc, out, err = ctx.cli(["reftest-lsp", path], timeout=120)
    objs = []
    if rc == 0:
        try:
            objs = parse_reftest_output(out)
        except ValueError:
            raise Machinery(f"cannot parse reftest-lsp output: {out[:200]!r}")
    return rc, objs, err[-400:]


# ------------------------------------------------------------------ the search

def state_of(result, shutdown_seen):
    return (tuple((p, t) for p, t in result["documents"]), shutdown_seen)


def doc_class(ev, state_docs, ondisk):
    t = ev.target
    if t is None:
        return "-"
    if t in ("A", "B"):
        text = state_docs.get(PATH[t])
        return "unopened" if text is None else "open:" + DOC_NAME.get(text, "?")
    return {"C": "unopened", "D": "on-disk", "E": "non-file-uri", "F": "garbage-uri"}[t]


def run(ctx):
    maxdepth = 3 if ctx.quick else 4
    ctx.bound("history_depth_state_changing", maxdepth)
    ctx.bound("documents", len(DOCS))
    ctx.bound("uris_with_content", 2)
    t_start = time.time()
    ondisk_text = DOCS[0][1]
    ondisk_path = ctx.tmpfile("ondisk.gdn", ondisk_text)
    ondisk_uri = "file://" + ondisk_path

    # the checker on every (path, text): what `garden check` reports
    keys = [(k, text) for k in ("A", "B") for _, text in DOCS]
    fr = ctx.pool.map([{"op": "front", "src": text, "path": PATH[k], "want": ["check"]} for k, text in keys], batch=2, timeout=60)
    front = {}
    for key, r in zip(keys, fr):
        if "parse_errors" not in r:
            raise Machinery(f"front job failed: {str(r)[:200]}")
        front[key] = r
    classes = {n: ("parse" if front[("A", t)]["parse_errors"] else ("diag" if front[("A", t)].get("diagnostics") else "clean")) for n, t in DOCS}
    if classes["valid"] != "clean" or classes["type-error"] != "diag" or classes["parse-error"] != "parse" or classes["non-ascii"] != "parse" or classes["empty"] != "clean":
        raise Machinery(f"document set does not have the intended classes: {classes}")
    if not any(d["severity"] == "warning" for d in front[("A", DOCS[1][1])]["diagnostics"]) or not any(d["severity"] == "error" for d in front[("A", DOCS[1][1])]["diagnostics"]):
        raise Machinery("type-error document must give a warning and an error")

    CH = changing_events()
    PR = probes()
    viol_first = {}      # signature -> (history messages, message, kind) for confirmation
    stats = {"transitions": 0, "messages": 0, "diags_compared": 0, "diags_nonempty": 0, "diags_multibyte": 0, "results_ok": 0, "results_nonnull": 0, "errors": 0}
    method_result = {}

    raw = {}             # (method, params class, position class, failure) -> {"docs": set, "n": count, "detail": first}
    panicking = set()

    def flag(ev, msg, state_docs, hist_msgs, failure, extra=None, doc=None):
        key = (ev.method, ev.pclass, ev.poscls, failure)
        detail = {"history": hist_msgs, "message": msg, "failure": failure}
        if extra:
            detail.update(extra)
        g = raw.setdefault(key, {"docs": set(), "n": 0, "detail": detail})
        g["docs"].add(doc or doc_class(ev, state_docs, None))
        g["n"] += 1
        if failure.startswith("panic"):
            panicking.add((ev.method, ev.pclass, ev.poscls))

    def emit():
        """One signature per (method, params class, position class, failure); the document classes it was seen on are
        summarised, so that one defect that does not depend on the document gives one signature."""
        with_text = {"open:valid", "open:type-error", "open:parse-error", "open:non-ascii"}
        for (method, pclass, poscls, failure), g in sorted(raw.items(), key=lambda kv: jkey([str(x) for x in kv[0]])):
            docs = g["docs"]
            if with_text <= docs:
                dc = "any document with text"
            else:
                dc = "+".join(sorted(docs))
            sig = f"{method} [{pclass}{'' if poscls is None else ' @' + poscls}] doc={dc}: {failure}"
            g["detail"]["document_classes"] = sorted(docs)
            viol_first[sig] = g["detail"]
            ctx.violation(sig, g["detail"], cli_cmd="garden-verif reftest-lsp <history.jsonl>  /  garden-verif lsp (framed)")
            ctx.violations[sig]["count"] = g["n"]

    def check_message(ev, msg, res, state_docs, hist_msgs):
        """Oracle for one executed message (res = {"out":..,"action":..})."""
        stats["messages"] += 1
        out = res["out"]
        for f in judge_count(ev, msg, out):
            flag(ev, msg, state_docs, hist_msgs, f, {"out": out})
        responses, notes_, _ = split_out(out)
        if ev.kind == "request" and len(responses) == 1:
            r = responses[0]
            if "result" in r:
                stats["results_ok"] += 1
                if r["result"] not in (None, [], {}):
                    stats["results_nonnull"] += 1
                    method_result[ev.method] = method_result.get(ev.method, 0) + 1
            else:
                stats["errors"] += 1
                ctx.outcome(f"error-response:{r['error'].get('code')}")
        if ev.kind == "unjudged":
            ctx.outcome(f"unjudged:{ev.method} [{ev.pclass}] -> {len(responses)} response(s)")
        for n in notes_:
            if n["method"] != "textDocument/publishDiagnostics":
                ctx.outcome("server notification:" + n["method"])
        pubs = [n for n in notes_ if n["method"] == "textDocument/publishDiagnostics"]
        if pubs and ev.method not in ("textDocument/didOpen", "textDocument/didChange", "textDocument/didClose"):
            ctx.outcome("diagnostics published after " + ev.method)
        if ev.diag_for is not None:
            k, text = ev.diag_for
            mine = [n for n in pubs if n["params"].get("uri") == URI[k]]
            if len(mine) != 1:
                ctx.outcome(f"diagnostics: {len(mine)} notifications after {ev.method}")
            for n in mine:
                exp = expected_diags(text, front[(k, text)])
                what, literal = judge_diags(text, n["params"]["diagnostics"], exp)
                stats["diags_compared"] += 1
                if n["params"]["diagnostics"]:
                    stats["diags_nonempty"] += 1
                    if any(ord(c) > 0x7F for c in text):
                        stats["diags_multibyte"] += 1
                if not literal:
                    ctx.outcome("diagnostics: range equal only after the specification's clamping")
                if what:
                    flag(ev, msg, state_docs, hist_msgs, f"diagnostics differ from `garden check`: {what}",
                         {"published": n["params"]["diagnostics"], "expected": [list(x[:2]) + [list(x[2])] for x in exp], "text": text},
                         doc="text:" + DOC_NAME.get(text, "?"))
        elif isinstance(ev.msg, dict) and ev.msg.get("method") == "textDocument/didClose" and ev.pclass == "valid":
            if any(n["params"]["diagnostics"] for n in pubs):
                ctx.outcome("didClose publishes non-empty diagnostics")

    # ---- BFS over state-changing events
    init = ((), False)
    rep = {init: []}                 # state -> representative history (list of Ev)
    depth_of = {init: 0}
    probe_out = {}                   # state -> probe outputs (first arrival)
    level = [init]
    n_trans = 0
    for depth in range(1, maxdepth + 1):
        jobs, meta = [], []
        for st in level:
            hist = rep[st]
            for ev in CH:
                evs = hist + [ev]
                msgs = with_ids(evs) + with_ids(PR, start=1000)
                jobs.append({"op": "lsp", "messages": msgs})
                meta.append((st, ev, msgs))
        res = ctx.pool.map(jobs, batch=4, timeout=120)
        nxt = []
        for (st, ev, msgs), r in zip(meta, res):
            n_trans += 1
            hist = rep[st]
            hlen = len(hist)
            hist_msgs = msgs[:hlen]
            if "results" not in r:
                raise Machinery(f"lsp job failed: {str(r)[:200]}")
            rs = r["results"]
            if any("panic" in x for x in rs[:hlen]):
                raise Machinery("panic inside a representative history (should have been reported at the transition)")
            if len(rs) <= hlen or "panic" in rs[hlen]:
                pan = rs[-1].get("panic", "?")
                flag(ev, msgs[hlen], dict(st[0]), hist_msgs, "panic: " + norm_panic(pan), {"panic": pan})
                continue
            check_message(ev, msgs[hlen], rs[hlen], dict(st[0]), hist_msgs)
            # probes (all non-state-changing)
            pouts = []
            broken = False
            for k, pe in enumerate(PR):
                idx = hlen + 1 + k
                if idx >= len(rs) or "panic" in rs[idx]:
                    broken = True      # reported by the full request sweep of the target state
                    break
                pouts.append(jkey([{kk: vv for kk, vv in o.items() if kk != "id"} for o in rs[idx]["out"]]))
            sd = st[1] or rs[hlen]["action"] == "shutdown"
            new = state_of(r, sd)
            if rs[hlen]["action"] == "exit":
                raise Machinery("a state-changing event made the server exit")
            if new not in rep:
                rep[new] = hist + [ev]
                depth_of[new] = depth
                nxt.append(new)
                if not broken:
                    probe_out[new] = pouts
            elif not broken and new in probe_out:
                if probe_out[new] != pouts:
                    k = next(i for i, (a, b) in enumerate(zip(probe_out[new], pouts)) if a != b)
                    flag(PR[k], msgs[hlen + 1 + k], dict(new[0]), msgs[:hlen + 1], "the same state reached by two histories answers differently",
                         {"first": probe_out[new][k][:600], "second": pouts[k][:600], "other_history": with_ids(rep[new])})
                else:
                    ctx.outcome("merged state answers the probe set identically")
        print(f"  [c28] depth {depth}: {len(jobs)} transitions, {len(nxt)} new states, {time.time()-t_start:.1f}s", flush=True)
        level = nxt
        if not level:
            ctx.outcome(f"state space closed: no new state at depth {depth}")
            break
    states = list(rep)
    ctx.bound("reachable_states", len(states))
    if not ctx.quick:
        n_trans += all_histories(ctx, CH, PR, rep, probe_out, check_message, flag, 3)
        print(f"  [c28] all histories of length 3: {time.time()-t_start:.1f}s", flush=True)
    stats["transitions"] = n_trans

    # ---- every non-state-changing message from every reachable state
    CHUNK = 48
    jobs, meta = [], []
    n_alpha = 0
    for st in states:
        hist = rep[st]
        sdocs = dict(st[0])
        evs = request_events(sdocs, ondisk_uri, ondisk_text, full=not ctx.quick)
        n_alpha = max(n_alpha, len(evs))
        hmsgs = with_ids(hist)
        for i in range(0, len(evs), CHUNK):
            ch = evs[i:i + CHUNK]
            cm = with_ids(ch, start=100 + i)
            jobs.append({"op": "lsp", "messages": hmsgs + cm})
            meta.append((st, hmsgs, ch, cm))
        # exit as the last message
        ex = Ev(note("exit"), "exit")
        jobs.append({"op": "lsp", "messages": hmsgs + [ex.msg]})
        meta.append((st, hmsgs, [ex], [ex.msg]))
    ctx.bound("non_state_changing_alphabet", n_alpha)
    res = ctx.pool.map(jobs, batch=2, timeout=180)
    for (st, hmsgs, ch, cm), r in zip(meta, res):
        sdocs = dict(st[0])
        hlen = len(hmsgs)
        pending = list(zip(ch, cm))
        cur = r
        while pending:
            if "results" not in cur:
                raise Machinery(f"lsp job failed: {str(cur)[:200]}")
            rs = cur["results"][hlen:]
            consumed = 0
            panicked = False
            for (ev, msg), x in zip(pending, rs):
                consumed += 1
                if "panic" in x:
                    flag(ev, msg, sdocs, hmsgs, "panic: " + norm_panic(x["panic"]), {"panic": x["panic"]})
                    panicked = True
                    break
                check_message(ev, msg, x, sdocs, hmsgs)
                if ev.method == "exit":
                    if x["action"] != "exit" or not cur["exited"]:
                        flag(ev, msg, sdocs, hmsgs, "exit does not stop the server")
                elif x["action"] not in ("continue", "unparsed"):
                    raise Machinery(f"non-state-changing message {ev.label} gave action {x['action']}")
            if not panicked:
                if consumed != len(pending):
                    raise Machinery("lsp job returned fewer results than messages without a panic")
                if state_of(cur, st[1])[0] != st[0]:
                    raise Machinery(f"a message classified as non-state-changing changed the document store (state {st[0]!r:.80})")
                break
            pending = pending[consumed:]
            if pending:
                cur = ctx.pool.one({"op": "lsp", "messages": hmsgs + [m for _, m in pending]})
    print(f"  [c28] request sweep: {len(jobs)} jobs, {stats['messages']} messages, {time.time()-t_start:.1f}s", flush=True)

    # ---- vacuity
    if len(states) < (47 if ctx.quick else 72):
        raise Machinery(f"only {len(states)} states reached")
    if stats["diags_compared"] == 0 or stats["diags_nonempty"] == 0 or stats["diags_multibyte"] == 0:
        raise Machinery(f"vacuous diagnostics comparison: {stats}")
    missing = [m for m in ALL_METHODS if not method_result.get("textDocument/" + m)]
    if missing:
        raise Machinery(f"vacuous: no non-empty result ever returned for {missing}")
    if stats["errors"] == 0:
        raise Machinery("vacuous: no error response seen")
    for k, v in stats.items():
        ctx.outcome("count:" + k, v)
    for k, v in sorted(method_result.items()):
        ctx.outcome("non-empty results:" + k, v)

    # ---- adapter validation + liveness on the real process (a few histories), then confirmations
    emit()
    real_samples(ctx, rep, states, ondisk_uri, ondisk_text, front, panicking)
    confirm(ctx, viol_first)
    print(f"  [c28] done {time.time()-t_start:.1f}s", flush=True)

    ctx.add(states=len(states), transitions=n_trans + stats["messages"], nontrivial=stats["results_nonnull"] + stats["diags_nonempty"])
    ctx.sample({"state": [[p, DOC_NAME.get(t, "?")] for p, t in states[len(states) // 2][0]], "shutdown_seen": states[len(states) // 2][1],
                "history": [e.label for e in rep[states[len(states) // 2]]]})
    ctx.sample({"state": [[p, DOC_NAME.get(t, "?")] for p, t in states[-1][0]], "shutdown_seen": states[-1][1], "history": [e.label for e in rep[states[-1]]]})
    return (f"breadth-first search over histories of state-changing client messages (didOpen/didChange/didClose x 2 URIs x 5 documents, shutdown) up to length {maxdepth}, states "
            f"(document store, shutdown seen) deduplicated; from each of the {len(states)} reachable states every one of the {n_alpha} non-state-changing messages (requests x targets x positions, "
            "malformed params, protocol junk, exit) is executed on the real handle_message. Transitions = executed messages. Non-trivial = requests answered with a non-empty result plus "
            "non-empty diagnostics publications compared with the checker.")


def all_histories(ctx, CH, PR, rep, probe_out, check_message, flag, length):
    """Thorough tier: every history of exactly `length` state-changing events, WITHOUT deduplication.  Every step is
    judged (response count, diagnostics), the final store must be the one a trivial model predicts, and the probe set
    must be answered as from the representative history of the same state."""
    import itertools
    jobs, meta = [], []
    for combo in itertools.product(range(len(CH)), repeat=length):
        evs = [CH[i] for i in combo]
        msgs = with_ids(evs) + with_ids(PR, start=1000)
        jobs.append({"op": "lsp", "messages": msgs})
        meta.append((evs, msgs))
    res = ctx.pool.map(jobs, batch=8, timeout=240)
    n = 0
    for (evs, msgs), r in zip(meta, res):
        if "results" not in r:
            raise Machinery(f"lsp job failed: {str(r)[:200]}")
        rs = r["results"]
        docs, sd = {}, False
        ok = True
        for k, ev in enumerate(evs):
            if k >= len(rs) or "panic" in rs[k]:
                flag(ev, msgs[k], dict(docs), msgs[:k], "panic: " + norm_panic(rs[-1].get("panic", "?")), {"panic": rs[-1].get("panic")})
                ok = False
                break
            n += 1
            check_message(ev, msgs[k], rs[k], dict(docs), msgs[:k])
            if ev.diag_for:
                docs[PATH[ev.diag_for[0]]] = ev.diag_for[1]
            elif isinstance(ev.msg, dict) and ev.msg.get("method") == "textDocument/didClose" and ev.pclass == "valid":
                docs.pop(PATH[ev.target], None)
            elif ev.method == "shutdown":
                sd = True
        if not ok:
            continue
        st = (tuple(sorted(docs.items())), sd)
        if state_of(r, sd) != st:
            raise Machinery(f"document store after {[e.label for e in evs]} is not what the trivial store model predicts")
        if st not in rep:
            raise Machinery("a history of length 3 reaches a state the deduplicated search did not")
        pouts = []
        for k in range(len(PR)):
            idx = len(evs) + k
            if idx >= len(rs) or "panic" in rs[idx]:
                pouts = None
                break
            pouts.append(jkey([{kk: vv for kk, vv in o.items() if kk != "id"} for o in rs[idx]["out"]]))
        if pouts is not None and st in probe_out:
            if pouts != probe_out[st]:
                k = next(i for i, (a, b) in enumerate(zip(probe_out[st], pouts)) if a != b)
                flag(PR[k], msgs[len(evs) + k], dict(docs), msgs[:len(evs)], "the same state reached by two histories answers differently",
                     {"first": probe_out[st][k][:600], "second": pouts[k][:600], "other_history": with_ids(rep[st])})
            else:
                ctx.outcome("history without deduplication answers the probe set like the representative")
    ctx.bound("histories_without_deduplication", len(jobs))
    return n


def ids_of_requests(messages):
    return [jkey(m["id"]) for m in messages if isinstance(m, dict) and "method" in m and m.get("id") is not None]


def shape(out):
    """Order-insensitive shape of a server output list: ids answered (+ result/error), notifications with their diagnostics."""
    s = []
    for o in out:
        if "method" in o:
            s.append(("note", o["method"], jkey(o.get("params"))))
        else:
            s.append(("resp", jkey(o.get("id")), "result" if "result" in o else "error"))
    return sorted(s)


def real_samples(ctx, rep, states, ondisk_uri, ondisk_text, front, panicking=()):
    """Run a few complete histories through the real server process and compare with the in-process
    adapter; check liveness (sentinel answered) and the exit status after exit."""
    picks = [states[0], states[len(states) // 3], states[2 * len(states) // 3], states[-1]]
    n = 0
    framing_probe(ctx)
    for st in picks:
        sdocs = dict(st[0])
        evs = request_events(sdocs, ondisk_uri, ondisk_text)
        sample = [e for e in evs if (e.method, e.pclass, e.poscls) not in panicking][::7]
        msgs = with_ids(rep[st]) + with_ids(sample, start=100)
        inproc = ctx.pool.one({"op": "lsp", "messages": msgs}, )
        if "results" not in inproc or any("panic" in x for x in inproc["results"]):
            ctx.outcome("real-process sample skipped (in-process panic in the sample)")
            continue
        real = real_lsp(ctx, msgs)
        n += 1
        if real["framing"]:
            ctx.violation("real `garden lsp` process: a response is badly framed (Content-Length does not match the body)", {"history": msgs[:6], "framing_error": real["framing"]})
            continue
        after_shutdown = any(isinstance(m, dict) and m.get("method") == "shutdown" for m in msgs)
        where = "after `shutdown`" if after_shutdown else "in a session without `shutdown`"
        if not real["alive"]:
            # the real process is the product: its message handler answers this history (in-process), the process does not
            ctx.violation(f"real `garden lsp` process stops answering {where} although its message handler answers every request",
                          {"history": msgs[:8], "exit": real["rc"], "responses_received": len(real["out"])}, cli_cmd="garden lsp  (Content-Length framed messages on stdin)")
            continue
        flat = [o for x in inproc["results"] for o in x["out"]]
        a, b = shape(flat), shape(real["out"])
        # definition answers inside built-in files differ by design (temp copies): shapes ignore results
        if a != b:
            ctx.violation(f"real `garden lsp` process sends other messages than its message handler produces {where}",
                          {"history": msgs[:8], "only_from_handler": [x for x in a if x not in b][:5], "only_from_process": [x for x in b if x not in a][:5]},
                          cli_cmd="garden lsp  (Content-Length framed messages on stdin)")
            continue
        if real["rc"] != 0:
            raise Machinery(f"real server exits with {real['rc']} at end of input")
        # exit status
        for with_sd in (False, True):
            tail = ([{"jsonrpc": "2.0", "id": "sdx", "method": "shutdown"}] if with_sd else []) + [{"jsonrpc": "2.0", "method": "exit"}]
            rr = real_lsp(ctx, with_ids(rep[st]) + tail, timeout=30)
            want = 0 if (with_sd or st[1]) else 1
            if rr["rc"] != want:
                ctx.violation(f"exit [valid] doc=-: process exit status {rr['rc']} instead of {want} ({'after' if want == 0 else 'without'} shutdown)",
                              {"history": with_ids(rep[st]) + tail, "rc": rr["rc"]}, cli_cmd="garden-verif lsp (framed)")
            n += 1
    ctx.outcome("real-process runs", n)
    ctx.cov["cli_confirmed"] += 0
    # `garden check --json` on the document set == the in-process checker job
    for name, text in DOCS:
        path = ctx.tmpfile(f"check_{name}.gdn", text)
        rc, out, err = ctx.cli(["check", "--json", "--override-path", PATH["A"], path], timeout=60)
        cli_msgs = []
        for line in out.splitlines():
            line = line.strip()
            if line.startswith("{"):
                d = json.loads(line)
                cli_msgs.append((d["message"], d["severity"], d["line_number"] - 1, d["column"]))
        f = front[("A", text)]
        items = [(e["message"], "error", e["position"]) for e in f["parse_errors"]] or [(d["message"], d["severity"], d["position"]) for d in f.get("diagnostics", [])]
        mine = [(m, s, p["line_number"], p["column"]) for m, s, p in items]
        if sorted(cli_msgs) != sorted(mine):
            raise Machinery(f"adapter drift: `garden check --json` on document {name} differs from the in-process checker: {sorted(cli_msgs)[:2]} vs {sorted(mine)[:2]}")
    ctx.outcome("garden check --json agrees with the in-process checker on every document", len(DOCS))


def confirm(ctx, viol_first):
    for sig, d in list(viol_first.items())[:25]:
        v = ctx.violations.get(sig)
        if v is None:
            continue
        det = v["detail"]
        msgs = list(d["history"]) + [d["message"]]
        failure = d["failure"]
        # 1. reftest-lsp
        try:
            rc, objs, err = reftest_lsp(ctx, msgs)
        except Machinery:
            rc, objs, err = None, [], ""
        det["reftest_lsp_exit"] = rc
        if rc is not None and rc != 0:
            det["reftest_lsp_stderr"] = err
        # 2. real process
        real = real_lsp(ctx, msgs)
        det["real_process"] = {"alive_after_history": real["alive"], "exit_code": real["rc"], "n_out": len(real["out"])}
        last = d["message"]
        confirmed = False
        if failure.startswith("panic"):
            if not real["alive"] and rc == 101:
                confirmed = True
            elif real["alive"]:
                raise Machinery(f"adapter drift: in-process panic but the real server survives: {sig}")
        elif failure in ("no response", "two responses"):
            n = sum(1 for o in real["out"] if "method" not in o and jkey(o.get("id")) == jkey(last["id"]))
            want_bad = (n == 0) if failure == "no response" else (n >= 2)
            if not want_bad:
                raise Machinery(f"adapter drift: real server gives {n} responses where in-process says '{failure}': {sig}")
            confirmed = True
        elif failure.startswith("response"):
            known = set(ids_of_requests(d["history"]))
            extra = [o for o in real["out"] if "method" not in o and o.get("id") is not None and jkey(o.get("id")) not in known]
            if isinstance(last, dict) and last.get("id") is not None and failure == "response with a foreign id":
                extra = [o for o in extra if jkey(o.get("id")) != jkey(last["id"])]
            if not extra:
                raise Machinery(f"adapter drift: real server sends no stray response: {sig}")
            confirmed = True
        elif failure.startswith("diagnostics differ"):
            pubs = [o for o in real["out"] if o.get("method") == "textDocument/publishDiagnostics"]
            if not pubs or pubs[-1]["params"]["diagnostics"] != d["published"]:
                raise Machinery(f"adapter drift: real server publishes other diagnostics than in-process: {sig}")
            confirmed = True
        elif failure.startswith("the same state"):
            confirmed = False
        if confirmed:
            det["cli_confirmed"] = True
            ctx.cov["cli_confirmed"] += 1
