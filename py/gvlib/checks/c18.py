"""C18 formatting is idempotent."""
REG = dict(
    engine='E1-enum',
    technique='bounded-exhaustive enumeration of syntax trees x layouts and of single-token edits (inputs with parse errors), fixed-point oracle on the real formatter; `garden format --check` through the real CLI',
    text='Inputs: (1) the C17 layout space with the reduced depth-2 set in both tiers (every program of the depth-1 / depth-2 / representative / definition-level sets under every layout with <=1 (some groups <=2 in thorough) gaps deviating from canonical over the 8-separator alphabet plus the code-like comments next to spacing tokens, all string-literal content variants, the non-ASCII variants), here INCLUDING the layouts the parser rejects or maps to another tree; (2) every single-piece deletion, insertion-before and replacement over an 18-lexeme edit alphabet (identifiers, literals, unclosed string, brackets, `=`, `=>`, keywords, a line comment, a non-ASCII character) applied to the canonical text of 117 representative trees and items (quick) / of every C33 depth-1 tree and every definition-level program (thorough): mostly inputs with parse errors. Oracle: format(format(s)) == format(s) for every input, in process; `garden format --check <file>` through the real CLI (16 processes in parallel) exits 0 on every distinct output of the representative, definition and edit families up to a cap (400 quick / 6000 thorough) and exits 1 on outputs the in-process check found unstable (a disagreement between the two is reported as adapter drift). Exhaustive within these bounds.',
    note='The in-process adapter calls the same `format::format` as the CLI; the CLI additionally strips a reftest footer (`// args: ` lines) which the explored alphabet cannot produce. Inputs outside the layout / edit bounds are not covered.',
    design_ref='DESIGN.md §6 C17 / C18',
)

import concurrent.futures
import os
import re
from .. import gast, gen, layout
from ..core import Machinery
from . import c17

EDIT_ALPHA = ["x", "1", '"s', "(", ")", "{", "}", ",", ".", "=", "let", "fun", "=>", "+", "match", "// c\n", ":", "é"]
EDIT_NAME = {"// c\n": "comment", '"s': "unclosed-string", "é": "non-ascii"}


def edits(base):
    """Every single-piece delete / insert-before / replace of the canonical text (as c01 part_c), with a name for the edit."""
    P, G = base.pieces, base.gaps
    for i in range(len(P)):
        def text(mid):
            out = [G[0]]
            for j, (p, g) in enumerate(zip(P, G[1:])):
                out.append(mid if j == i else p)
                out.append(g)
            return "".join(out)
        yield f"delete", i, text("")
        for e in EDIT_ALPHA:
            yield f"insert {EDIT_NAME.get(e, e)}", i, text(e + " " + P[i])
            yield f"replace by {EDIT_NAME.get(e, e)}", i, text(e)


def edit_bases(ctx):
    def mk(progs):
        return layout.prepare(ctx, [(repr(p)[:200], layout.kind_of(p), gast.program_src(p)) for p in progs])
    if ctx.quick:
        trees = layout.rep_trees() + layout.string_position_trees()
        items = [[it] for it in gen.toplevel_items([[layout.X]])]
        # one item per (kind, which optional parts are present) pattern: stride through the cross product
        items = items[::9] + [[it] for it in gen.toplevel_items([[]]) if it[0] in ("Import", "Block")]
        items += [p for p in layout.definition_items(True) if len(p) == 1 and p[0][0] in ("Fun", "Method") and p[0][1 if p[0][0] == "Fun" else 5].startswith("f") and len(gast.item_src(p[0])) > 90][:12]
    else:
        trees = gen.depth1() + layout.rep_trees() + layout.string_position_trees()
        items = layout.definition_items(False)
    return mk([layout.program_of(t) for t in trees]) + mk(items)


def classify_second_pass(F, F2):
    """How the second formatting pass differs from the first (signature component)."""
    a, b = F.split("\n"), F2.split("\n")
    if [l.strip() for l in a] == [l.strip() for l in b]:
        return "second pass changes indentation"
    if [l for l in a if l.strip()] == [l for l in b if l.strip()]:
        return "second pass adds or removes blank lines"
    if [l.strip() for l in a if l.strip()] == [l.strip() for l in b if l.strip()]:
        return "second pass changes indentation and blank lines"
    if F.translate(c17.ERASE) == F2.translate(c17.ERASE):
        if F.replace(",", "") .split() == F2.replace(",", "").split():
            return "second pass changes spacing or commas within lines"
        return "second pass moves line breaks"
    return "second pass changes more than whitespace and commas"


def run(ctx):
    import time
    t0 = time.time()
    cache = c17.FormatCache(ctx, ["format"])
    n_inputs = n_jobs = n_changed = n_err_inputs = n_fixed_inputs = n_nonascii_changed = 0
    unstable = {}            # F -> (sig, detail)
    cli_pool = {}            # F -> description (bounded, deterministic order)
    cli_cap = 400 if ctx.quick else 6000
    status = {}

    def settle(pending):
        # format(s) == s already says format(format(s)) == format(s) (the formatter is a function of the text; the CLI part
        # re-runs it on a subset of exactly such outputs): only outputs that differ from their input need a second pass
        nonlocal n_fixed_inputs
        n_fixed_inputs += sum(1 for s, F, _, _ in pending if F == s)
        pending = [p for p in pending if p[1] != p[0]]
        cache.fill([F for _, F, _, _ in pending])
        for s, F, desc, errs in pending:
            F2 = cache.d[F].get("formatted")
            if F2 is None:
                ctx.violation(f"formatter fails on its own output ({'input with parse errors' if errs else 'parseable input'})", {"input": s, "formatted": F, "result": cache.d[F].get("failed")},
                              "garden format <file>")
                continue
            if F2 != F:
                # inputs that do not parse: the signature names the kind of program and the edit that broke it, so that a
                # recorded finding for one broken construct does not cover another
                where = f"input with parse errors: {desc['kind']} {desc['change']}" if errs and desc.get("group") == "edits" else ("input with parse errors" if errs else "parseable input")
                sig = f"not idempotent: {classify_second_pass(F, F2)} ({where})"
                detail = dict(desc, input=s, formatted=F, formatted_twice=F2)
                ctx.violation(sig, detail, "garden format <file with `formatted`> | diff - <file>;  garden format --check <file with `formatted`>")
                v = ctx.violations[sig]
                tab = v["detail"].setdefault("inputs_by_kind_and_change", {})
                key = f"{desc['kind']} {desc['change']}"
                if key in tab or len(tab) < 400:
                    tab[key] = tab.get(key, 0) + 1
                unstable.setdefault(F, sig)

    # ---- (1) the layout space of C17, every status
    for gname, bases, k in c17.base_groups(ctx, full_depth2=False):
        ctx.bound(f"{gname}: programs", len(bases))
        ctx.bound(f"{gname}: max deviating gaps", k)
        pending = []
        for b, d, t, r, st in layout.explore(ctx, bases, k, ["format"], classify=False, token_comments=c17.token_comments_for(gname, ctx.quick)):
            n_inputs += 1
            n_jobs += 1
            status[st] = status.get(st, 0) + 1
            if st == "failed":
                ctx.violation(f"formatter/parser job failed: {gname}", {"src": t, "result": str(r)[:300]})
                continue
            F = r["formatted"]
            if st == "parse-error":
                n_err_inputs += 1
            if F != t:
                n_changed += 1
                n_nonascii_changed += b.variant == "non-ascii"
            if gname in ("representatives", "definitions") and len(cli_pool) < cli_cap // 2:
                cli_pool.setdefault(F, f"{gname}: {b.kind} {layout.dev_name(b, d)}")
            pending.append((t, F, {"kind": b.kind, "change": f"[{c17.variant_class(b)}] {layout.dev_name(b, d)}", "group": gname, "layout_status": st}, st == "parse-error"))
            if len(pending) >= 20000:
                settle(pending)
                pending = []
        settle(pending)
    for st, n in status.items():
        ctx.outcome(f"layout:{st}", n)

    print(f"  [c18] layouts {time.time() - t0:.1f}s inputs={n_inputs}", flush=True)
    # ---- (2) single-piece edits (inputs with parse errors)
    ebases = edit_bases(ctx)
    stride = int(os.environ.get("GV_LAYOUT_STRIDE", "1"))     # development knob, never set by ./gv (base_groups already recorded the cap)
    if stride > 1:
        ebases = ebases[::stride]
    ctx.bound("edit seeds", len(ebases))
    ctx.bound("edit alphabet", len(EDIT_ALPHA))
    n_edits = n_edit_err = 0
    buf = []

    def flush(buf):
        nonlocal n_edits, n_edit_err, n_changed, n_jobs, n_err_inputs
        res = ctx.pool.map([{"op": "front", "src": t, "want": ["format"]} for _, _, _, t in buf], batch=64, timeout=60)
        n_jobs += len(buf)
        pending = []
        for (b, name, i, t), r in zip(buf, res):
            n_edits += 1
            if "formatted" not in r:
                ctx.violation("formatter/parser job failed: edits", {"src": t, "result": str(r)[:300]})
                continue
            errs = bool(r["parse_errors"])
            n_edit_err += errs
            n_err_inputs += errs
            F = r["formatted"]
            if F != t:
                n_changed += 1
            if len(cli_pool) < cli_cap:
                cli_pool.setdefault(F, f"edit: {b.kind} {name}")
            pending.append((t, F, {"kind": b.kind, "change": name, "group": "edits", "piece": b.pieces[i]}, errs))
        settle(pending)

    for b in ebases:
        for name, i, t in edits(b):
            buf.append((b, name, i, t))
        if len(buf) >= 40000:
            flush(buf)
            buf = []
    flush(buf)
    ctx.outcome("edits: inputs", n_edits)
    ctx.outcome("edits: inputs with parse errors", n_edit_err)
    ctx.outcome("inputs the formatter changed", n_changed)
    ctx.outcome("inputs that are already a fixed point (format(s) == s)", n_fixed_inputs)
    ctx.assume("the formatter is a deterministic function of the text: an input with format(s) == s needs no second pass")
    ctx.outcome("second-pass formatter runs (distinct outputs)", cache.jobs)
    ctx.outcome("non-ASCII layouts the formatter changed", n_nonascii_changed)
    if n_nonascii_changed == 0:
        raise Machinery("vacuous exploration: no non-ASCII input was changed by the formatter")
    if n_changed == 0 or n_err_inputs == 0 or n_edit_err == 0 or n_edit_err == n_edits:
        raise Machinery(f"vacuous exploration: changed={n_changed} inputs with parse errors={n_err_inputs} edits={n_edits} broken edits={n_edit_err}")

    print(f"  [c18] edits {time.time() - t0:.1f}s edits={n_edits}", flush=True)
    # ---- (3) real CLI: `garden format --check` on the written file
    targets = list(cli_pool.items())
    extra = [F for F in unstable if F not in cli_pool][:100 if ctx.quick else 600]
    os.makedirs(os.path.join(ctx.scratch, "fmt"), exist_ok=True)

    def one(arg):
        i, F = arg
        path = ctx.tmpfile(f"fmt/f{i}.gdn", F)
        rc, out, err = ctx.cli(["format", "--check", path], stdin=b"", timeout=60)
        if rc == "timeout":
            rc, out, err = ctx.cli(["format", "--check", path], stdin=b"", timeout=600)
        os.remove(path)
        return rc, err[-200:]

    allF = [F for F, _ in targets] + extra
    with concurrent.futures.ThreadPoolExecutor(16) as ex:
        results = list(ex.map(one, enumerate(allF)))
    print(f"  [c18] cli {time.time() - t0:.1f}s files={len(allF)}", flush=True)
    n_cli_ok = n_cli_rej = 0
    for F, (rc, err) in zip(allF, results):
        stable = F not in unstable
        if rc == 0:
            n_cli_ok += 1
            if not stable:
                raise Machinery(f"adapter drift: in-process format(F) != F but `format --check` accepts F={F!r}")
        elif rc == 1 and "not formatted" in err:
            n_cli_rej += 1
            if stable:
                ctx.violation("--check rejects a formatter output that the in-process formatter leaves unchanged", {"formatted": F, "from": cli_pool.get(F), "stderr": err},
                              "garden format --check <file with `formatted`>")
            else:
                v = ctx.violations[unstable[F]]
                v["detail"].setdefault("cli_check_rejects", 0)
                v["detail"]["cli_check_rejects"] += 1
                ctx.cov["cli_confirmed"] += 1
        else:
            ctx.violation(f"`format --check` on a formatter output ends with {'a timeout' if rc == 'timeout' else 'exit ' + str(rc)}", {"formatted": F, "from": cli_pool.get(F), "stderr": err},
                          "garden format --check <file with `formatted`>")
    ctx.outcome("cli --check accepts", n_cli_ok)
    ctx.outcome("cli --check rejects", n_cli_rej)
    ctx.bound("cli --check files", len(allF))
    if n_cli_ok == 0:
        raise Machinery("`format --check` accepted nothing")
    ctx.add(states=n_inputs + n_edits, transitions=n_jobs + cache.jobs + len(allF), nontrivial=n_changed)
    ctx.sample({"family": "layout", "input": "if x{y}\n", "oracle": "format(format(s)) == format(s)"})
    for F, why in targets[:2]:
        ctx.sample({"family": "cli", "from": why, "file": F, "command": "garden format --check <file>"})
    return ("every layout of the C17 space (all parser verdicts) and every single-piece delete / insert / replace over the edit alphabet on the canonical text of the edit seeds; "
            "oracle format(format(s)) == format(s) on all of them; `garden format --check` exit status on the distinct outputs of the representative, definition and edit families up to the cap. "
            "Non-trivial = the first formatting pass changed the input.")
