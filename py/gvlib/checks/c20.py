"""C20 extract variable and extract function preserve behaviour."""
REG = dict(
    engine='E1-enum',
    technique='bounded-exhaustive enumeration of (placement x statement context x pure expression) programs and of every pure sub-expression span / side-effect-free statement run in them; both extraction tools run on each span, the produced program is parsed and run on the real interpreter and compared with the original run',
    text='Programs: a pure, total expression E (17 shapes quick / 25 thorough: operators, helper calls, method calls, if / match expressions with bare and braced arms, closures capturing a variable, struct / list / tuple / dict literals) in a statement context (let right-hand side, call argument, unused statement, last expression of a block, if condition, loop header, closure body, runs of local lets; thorough: return / assert / method argument) placed at top level, in a top-level block, a function, a test, and inside if / else / for / match-arm / closure / while bodies of a function (thorough: two nested bodies, methods, one-line layouts of every body). For every pure non-leaf expression span inside the context statements (thorough: every expression span) extract_variable and extract_function with the fresh name zz9, and extract_function for every run of sibling statements that is side-effect free and binds nothing used later. Oracle: a produced program parses; if the original run ends ok the produced program has the same stdout, the same final value and the same test verdicts. Refusals are counted as declined.',
    note='Assignment-free programs; purity is syntactic (no print/throw/assert, no division); final result = value of the last top-level expression. Selections are exact node spans (no partial selections, no surrounding whitespace).',
    design_ref='DESIGN.md §6 C20',
)

import os
from ..core import Machinery
from .. import refgen

LEAF = {"Int", "Float", "Str", "Var"}
PATH = "/verif_scratch/main.gdn"


def names_in(node, out):
    if isinstance(node, tuple):
        if len(node) == 2 and node[0] == "Var" and isinstance(node[1], str):
            out.add(node[1])
        for x in node:
            names_in(x, out)
    elif isinstance(node, list):
        for x in node:
            names_in(x, out)
    return out


def statement_runs(blk, pr):
    """Side-effect-free runs of sibling statements [(start, end, n_statements)] of one block."""
    if blk is None or blk["open"] is None:
        return []
    stmts = []
    for (a, z) in blk["stmts"]:
        rec = next(r for r in pr.exprs if r["start"] == a and r["end"] == z and r["stmt"])
        stmts.append(rec)
    out = []
    n = len(stmts)
    for i in range(n):
        bound = set()
        for j in range(i, n):
            nd = stmts[j]["node"]
            if nd[0] == "Let":
                if not refgen.pure_expr(nd[3], refgen.PURE_CALLEES):
                    break
                bound |= set([nd[1][1]] if nd[1][0] == "Sym" else nd[1][1])
            elif nd[0] in refgen.STATEMENT_KINDS or not refgen.pure_expr(nd, refgen.PURE_CALLEES):
                break
            later = set()
            for k in range(j + 1, n):
                names_in(stmts[k]["node"], later)
            if bound & later:
                continue
            if j > i or nd[0] == "Let":
                out.append((stmts[i]["start"], stmts[j]["end"], j - i + 1))
    return out


def beh(r):
    b = refgen.behaviour(r)
    if len(b) < 4:
        return b
    return (b[0], b[1], b[2][-1:] , b[3])


def run(ctx):
    quick = ctx.quick
    progs = list(refgen.tool_programs(quick))
    stride = int(os.environ.get("GV_DEV_STRIDE", "1"))
    if stride > 1:
        progs = progs[::stride]
        ctx.cap(f"development stride {stride}")
    ctx.bound("programs", len(progs))
    jobs = []
    for P in progs:
        src, pr = refgen.render(P["items"], inline=P["inline"])
        P["src"] = src
        e, blk, focus = refgen.mark_focus(P, pr)
        sel = []
        for r in focus:
            if not refgen.value_expr(r["node"]) or not refgen.pure_expr(r["node"], refgen.PURE_CALLEES):
                continue
            if r["kind"] == "Var" and r["ctx"] and r["ctx"][-1][1] == "callee":
                continue        # a function name in call position is not a selectable value expression
            if quick and r["kind"] in LEAF and r is not e:
                continue
            role, block = refgen.ctx_class(r)
            sel.append({"span": (r["start"], r["end"]), "what": r["kind"], "role": role, "block": block, "run": 0})
        runs = statement_runs(blk, pr)
        role_b = refgen.ctx_class(e)[1]
        P["sel"] = sel
        P["runs"] = [{"span": (a, z), "what": f"run of {n} statements", "role": "statements", "block": blk["owner"] + "." + blk["role"], "run": n}
                     for a, z, n in runs]
        jobs.append({"op": "run", "src": src, "tick_limit": 200000})
        jobs.append({"op": "refactor", "tool": "extract_variable", "src": src, "path": PATH, "name": "zz9", "spans": [list(s["span"]) for s in sel]})
        jobs.append({"op": "refactor", "tool": "extract_function", "src": src, "path": PATH, "name": "zz9",
                     "spans": [list(s["span"]) for s in sel + P["runs"]]})
    res = ctx.pool.map(jobs, batch=8, timeout=90)
    cases = []     # (P, tool, sel, new_src)
    n_exec = 0
    for i, P in enumerate(progs):
        r0, rv, rf = res[3 * i: 3 * i + 3]
        if "parse_errors" in r0:
            raise Machinery(f"generated program does not parse: {P['src']!r} {r0['parse_errors'][0]['message']}")
        if "outcome" not in r0 or "results" not in rv or "results" not in rf:
            raise Machinery(f"job failed: {str((r0, rv, rf))[:400]}")
        P["orig"] = beh(r0)
        if P["orig"][0] != "ok" or any(not ok for _, ok in P["orig"][3]):
            raise Machinery(f"generated program does not run cleanly: {P['src']!r} {r0['outcome']}")
        for tool, sels, rr in (("extract_variable", P["sel"], rv), ("extract_function", P["sel"] + P["runs"], rf)):
            for s, r in zip(sels, rr["results"]):
                n_exec += 1
                cls = f"{tool}: {s['what']} as {refgen.ctx_str(s['role'], s['block'])}"
                if "panic" in r:
                    ctx.violation(cls + ": panic", {"src": P["src"], "span": s["span"], "panic": r["panic"], "tags": tags(P)},
                                  cli_cmd=cli(tool, s))
                    ctx.outcome(f"{tool}:panic")
                elif "err" in r:
                    ctx.outcome(f"{tool}:declined")
                    ctx.outcome(f"declined[{tool}]: {r['err'][:60]}")
                else:
                    ctx.outcome(f"{tool}:produced")
                    cases.append((P, tool, s, r["ok"], cls))
    # run every produced program (distinct texts once)
    texts = {}
    for P, tool, s, new, cls in cases:
        texts.setdefault(new, None)
    keys = list(texts)
    res2 = ctx.pool.map([{"op": "run", "src": t, "tick_limit": 200000} for t in keys], batch=24, timeout=90)
    for t, r in zip(keys, res2):
        texts[t] = r
    classes_ok = set()
    for P, tool, s, new, cls in cases:
        r = texts[new]
        n_exec += 1
        if "crash" in r or "timeout" in r or "panic" in r:
            ctx.violation(cls + ": produced program crashes the interpreter", {"src": P["src"], "span": s["span"], "produced": new, "result": str(r)[:300]}, cli_cmd=cli(tool, s))
            continue
        d = refgen.diff_class(P["orig"], beh(r), r)
        if d is None:
            ctx.outcome(f"{tool}:same-behaviour")
            classes_ok.add(cls)
            continue
        detail = {"src": P["src"], "span": list(s["span"]), "selected": P["src"][s["span"][0]:s["span"][1]], "produced": new, "tags": tags(P),
                  "original": P["orig"], "after": beh(r) if "outcome" in r else r.get("parse_errors", [{}])[0].get("message")}
        if "outcome" in r and r["outcome"].get("message"):
            detail["after_message"] = r["outcome"]["message"]
        ut = refgen.unbound_type(d)
        sig = f"{tool}: the emitted function signature mentions the non-existent type `{ut}`" if ut else f"{cls}: {refgen.blank_ticks(d)}"
        if "__ERROR(" in new and "__ERROR(" not in P["src"]:
            sig = f"{tool}: the emitted function signature contains the internal error-type text `__ERROR(…)`"
        ctx.violation(sig, detail, cli_cmd=cli(tool, s))
        ctx.outcome(f"{tool}:{d.split(' (')[0]}")
    # CLI confirmation (up to 12 violations)
    for sig, v in list(ctx.violations.items())[:12]:
        d = v["detail"]
        if "produced" not in d:
            continue
        tool = sig.split(":")[0]
        path = ctx.tmpfile("confirm.gdn", d["src"])
        rc, out, err = ctx.cli(["reftest-" + tool.replace("_", "-"), path, str(d["span"][0]), str(d["span"][1]), "--name", "zz9"])
        d["cli_exit"] = rc
        if rc == 0 and out.rstrip("\n") == d["produced"].rstrip("\n"):
            ctx.cov["cli_confirmed"] += 1
        else:
            raise Machinery(f"adapter drift: CLI {tool} output differs from in-process for {sig}: rc={rc} {err[:200]}")
    n_cases = sum(len(P["sel"]) * 2 + len(P["runs"]) for P in progs)
    ctx.add(states=n_cases, transitions=n_exec + len(progs), nontrivial=len(cases))
    ctx.bound("selections", n_cases)
    ctx.bound("statement_runs", sum(len(P["runs"]) for P in progs))
    oc = ctx.cov["outcomes"]
    for P in (progs[len(progs) // 3], progs[-1]):
        ctx.sample({"tags": tags(P), "src": P["src"], "selections": [P["src"][a:z] for a, z in (s["span"] for s in P["sel"])][:6]})
    for tool in ("extract_variable", "extract_function"):
        if oc.get(f"{tool}:produced", 0) < 0.5 * (oc.get(f"{tool}:produced", 0) + oc.get(f"{tool}:declined", 0)):
            raise Machinery(f"vacuous: {tool} declined most selections")
    if stride == 1 and sum(len(P["runs"]) for P in progs) < 50:
        raise Machinery("vacuous: too few statement runs")
    return ("programs = placement x context x expression (see REG text); cases = (tool, selection) for every pure value-expression span inside the context "
            "statements (quick: non-leaf spans and E itself) and every side-effect-free run of sibling statements (extract_function). Oracle: produced text parses; "
            "stdout, last top-level value, outcome kind and test verdicts equal those of the original. Non-trivial = selections for which a tool produced a program.")


def tags(P):
    return {"placement": P["placement"], "context": P["context"], "expression": P["expr"]}


def cli(tool, s):
    return f"garden reftest-{tool.replace('_', '-')} <file> {s['span'][0]} {s['span'][1]} --name zz9 > out.gdn; garden run <file>; garden run out.gdn"
