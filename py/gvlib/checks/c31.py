"""C31 nREPL interrupt stops the running eval and no other; close stops the running eval."""
import json, os, time
from ..core import Machinery
from .. import schedx, e4

REG = dict(
    engine="E3-sched",
    technique="stateless deviation-bounded exhaustive exploration of thread schedules of the real nREPL interrupt/close handling, worker dequeue, flag reset and per-step flag check under a controlled scheduler, with replay",
    text="Same engine as C30. Scenarios: an endless eval interrupted after it started, an interrupt sent right behind an eval, a finite eval followed by an interrupt and a second "
         "eval, an idle interrupt followed by load-file, completions and an eval, two queued evals and an interrupt, an endless eval and `close`, two sessions with one interrupted, an interrupt for a session that outlived a closed one and a later clone, an endless eval and a dropped connection. EVERY schedule with "
         "at most 2 (quick) / 3 (thorough) deviations is executed. Oracle on the recorded trace: if, when the handler's store of the interrupt flag ran, a worker had dequeued an "
         "eval and later executes at least one more interpreter step of it, that eval must end with status `interrupted` (and the run must become quiescent: prompt); an eval that "
         "was not yet dequeued when the store ran must not end `interrupted`; evals of other sessions are unaffected; after `close`/connection drop the running eval ends.",
    note="Thorough tier additionally runs E4: TLC explores the complete state graph (all interleavings, no deviation bound) of a TLA+ model of the handler/worker/flag protocol "
         "(models/NreplSession.tla, action names = scheduling-point labels) for the single-session scenarios and checks the same invariants outside the known window; every real "
         "trace recorded by E3 is projected onto the model's alphabet and must be a path of the dumped state graph, and every model counterexample is replayed on the real code by a "
         "label-directed schedule (the verdict of record is always an execution of the real code). As C30. 'Promptly' is checked as: the next interpreter step of the target eval after the store observes the flag (no further steps execute) and the run reaches "
         "quiescence within the step horizon.",
    design_ref="DESIGN.md §6 C31",
)


def clone(i):
    return [{"send": {"op": "clone", "id": f"c{i}"}}, {"await": {"counter": "sent.ch0", "n": i}}]


def ev(i, session, code):
    return {"send": {"op": "eval", "id": i, "session": session, "code": code}}


def intr(i, session):
    return {"send": {"op": "interrupt", "id": i, "session": session}}


def after_steps(n):
    return {"await": {"counter": "label:eval.step", "n": n}}


LOOP = "while True { 1 }"
SCENARIOS = {
    # endless eval, interrupt once it is running
    "I1-running": dict(script=clone(1) + [ev("e1", "garden-1", LOOP), after_steps(3), intr("i1", "garden-1")], evals={"e1": "garden-1"}, endless={"e1"}),
    # interrupt sent right behind the eval: lands before / during / after the dequeue depending on the schedule
    "I2-behind": dict(script=clone(1) + [ev("e1", "garden-1", LOOP), intr("i1", "garden-1")], evals={"e1": "garden-1"}, endless={"e1"}),
    # finite eval, interrupt, then a second eval that must not be cancelled by a stale flag
    "I3-next-eval": dict(script=clone(1) + [ev("e1", "garden-1", "1 + 1"), intr("i1", "garden-1"), ev("e2", "garden-1", "2 + 2")], evals={"e1": "garden-1", "e2": "garden-1"}, endless=set()),
    # two queued evals and an interrupt
    "I4-queued": dict(script=clone(1) + [ev("e1", "garden-1", "let i = 0 while i < 3 { i += 1 } i"), ev("e2", "garden-1", "7"), after_steps(2), intr("i1", "garden-1")],
                      evals={"e1": "garden-1", "e2": "garden-1"}, endless=set()),
    # close while an endless eval runs
    "I5-close": dict(script=clone(1) + [ev("e1", "garden-1", LOOP), after_steps(3), {"send": {"op": "close", "id": "x1", "session": "garden-1"}}], evals={"e1": "garden-1"}, endless={"e1"}),
    # two sessions, interrupt one
    "I6-two-sessions": dict(script=clone(1) + clone(2) + [ev("a1", "garden-1", LOOP), ev("b1", "garden-2", "let i = 0 while i < 3 { i += 1 } i"), after_steps(2), intr("i1", "garden-1")],
                            evals={"a1": "garden-1", "b1": "garden-2"}, endless={"a1"}),
    # an interrupt handled while the session is idle must not cancel the next request, whatever kind it is (load-file evaluates too)
    "I8-next-load-file": dict(script=clone(1) + [ev("e1", "garden-1", "1 + 1"), {"await": {"counter": "sent.ch0", "n": 3}}, intr("i1", "garden-1"),
                                                 {"send": {"op": "load-file", "id": "l1", "session": "garden-1", "file": "let i = 0 while i < 2 { i += 1 } i", "file-path": "/verif_scratch/l.gdn"}},
                                                 {"send": {"op": "completions", "id": "k1", "session": "garden-1", "prefix": "prin"}}, ev("e2", "garden-1", "2 + 2")],
                              evals={"e1": "garden-1", "l1": "garden-1", "e2": "garden-1"}, endless=set()),
    # session ids after a close: a session cloned later must not take over the id of a session that is still running an eval
    "I9-clone-after-close": dict(script=clone(1) + clone(2) + [{"send": {"op": "close", "id": "x1", "session": "garden-1"}}, {"await": {"counter": "sent.ch0", "n": 3}},
                                                           ev("e1", "garden-2", LOOP), after_steps(3)] + [{"send": {"op": "clone", "id": "c3"}}, {"await": {"counter": "sent.ch0", "n": 4}},
                                                           intr("i1", "garden-2")], evals={"e1": "garden-2"}, endless={"e1"}, target="garden-2"),
    # connection dropped while an endless eval runs
    "I7-drop": dict(script=clone(1) + [ev("e1", "garden-1", LOOP), after_steps(3), {"drop_conn": True}], evals={"e1": "garden-1"}, endless={"e1"}),
}
STORE_LABELS = {"interrupt.store": "interrupt", "close.store": "close", "drop.store": "connection drop"}


def analyse(res, scn):
    """Per eval: dequeue index, done index (trace positions), status, steps executed after each flag store."""
    ops = schedx.executed_ops(res)
    tasks = res["tasks"]
    worker_of = {}     # session -> task id
    for tid, nm in enumerate(tasks):
        if nm.startswith("nrepl-session-"):
            worker_of[nm[len("nrepl-session-"):]] = tid
    sent = schedx.sent_index(res)
    info = {}
    for rid, session in scn["evals"].items():
        deq = [at for (at, task, text) in res["notes"] if text == f"dequeued {rid}"]
        deq_task = [task for (at, task, text) in res["notes"] if text == f"dequeued {rid}"]
        done_at, status = None, None
        for k, m in enumerate(res["responses"]):
            if m.get("id") == rid and "done" in schedx.status_of(m):
                done_at = sent[k] if k < len(sent) else None
                status = schedx.status_of(m)
        info[rid] = {"session": session, "worker": deq_task[0] if deq_task else worker_of.get(session), "dequeued_at": deq[0] if deq else None, "done_at": done_at, "status": status}
    stores = [(i, label) for (i, task, label, to) in ops if label in STORE_LABELS]
    return ops, info, stores


def check_exec(ctx, name, scn, res, prefix, cost):
    end = res["end"]

    def viol(kind, extra=None, generic=False):
        d = {"scenario": name, "script": scn["script"], "prefix": prefix, "deviations": cost, "end": end, "responses": res["responses"], "horizon": 100 if scn["endless"] else 300,
             "schedule": [f"{t}:{l}{'(timer)' if to else ''}" for (i, t, l, to) in schedx.executed_ops(res)][:400]}
        if extra:
            d.update(extra)
        # the dequeue/reset window is one defect whatever the scenario: its signature does not name the scenario
        ctx.violation(kind if generic else f"{name}: {kind}", d, cli_cmd="./gv replay <this file>")

    for (at, task, text) in res["notes"]:
        if text.startswith("PANIC"):
            viol("a server thread panicked", {"panic": text})
            return
    ops, info, stores = analyse(res, scn)
    # which session does each store target? interrupt/close name the session in the request; all scenarios target garden-1
    target_session = scn.get("target", "garden-1")
    for (si, label) in stores:
        what = STORE_LABELS[label]
        # the eval in flight on the target session's worker when the store ran
        inflight = [rid for rid, d in info.items() if d["session"] == target_session and d["dequeued_at"] is not None and d["dequeued_at"] <= si
                    and (d["done_at"] is None or d["done_at"] > si)]
        for rid in inflight:
            d = info[rid]
            steps_after = [i for (i, t, l, to) in ops if t == d["worker"] and l == "eval.step" and i > si and (d["done_at"] is None or i < d["done_at"])]
            interrupted = d["status"] is not None and "interrupted" in d["status"]
            if steps_after and not interrupted:
                window = not any(t == d["worker"] and l == "worker.reset" and d["dequeued_at"] <= i <= si for (i, t, l, to) in ops)
                viol(f"{what} lost: the eval in flight keeps executing steps after the flag store and does not end `interrupted`"
                     + (" (store landed between the worker's dequeue and its flag reset)" if window else " (store landed after the worker's flag reset)"),
                     {"request": rid, "store_at": si, "dequeued_at": d["dequeued_at"], "steps_after_store": len(steps_after), "status": d["status"]}, generic=window)
                return
            if len(steps_after) > 1 and interrupted:
                viol(f"{what} not prompt: more than one interpreter step ran after the flag store", {"request": rid, "steps_after_store": len(steps_after)})
                return
    # an eval that was not dequeued when any store ran must not end interrupted (stale flag leaking into a later eval)
    for rid, d in info.items():
        if d["status"] is not None and "interrupted" in d["status"]:
            legit = any(d["dequeued_at"] is not None and d["dequeued_at"] <= si and d["session"] == target_session for (si, label) in stores)
            if not legit:
                viol("an eval that was not running when the interrupt was handled ends `interrupted`" if d["session"] == target_session
                     else "an eval of another session ends `interrupted`", {"request": rid, "stores": stores, "dequeued_at": d["dequeued_at"]})
                return
    # evals that nobody interrupted must complete; endless ones legitimately hit the horizon
    if end.startswith("horizon"):
        unfinished = [rid for rid, d in info.items() if d["done_at"] is None]
        # a finite eval that is still executing steps when the horizon is reached is slow, not stuck: next to an eval that
        # legitimately runs for ever (e.g. one whose interrupt arrived before it was dequeued) it gets only half of the points
        tail = ops[-20:]
        bad = [rid for rid in unfinished if rid not in scn["endless"]
               and not any(t == info[rid]["worker"] and l == "eval.step" for (i, t, l, to) in tail)]
        if bad:
            viol("a finite eval does not finish within the step horizon", {"requests": bad})
        return
    for rid, d in info.items():
        if d["done_at"] is None and d["dequeued_at"] is not None:
            viol("an eval was dequeued but never answered although the run is quiescent", {"request": rid})
            return


E4_SCRIPTS = {"I1-running": "I1", "I2-behind": "I2", "I3-next-eval": "I3", "I4-queued": "I4"}


def model_conformance(ctx, projected, horizon):
    """E4: TLC on the protocol model, every recorded real trace must be a path of the model, every model counterexample is replayed on the code."""
    workdir = e4.prepare(ctx.scratch)
    states = edges = walked = rejected = 0
    reproduced = []
    for name, sc in E4_SCRIPTS.items():
        if name not in projected:
            continue
        try:
            graph = e4.model_graph(workdir, sc)
        except e4.ModelViolation as mv:
            raise Machinery(f"E4: the protocol model itself violates an invariant outside the window for script {sc}: {mv.out[-600:]}")
        states += graph[2]
        edges += graph[3]
        bad = []
        for seq in sorted(projected[name]):
            ok, k = e4.accepts(graph, list(seq))
            walked += 1
            if not ok:
                rejected += 1
                bad.append((list(seq), k))
        if bad and not ctx.violations:
            seq, k = bad[0]
            raise Machinery(f"E4: {len(bad)} recorded traces of {name} are not behaviours of the model (first: diverges at position {k}: {seq[:k + 1]}); the model misrepresents the code")
        cx = e4.counterexample(workdir, sc)
        if cx:
            scn = SCENARIOS[name]
            res = e4.directed_replay(ctx.binary, scn["script"], cx, horizon if scn["endless"] else 300)
            if res is None:
                # the model lets a finite eval finish after any number of steps; a counterexample that needs a step count the
                # concrete program of the scenario does not have is not realisable and says nothing about the code
                reproduced.append({"script": sc, "model_trace": cx, "reproduced_on_code": False,
                                   "reason": "not realisable with the step count of the scenario's concrete program (the model over-approximates it)"})
                continue
            before = set(ctx.violations)
            check_exec(ctx, name, scn, res, [p["choice"] for p in res["trace"]], -1)
            hit = set(ctx.violations) - before or {s for s in ctx.violations if "store landed between" in s}
            reproduced.append({"script": sc, "model_trace": cx, "reproduced_on_code": bool(hit)})
    ctx.cov["e4_model"] = {"tlc_states": states, "tlc_transitions": edges, "real_traces_walked_through_model": walked, "real_traces_rejected_by_model": rejected,
                           "model_counterexamples": reproduced}
    ctx.cov["traces_validated_against_impl"] += walked + len(reproduced)
    ctx.outcome("E4: real traces accepted by the model", walked - rejected)
    ctx.outcome("E4: model counterexamples reproduced on the code", sum(1 for r in reproduced if r["reproduced_on_code"]))


def run(ctx):
    bound = 2 if ctx.quick else 3
    budget = float(os.environ.get("GV_SCHED_BUDGET", 90 if ctx.quick else 1500))
    horizon = 100      # scenarios with an endless eval run to the horizon in every execution
    FINITE_HORIZON = 300   # scenarios whose evals all finish: only a stuck execution gets anywhere near it
    hz = lambda n: horizon if SCENARIOS[n]["endless"] else FINITE_HORIZON
    ctx.bound("deviation_bound_requested", bound)
    ctx.bound("step_horizon", {"scenarios with an endless eval": horizon, "other scenarios": 300})
    only = os.environ.get("GV_C31_ONLY")
    names = [n for n in SCENARIOS if not only or n in only.split(",")]
    # the interrupt-behind-eval scenario first: it is where the dequeue/reset window is reachable with two deviations
    names.sort(key=lambda n: (n != "I2-behind", list(SCENARIOS).index(n)))
    t0 = time.time()
    total_execs = total_points = outcomes = 0
    completed = {}
    stats_all = {"interrupted": 0}
    bases = {}
    projected = {}

    def explore(name, bnd, deadline):
        scn = SCENARIOS[name]

        def chk(res, prefix, cost):
            if any("interrupted" in schedx.status_of(m) for m in res["responses"]):
                stats_all["interrupted"] += 1
            if name in E4_SCRIPTS:
                projected.setdefault(name, set()).add(tuple(e4.project(res)))
            check_exec(ctx, name, scn, res, prefix, cost)
        ex = schedx.Explorer(ctx.binary, scn["script"], hz(name), bnd, chk, deadline=deadline)
        ex.explore()
        return ex

    # pass 1: determinism, then every schedule with at most one deviation, for every scenario (no time cap)
    first = {}
    for name in names:
        scn = SCENARIOS[name]
        base = schedx.run_exec(ctx.binary, scn["script"], [], hz(name))
        if not base["trace"]:
            raise Machinery(f"{name}: empty trace: {base['end']} {base.get('stderr', '')[:300]}")
        bases[name] = base
        ch = [p["choice"] for p in base["trace"]]
        probes = [[]]
        for i, p in enumerate(base["trace"]):
            if len(p["alts"]) > 1:
                probes.append(ch[:i] + [1])
                break
        for i, p in enumerate(base["trace"]):
            tix = [k for k, a in enumerate(p["alts"]) if a[2]]
            if tix:
                probes.append(ch[:i] + [tix[0]])
                break
        schedx.Explorer(ctx.binary, scn["script"], hz(name), 0, lambda *a: None).determinism(probes)
        first[name] = explore(name, 1, None)
        completed[name] = first[name].completed_bound
    # pass 2: deeper bounds, in priority order, within the time budget
    final = dict(first)
    for depth in range(2, bound + 1):
        # expected number of schedules: bound-1 count to the power of the depth; smallest first, shares in proportion
        size = lambda n: max(first[n].execs, 2) ** depth
        order = sorted(names, key=lambda n: (n != "I2-behind", size(n)))
        for idx, name in enumerate(order):
            left = t0 + budget - time.time()
            if left <= 0:
                break
            share = time.time() + left * size(name) / sum(size(n) for n in order[idx:])
            ex = explore(name, depth, share)
            if ex.completed_bound >= depth:
                completed[name] = depth
                final[name] = ex
            elif ex.execs > final[name].execs:
                final[name] = ex
    for name in names:
        ex = final[name]
        total_execs += ex.execs
        ctx.cov["cross_checked_in_fresh_process"] = ctx.cov.get("cross_checked_in_fresh_process", 0) + ex.cross_checked
        total_points += ex.points
        outcomes += len(ex.outcomes)
        ctx.outcome(f"{name}: executions", ex.execs)
        ctx.outcome(f"{name}: distinct response sequences", len(ex.outcomes))
        for e, n in ex.ends.items():
            ctx.outcome(f"{name}: end={e}", n)
        ctx.bound(f"{name}: bound completed / executions by cost / longest trace", [completed[name], ex.by_cost, ex.max_len])
        if completed[name] < bound:
            ctx.cap(f"{name}: deviation bound {completed[name]} completed, bound {completed[name] + 1} explored partially ({ex.by_cost.get(completed[name] + 1, 0)} schedules) within the time budget")
        if len(ctx.cov["samples"]) < 3:
            ctx.sample({"scenario": name, "script": SCENARIOS[name]["script"], "default_schedule": [f"{t}:{l}" for (i, t, l, to) in schedx.executed_ops(bases[name])][:80]})
    completed = list(completed.values())
    seen_interrupted = stats_all["interrupted"]
    if not ctx.quick or os.environ.get("GV_E4"):
        model_conformance(ctx, projected, horizon)
    ctx.bound("deviation_bound_completed_all_scenarios", min(completed))
    if min(completed) < 1:
        raise Machinery(f"time budget too small: completed deviation bounds {completed}")
    if seen_interrupted == 0 and not ctx.violations:
        raise Machinery("vacuous: no execution had an interrupted eval")
    ctx.add(states=total_execs, transitions=total_points, evaluations=total_execs, nontrivial=outcomes)
    ctx.assume("sequentially consistent interleaving of the instrumented points; virtual time")
    return ("for each client scenario every schedule of the real threads with at most <bound> deviations from the default schedule is executed in its own process; the oracle is "
            "evaluated on the recorded trace (flag store position vs. dequeue, reset, interpreter steps, final status). states = executions, transitions = scheduling points, "
            "non-trivial = distinct observable response sequences.")
