"""C06 block-local variables never outlive their block."""
REG = dict(
    engine='E1-enum',
    technique='bounded-exhaustive enumeration of block nestings x exit statement x probe position x probed name, executed on the real interpreter (whole programs and two-request sessions), compared with a scope model taken from the statement and with the fall-through variant of the same shape',
    text="Every nesting of depth <=3 (quick) / <=4 (thorough) over the block kinds {while body, for body, if-then, else, match arm with braces, match arm without braces, function body, closure body}, with fall-through / break / continue / return at the innermost level wherever the exit is meaningful, a variable declared in every block (let, match pattern, for variable) and an outer x shadowed in every block. After the construct (and after every nested construct, so that leaks inside a function frame are seen too) one probe per program reads one name: names of blocks that were left must raise 'No such variable', x must have the value of the block the probe is in, enclosing variables must still be readable; every result is also compared with the fall-through variant of the same nesting. Each case is run as a program and, for the top-level probe, as a session (construct in one request, probe in the next; once with the construct followed by a last expression `0` and once with the construct as the last expression of its request).",
    note="Blocks of try/catch and bare `{}` blocks, exits in non-final position, exits under a condition that changes between iterations, and more than two loop iterations are not enumerated. A top-level `return` is only observable in a session (it ends a program).",
    design_ref='DESIGN.md §6 C06',
)

import itertools, json
from ..core import Machinery

KINDS = ["W", "F", "T", "E", "MB", "MN", "FN", "CL"]
KIND_NAME = {"W": "while", "F": "for", "T": "if", "E": "else", "MB": "arm{}", "MN": "arm", "FN": "fun", "CL": "closure"}
EXITS = ["fall", "break", "continue", "return"]
LOOPS = ("W", "F")
FRAMES = ("FN", "CL")
UNBOUND = "No such variable `%s`."


def X(k): return 1000 + k
def Z(k): return 2000 + k


def target(path, exit):
    """Level that the exit statement at the innermost level transfers control out of / back to.
    None: the exit is not meaningful there. 0: top-level `return`."""
    d = len(path)
    if exit == "fall":
        return d
    if exit in ("break", "continue"):
        for j in range(d, 0, -1):
            if path[j - 1] in FRAMES:
                return None
            if path[j - 1] in LOOPS:
                return j
        return None
    for j in range(d, 0, -1):
        if path[j - 1] in FRAMES:
            return j
    return 0


def reachable_positions(path, exit):
    """Probe positions (p = in the block of level p, right after the level p+1 construct; 0 = top level) that control reaches."""
    d = len(path)
    t = target(path, exit)
    if t is None:
        return []
    if exit == "fall":
        return list(range(d))
    return list(range(t))          # break/continue: 0..L-1; return: 0..Fn-1 (none for a top-level return)


def level_names(path, j):
    return [f"z{j}"] + ([f"e{j}"] if path[j - 1] == "F" else [])


def model(path, p):
    """(x value, [(name, value)] enclosing variables that must be readable, [names] that must be unbound) at position p."""
    d = len(path)
    b = 0
    for j in range(p, 0, -1):
        if path[j - 1] == "FN":
            b = j
            break
    bound = [(f"z{j}", Z(j)) for j in range(max(b, 1), p + 1)]
    unbound = [n for j in range(p + 1, d + 1) for n in level_names(path, j)]
    visits = 2 ** sum(1 for j in range(1, p + 1) if path[j - 1] in LOOPS)
    return X(p), bound, unbound, visits


def probe_src(probe):
    kind, names = probe
    return "".join(f"println(string_repr({n}))\n" for n in names)


def build(path, exit, p, probe):
    """Source of the program; probe=None leaves the probe out (session: it goes in the next request)."""
    d = len(path)
    defs = []

    def level(k, ind):
        """-> (preludes to hoist into the nearest enclosing brace block, expression text)"""
        kind = path[k - 1]
        pad = "  " * ind
        inner = k == d
        if kind == "MN":
            if inner:
                body = {"fall": f"z{k} + x", "break": "break", "continue": "continue", "return": "return 7"}[exit]
                pre = []
            else:
                if p == k and probe is not None:
                    raise ValueError("no probe position inside a brace-less arm")
                pre, body = level(k + 1, ind + 1)
            return pre, f"match Some(({Z(k)}, {X(k)})) {{\n{pad}  Some((z{k}, x)) => {body}\n{pad}  None => {{ }}\n{pad}}}"
        stmts = []
        if kind == "W":
            stmts.append(f"i{k} += 1")
        stmts.append(f"let x = {X(k)}")
        if kind != "MB":
            stmts.append(f"let z{k} = {Z(k)}")
        if inner:
            if exit != "fall":
                stmts.append({"break": "break", "continue": "continue", "return": "return 7"}[exit])
        else:
            pre, e = level(k + 1, ind + 1)
            stmts.extend(pre)
            stmts.append(e)
            if p == k and probe is not None:
                stmts.extend(probe_src(probe).strip().split("\n"))
        body = "".join(f"{pad}  {s}\n" for s in stmts)
        if kind == "W":
            return [f"let i{k} = 0"], f"while i{k} < 2 {{\n{body}{pad}}}"
        if kind == "F":
            return [], f"for e{k} in [1, 2] {{\n{body}{pad}}}"
        if kind == "T":
            return [], f"if True {{\n{body}{pad}}}"
        if kind == "E":
            return [], f"if False {{ }} else {{\n{body}{pad}}}"
        if kind == "MB":
            return [], f"match Some({Z(k)}) {{\n{pad}  Some(z{k}) => {{\n{body}{pad}  }}\n{pad}  None => {{ }}\n{pad}}}"
        if kind == "FN":
            fbody = "".join(f"  {s}\n" for s in stmts)
            defs.append(f"fun f{k}() {{\n{fbody}}}\n")
            return [], f"f{k}()"
        if kind == "CL":
            return [], f"(fun() {{\n{body}{pad}}})()"
        raise ValueError(kind)

    pre, e = level(1, 0)
    src = "".join(reversed(defs)) + f"let x = {X(0)}\n" + "".join(s + "\n" for s in pre) + e + "\n"
    if p == 0 and probe is not None:
        src += probe_src(probe)
    return src


def classify_run(r, probe, visits):
    """Observation of a `run` job for one probe."""
    if "parse_errors" in r:
        return ("parse_error", r["parse_errors"][0]["message"])
    for k in ("panic", "crash", "timeout"):
        if k in r:
            return (k, str(r[k])[:200])
    o = r["outcome"]
    out = r.get("stdout", "")
    kind, names = probe
    if o["kind"] == "exception":
        for n in names:
            if o.get("message", "").startswith(UNBOUND % n):
                return ("unbound", n, out)
        return ("other_exception", o.get("message", "")[:200], out)
    if o["kind"] != "ok":
        return ("outcome:" + o["kind"], out)
    lines = out.split("\n")[:-1]
    n = len(names)
    if len(lines) == 0 or len(lines) % n != 0:
        return ("irregular", out)
    blocks = [tuple(lines[i:i + n]) for i in range(0, len(lines), n)]
    if len(set(blocks)) != 1:
        return ("irregular", out)
    return ("values", blocks[0], len(blocks))


def classify_session(r, probe):
    for k in ("panic", "crash", "timeout"):
        if k in r:
            return (k, str(r[k])[:200])
    resp = r["responses"]
    if len(resp) != 2 or not resp[0] or not resp[1]:
        return ("bad_session", json.dumps(resp)[:300])
    first = json.loads(resp[0][-1])
    try:
        v0 = first["kind"]["evaluate"]["value"]
    except (KeyError, TypeError):
        return ("bad_session", resp[0][-1][:300])
    if "Err" in v0:
        return ("construct_failed", json.dumps(v0)[:300])
    name = probe[1][0]
    last = json.loads(resp[1][-1])
    try:
        v = last["kind"]["evaluate"]["value"]
    except (KeyError, TypeError):
        return ("bad_session", resp[1][-1][:300])
    if "Ok" in v:
        return ("values", (v["Ok"],), 1)
    msg = v["Err"][0]["message"] if v["Err"] else ""
    if msg.startswith("Exception: " + UNBOUND % name):
        return ("unbound", name, "")
    return ("other_exception", msg[:200], "")


def pstr(path):
    return ">".join(KIND_NAME[k] for k in path)


def crossed(path, exit):
    """The block kinds that the exit leaves at once: from the target loop/function (or top level) to the innermost block."""
    t = target(path, exit)
    seg = path[max(t, 1) - 1:]
    return ("toplevel>" if t == 0 else "") + pstr(seg)


def cli_session(ctx, inputs, deadline_s=30):
    """The same requests through the real `garden json` (Content-Length framing). Returns the `evaluate` responses, in order."""
    import os, select, subprocess, time
    data = b""
    for src in inputs:
        body = json.dumps({"method": "run", "input": src}).encode()
        data += b"Content-Length: %d\n" % len(body) + body + b"\n"
    p = subprocess.Popen([ctx.binary, "json"], stdin=subprocess.PIPE, stdout=subprocess.PIPE, stderr=subprocess.DEVNULL, cwd=ctx.scratch)
    out = []
    try:
        p.stdin.write(data)
        p.stdin.flush()
        buf, end = b"", time.time() + deadline_s
        while len(out) < len(inputs) and time.time() < end:
            r, _, _ = select.select([p.stdout], [], [], 0.5)
            if not r:
                continue
            chunk = os.read(p.stdout.fileno(), 1 << 16)
            if not chunk:
                break
            buf += chunk
            while b"\n" in buf:
                line, buf = buf.split(b"\n", 1)
                try:
                    o = json.loads(line)
                except ValueError:
                    continue
                if isinstance(o.get("kind"), dict) and "evaluate" in o["kind"]:
                    out.append(o["kind"]["evaluate"]["value"])
    finally:
        p.kill()
        p.wait()
    return out


def article(kind):
    return ("an " if kind[0] in "aeiou" else "a ") + kind


def exit_desc(path, exit, cx):
    """The input class a verdict is filed under: exit statement, what it targets, and the classes of block it leaves on the way."""
    t = target(path, exit)
    if cx == "session-last" and path[0] == "F":
        # the request's last expression is a `for` loop: whatever is nested in it, that is the class
        return "session request whose last expression is a for loop"
    if exit == "fall":
        return "fall through"
    if exit == "return":
        return "return at top level" if t == 0 else f"return from a {KIND_NAME[path[t - 1]]}"
    via = "directly in the loop body" if t == len(path) else "inside an if/else/match-arm block in the loop body"
    return f"{exit} in a {KIND_NAME[path[t - 1]]} loop, {via}"


def run(ctx):
    depth = 3 if ctx.quick else 4
    ctx.bound("nesting_depth", depth)
    ctx.bound("block_kinds", len(KINDS))
    paths = [p for d in range(1, depth + 1) for p in itertools.product(KINDS, repeat=d)]
    cases = []      # (path, exit, p, probe, context)
    shapes = set()
    for path in paths:
        d = len(path)
        for exit in EXITS:
            t = target(path, exit)
            if t is None:
                continue
            shapes.add((path, exit))
            for p in reachable_positions(path, exit):
                if p >= 1 and path[p - 1] == "MN":
                    continue          # a brace-less arm holds one expression: no room for a probe after the nested construct
                xv, bound, unbound, visits = model(path, p)
                cases.append((path, exit, p, ("bound", ["x"] + [n for n, _ in bound]), "program"))
                for n in unbound:
                    cases.append((path, exit, p, ("unbound", [n]), "program"))
            # session: construct in one request, probe in the next (also the only way to observe a top-level return).
            # "session": the construct is followed by a last expression `0`; "session-last": the construct is the last expression of its request.
            xv, bound, unbound, visits = model(path, 0)
            for cx in ("session", "session-last"):
                cases.append((path, exit, 0, ("bound", ["x"]), cx))
                for n in unbound:
                    cases.append((path, exit, 0, ("unbound", [n]), cx))
    req = lambda s: json.dumps({"method": "run", "input": s})
    jobs = []
    for path, exit, p, probe, cx in cases:
        if cx == "program":
            jobs.append({"op": "run", "src": build(path, exit, p, probe), "tick_limit": 100000})
        else:
            jobs.append({"op": "session", "tick_limit": 100000, "requests": [req(build(path, exit, 0, None) + ("0\n" if cx == "session" else "")), req(probe[1][0])]})
    res = ctx.pool.map(jobs, batch=48, timeout=30)
    obs = {}
    for c, r in zip(cases, res):
        path, exit, p, probe, cx = c
        visits = model(path, p)[3]
        o = classify_run(r, probe, visits) if cx == "program" else classify_session(r, probe)
        if o[0] in ("parse_error", "bad_session", "construct_failed"):
            raise Machinery(f"generated case is not a valid run: {o} for {pstr(path)} {exit} p={p} {probe} [{cx}]\n{build(path, exit, p, probe if cx == 'program' else None)}")
        obs[(path, exit, p, tuple(probe[1]), cx)] = o
    n_leak = n_unbound = n_vals = 0
    for c, job in zip(cases, jobs):
        path, exit, p, probe, cx = c
        o = obs[(path, exit, p, tuple(probe[1]), cx)]
        fall = obs.get((path, "fall", p, tuple(probe[1]), cx))
        xv, bound, unbound, visits = model(path, p)
        ctx.outcome(f"{cx}:{probe[0]}:{o[0]}")
        src = job.get("src") or [json.loads(x)["input"] for x in job["requests"]]
        base = dict(path=pstr(path), exit=exit, blocks_left_at_once=crossed(path, exit), probe_position=p, probe=probe[1], context=cx, observed=list(o),
                    fall_through_variant=list(fall) if fall else None, src=src)
        cli = "garden run <file with src>" if cx == "program" else "garden json   # send src[0], then src[1], as {\"method\":\"run\",\"input\":…} lines"
        ex = exit_desc(path, exit, cx)
        sx = "program" if cx == "program" else "session"
        if probe[0] == "unbound":
            name = probe[1][0]
            lvl = int(name[1:])
            if o[0] == "unbound":
                n_unbound += 1
            elif o[0] == "values":
                n_leak += 1
                ctx.outcome(f"leak:{ex}")
                base["symptom"] = ("the for variable" if name[0] == "e" else f"the variable declared in the {KIND_NAME[path[lvl - 1]]} block (level {lvl})") + " is readable"
                ctx.violation(f"{ex}: variables of the blocks that were left stay visible [{sx}]", base, cli_cmd=cli)
            else:
                ctx.violation(f"{ex}: reading a variable of a block that was left gives {o[0]} [{sx}]", base, cli_cmd=cli)
        else:
            want = tuple([str(xv)] + [str(v) for _, v in bound])
            base["expected"] = list(want)
            if o[0] == "values" and o[1] == want and (cx != "program" or o[2] == visits):
                n_vals += 1
            elif o[0] == "values" and o[1][0] != want[0] and o[1][0].isdigit() and X(p) < int(o[1][0]) <= X(len(path)):
                base["symptom"] = f"x reads as the x declared in the {KIND_NAME[path[int(o[1][0]) - 1001]]} block (level {int(o[1][0]) - 1000})"
                ctx.violation(f"{ex}: variables of the blocks that were left stay visible [{sx}]", base, cli_cmd=cli)
            elif o[0] == "values" and o[1] == want:
                ctx.violation(f"{ex}: code after the construct runs {o[2]} times instead of {visits} [{sx}]", base, cli_cmd=cli)
            else:
                ctx.violation(f"{ex}: enclosing variables differ from the fall-through variant: {o[0]} [{sx}]", base, cli_cmd=cli)
    if n_unbound == 0 or n_vals == 0:
        raise Machinery("vacuous: no probe gave 'No such variable' or no probe read a value")
    # confirm one instance per signature through the real CLI (`garden run`, `garden json`)
    for sig, v in ctx.violations.items():
        d = v["detail"]
        if d["context"] != "program":
            vals = cli_session(ctx, d["src"])
            d["cli_session_values"] = vals
            if len(vals) == 2 and d["observed"][0] == "values" and vals[1] == {"Ok": d["observed"][1][0]}:
                ctx.cov["cli_confirmed"] += 1
            elif len(vals) == 2 and d["observed"][0] == "values":
                raise Machinery(f"adapter drift: in-process session verdict '{sig}' is not reproduced by `garden json`: {vals}")
            continue
        path_ = ctx.tmpfile("confirm.gdn", d["src"])
        rc, out, err = ctx.cli(["run", path_], stdin=b"", timeout=60)
        d["cli_stdout"], d["cli_stderr_tail"] = out[-200:], err[-300:]
        unbound_cli = any((UNBOUND % n) in err for n in d["probe"])
        if d["observed"][0] == "values" and not unbound_cli and out.split("\n")[:len(d["probe"])] == list(d["observed"][1]):
            ctx.cov["cli_confirmed"] += 1
        elif d["observed"][0] != "values" and rc == 0:
            ctx.cov["cli_confirmed"] += 1
        else:
            raise Machinery(f"adapter drift: in-process verdict '{sig}' is not reproduced by `garden run` (rc={rc}, stdout={out!r}, stderr={err[-200:]!r})")
    ctx.bound("shapes(path,exit)", len(shapes))
    ctx.add(states=len(cases), transitions=len(jobs), nontrivial=sum(1 for c in cases if c[1] != "fall"))
    for i in (len(cases) // 3, len(cases) // 2, len(cases) - 1):
        path, exit, p, probe, cx = cases[i]
        ctx.sample({"path": pstr(path), "exit": exit, "probe_position": p, "probe": probe[1], "context": cx,
                    "src": jobs[i].get("src") or [json.loads(x)["input"] for x in jobs[i]["requests"]]})
    ctx.assume("loops run two iterations; the exit statement is the last statement of the innermost block; closures are immediately-invoked `(fun() { … })()`")
    return (f"all {len(paths)} nestings of depth <= {depth} over 8 block kinds x {{fall through, break, continue, return}} where the exit is meaningful ({len(shapes)} shapes) "
            "x every reachable probe position x every probed name (one probe per program) + the same with the probe as the next session request. "
            "Oracle: names of blocks that control has left raise `No such variable`, x has the value of the block the probe is in, enclosing names keep their values, "
            "and all of it equals the fall-through variant of the same nesting. Non-trivial = cases whose exit is break/continue/return.")
