"""C33 print a tree, parse it, get the same tree."""
REG = dict(
    engine='E1-enum',
    technique='bounded-exhaustive enumeration of syntax trees up to a depth bound, print/parse round trip on the real parser',
    text='Every tree of the mini-AST grammar up to the stated depth bound (all productions, all 8 item kinds with optional parts on/off, item pairs) is printed canonically and parsed by the real parser; the resulting tree must equal the printed one. Exhaustive within the bound.',
    note='The canonical printer and the Debug-form emitter are part of the trusted base; both are validated against the parser on all 474 parseable .gdn files of the repository. Trees deeper than the bound are not covered.',
    design_ref='DESIGN.md §6 C33',
)

import itertools
from .. import gast, gen
from ..core import Machinery


def sig_for(tree, bad):
    """Signature: root production + first differing production path (stable under unrelated edits)."""
    if bad["errors"]:
        kind = "parse-error"
    else:
        kind = "different-tree"
    root = tree[0][1][0] if tree[0][0] == "Expr" else (tree[0][1][0][0] if tree[0][0] == "Block" and tree[0][1] else tree[0][0])
    return f"{kind} root={root} inner={inner_kinds(tree[0])}"


def inner_kinds(item):
    e = item[1] if item[0] == "Expr" else None
    if e is None:
        return "-"
    kinds = []
    for c in e[1:]:
        if isinstance(c, tuple) and c and isinstance(c[0], str) and c[0][:1].isupper():
            kinds.append(c[0])
    return "+".join(kinds[:3]) or "-"


def chunks(it, n):
    it = iter(it)
    while True:
        c = list(itertools.islice(it, n))
        if not c:
            return
        yield c


def run_trees(ctx, label, trees_iter, as_items=False):
    total = 0
    CH = 400
    batch_jobs, batch_trees = [], []

    def flush():
        nonlocal batch_jobs, batch_trees
        if not batch_jobs:
            return
        res = ctx.pool.map(batch_jobs, batch=1, timeout=120)
        for job, trees, r in zip(batch_jobs, batch_trees, res):
            if "bad" not in r:
                raise Machinery(f"ast_expect failed: {str(r)[:300]}")
            for b in r["bad"]:
                t = trees[b["i"]]
                src = job["cases"][b["i"]][0]
                ctx.violation(sig_for(t, b), {"tree": repr(t), "src": src, "parse_errors": [e["message"] for e in b["errors"]],
                                              "expected": job["cases"][b["i"]][1][:2000], "got": b["got"][:2000]},
                              cli_cmd="garden reftest-ast <file with src>")
        batch_jobs, batch_trees = [], []

    for ch in chunks(trees_iter, CH):
        # `fun(` cannot start a top-level expression (it starts a definition there): use a top-level block
        progs = [[t] if as_items else ([("Block", [t])] if gen.leftmost_kind(t) == "Lambda" else [("Expr", t)]) for t in ch]
        cases = [[gast.program_src(p), gast.d_program(p)] for p in progs]
        batch_jobs.append({"op": "ast_expect", "cases": cases})
        batch_trees.append(progs)
        total += len(ch)
        if len(batch_jobs) >= 64:
            flush()
    flush()
    ctx.outcome(label, total)
    return total


def run(ctx):
    n1 = run_trees(ctx, "depth1", gen.depth1())
    n2 = run_trees(ctx, "depth2", gen.depth2(thorough=not ctx.quick))
    n3 = 0
    if not ctx.quick:
        n3 = run_trees(ctx, "depth3", gen.depth3())
    L = gen.leaves() + gen.leaf_statements()
    n0 = run_trees(ctx, "depth0", L)
    # literals at the limits of their ranges, alone and in every unary/binary context that takes an expression
    X = [("Int", -9223372036854775808), ("Int", 9223372036854775807), ("Int", -9223372036854775807), ("Int", 1000000), ("Str", "\\"), ("Str", "\"q\""), ("Str", "a\nb\tc"),
         ("Str", "é😀"), ("Float", "0.0"), ("Float", "123456789.125")]
    ctxs = [lambda e: e, lambda e: ("Paren", e), lambda e: ("Paren", ("Paren", e)), lambda e: ("Bin", ("Var", "x"), "-", e), lambda e: ("Bin", e, "+", ("Var", "x")),
            lambda e: ("Call", ("Var", "f"), [e]), lambda e: ("List", [e, e]), lambda e: ("Tuple", [e, ("Var", "x")]), lambda e: ("Let", ("Sym", "v"), None, e),
            lambda e: ("Dict", [(("Str", "k"), e)]), lambda e: ("Return", e), lambda e: ("If", ("Var", "x"), [e], [e]), lambda e: ("MethodCall", ("Paren", e), "m", [])]
    n0 += run_trees(ctx, "limit-literals", [c(e) for e in X for c in ctxs])
    bodies_pool = [[], [("Var", "x")], [("Let", ("Sym", "v"), None, ("Int", 7)), ("Return", ("Var", "v"))], [("If", ("Var", "x"), [("Break",)], None)]]
    nt = run_trees(ctx, "toplevel-items", gen.toplevel_items(bodies_pool), as_items=True)
    # multi-item programs: every ordered pair of a representative item set (separator handling between items)
    items = [("Expr", ("Var", "x")), ("Expr", ("Int", -3)), ("Expr", ("Tuple", [])), ("Expr", ("List", [("Var", "x")])), ("Block", [("Var", "x")]),
             ("Fun", "f", False, None, [], [], None, []), ("Fun", "g", True, "Doc.", [], [], None, []), ("Test", "t", None, []),
             ("Enum", "E", False, None, [], [("A", None)]), ("StructDef", "S", False, "Doc.", [], []), ("Import", "./foo.gdn", None),
             ("Expr", ("Struct", "Foo", [])), ("Expr", ("Return", None)), ("Expr", ("If", ("Var", "x"), [], None))]
    pairs = [[a, b] for a in items for b in items]
    cases = [[gast.program_src(p), gast.d_program(p)] for p in pairs]
    r = ctx.pool.one({"op": "ast_expect", "cases": cases}, timeout=60)
    for b in r.get("bad", []):
        p = pairs[b["i"]]
        ctx.violation(f"item-pair {p[0][0]}:{p[0][1][0] if p[0][0]=='Expr' else ''} then {p[1][0]}:{p[1][1][0] if p[1][0]=='Expr' else ''}",
                      {"src": cases[b["i"]][0], "errors": [e["message"] for e in b["errors"]], "got": b["got"][:1500]})
    total = n0 + n1 + n2 + n3 + nt + len(pairs)
    ctx.add(states=total, transitions=total, nontrivial=total - n0)
    ctx.bound("expression_depth", 2 if ctx.quick else 3)
    ctx.sample({"tree": repr(("Bin", ("Var", "x"), "-", ("Call", ("Var", "x"), []))), "src": "x - x()"})
    ctx.sample({"src": cases[17][0], "expected": cases[17][1][:300]})
    ctx.assume("statement forms (let/assign/return/break/continue/assert) are enumerated in statement position only; an unparenthesised binary operator is never a right operand (such a tree has no parenthesis-free text)")
    return ("every tree with one production at the root and children from: all leaves (depth 1); leaves + one or two representatives of every "
            "production (depth 2; thorough: depth 3 with representatives of depth 2); all 8 top-level item kinds with each optional part "
            "present/absent; all ordered pairs of 15 representative items. Oracle: canonical text parses without errors and the parser's tree "
            "(Debug form with positions, ids, value_is_used and comma positions blanked) equals the tree that was printed. Non-trivial = depth>=1.")
