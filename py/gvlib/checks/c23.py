"""C23 reported source positions are consistent."""
REG = dict(
    engine='E1-enum',
    technique='bounded-exhaustive enumeration of syntax trees x layouts x character classes (non-ASCII, multi-line string literals, CRLF), single-piece edits, diagnostic / exception / session programs; invariant oracle on every position the real code reports',
    text='Every program of a depth-1 production set, the representative set and the definition-level set, in its plain form, with every string literal made multi-line (each literal position and all), and with non-ASCII text in strings and comments, under every layout with <=1 gap deviating from canonical over a 6-separator alphabet (glued, newline, newline+indent, line comment, tab, CRLF; quick) / a 10-separator alphabet (the 8 of C17 plus a non-ASCII line comment and CRLF; thorough); every single-piece delete/insert/replace of the representative programs (parse errors); 25 programs that produce check diagnostics with notes and fixes and 14 that raise at run time, each under the same variants and layouts, through the check, `run` and JSON-session entry points; `garden check --json` and `garden reftest-position` through the real CLI on a bounded subset. Oracle on every position obtained (AST nodes, comments, parse errors and notes, diagnostics, notes, fixes, exceptions, session responses, CLI output): 0 <= start <= end <= len; both on UTF-8 character boundaries; line_number = number of LF before start; column = start - line start (bytes, the unit position.rs and the lexer use); end_line_number / end_column likewise for the end offset (when the end offset sits just after a newline the line of the last byte is accepted too); check --json line numbers are the 0-based ones plus 1. Exhaustive within these bounds.',
    note='Positions that point into another file (prelude) are checked against that file when it is in the repository, else counted. The LSP line/character mapping is C29. Trees deeper than the sets and more than one deviating gap are not covered.',
    design_ref='DESIGN.md §6 C23',
)

import bisect
import time
import concurrent.futures
import json
import os
import re
from .. import gast, gen, layout
from ..build import REPO
from ..core import Machinery
from . import c17, c18

NA_COMMENT = " // " + layout.NONASCII + "\n"
CRLF = "\r\n"
layout.GAP_NAME.setdefault(CRLF, "crlf")
POS_KEYS = {"start_offset", "end_offset", "line_number", "end_line_number", "column", "end_column"}
MLSTR = re.compile(rb'"(?:\\.|[^"\\])*"')

X = layout.X
NODE = "token or ast node"
CLASS_ORDER = ["plain", "multi-line span", "CR on the line", "non-ASCII text on the line", "span contains a multi-line string literal"]


# ---------------------------------------------------------------- the oracle

class Src:
    __slots__ = ("text", "b", "starts")

    def __init__(self, text):
        self.text = text
        self.b = text.encode("utf-8")
        self.starts = [0] + [i + 1 for i, c in enumerate(self.b) if c == 10]

    def line_of(self, off):
        return bisect.bisect_right(self.starts, off) - 1


def check_pos(p, S):
    """List of inconsistent fields of position p against source S (empty = consistent)."""
    s, e = p["start_offset"], p["end_offset"]
    n = len(S.b)
    if s > e:
        return ["start_offset > end_offset"]
    if e > n:
        return ["end_offset beyond the end of the file"]
    bad = []
    if s < n and (S.b[s] & 0xC0) == 0x80:
        bad.append("start_offset inside a character")
    if e < n and (S.b[e] & 0xC0) == 0x80:
        bad.append("end_offset inside a character")
    ls = S.line_of(s)
    if p["line_number"] != ls:
        bad.append("line_number")
    elif p["column"] != s - S.starts[ls]:
        bad.append("column")
    le = S.line_of(e)
    cands = [le]
    if e > s and S.b[e - 1] == 10:
        cands.append(le - 1)      # exclusive end just after a newline: the line of the last byte is accepted too
    if p["end_line_number"] not in cands:
        bad.append("end_line_number")
    elif p["end_column"] != e - S.starts[p["end_line_number"]]:
        bad.append("end_column")
    return bad


def char_class(p, S):
    s, e = p["start_offset"], min(p["end_offset"], len(S.b))
    span = S.b[s:e] if s <= e else b""
    if any(b"\n" in m.group(0) for m in MLSTR.finditer(span)):
        return "span contains a multi-line string literal"
    if b"\n" in span:
        return "multi-line span"
    ls = S.starts[S.line_of(min(s, len(S.b)))]
    le = S.starts[S.line_of(e)]
    ctx_bytes = S.b[ls:s] + span + S.b[le:e]
    if any(c >= 0x80 for c in ctx_bytes):
        return "non-ASCII text on the line"
    if b"\r" in S.b[ls:e + 1]:
        return "CR on the line"
    return "plain"


def msg_class(m):
    m = re.sub(r"`[^`]*`", "`..`", m)
    return re.sub(r"\d+", "N", m)[:70]


def walk_positions(obj, path=""):
    """Every position-shaped dict inside a JSON value."""
    if isinstance(obj, dict):
        if POS_KEYS <= obj.keys():
            yield path, obj
            return
        for k, v in obj.items():
            yield from walk_positions(v, k)
    elif isinstance(obj, list):
        for v in obj:
            yield from walk_positions(v, path)


class Judge:
    def __init__(self, ctx):
        self.ctx = ctx
        self.n = 0
        self.by_source = {}
        self.classes = {}
        self.other_files = {}
        self.foreign = 0
        self.node_cache = {}
        self.found = {}
        self.t_start = time.time()

    def node_positions(self, S):
        """The positions of the AST nodes and comments of a source and the spans of its multi-line tokens
        (one extra front job, only when a reported position is inconsistent)."""
        if S.text not in self.node_cache:
            r = self.ctx.pool.one({"op": "front", "src": S.text, "want": ["positions", "comments", "tokens"]})
            ps = list(r.get("positions", [])) + [c["position"] for c in r.get("comments", [])]
            if len(self.node_cache) > 2000:
                self.node_cache.clear()
            self.node_cache[S.text] = ({key(p) for p in ps}, {(a, b) for a, b in r.get("tokens", []) if b"\n" in S.b[a:b]})
        return self.node_cache[S.text]

    def report(self, source, p, S, bad, cls, detail):
        """A reported position that is exactly the position of an AST node / comment / multi-line token is the same defect as
        that node's (source `token or ast node`); the reporting source is recorded in the detail."""
        if source not in (NODE, "comment"):
            nodes, mltoks = self.node_positions(S)
            if key(p) in nodes or (p["start_offset"], p["end_offset"]) in mltoks:
                source, via = NODE, source
            else:
                via = source
        else:
            via = source
        for field in bad:
            slot = self.found.setdefault((source, field), {})
            ent = slot.get(cls)
            if ent is None:
                d = dict(detail)
                d.update(position=p, expected=expected(p, S), reported_by=via,
                         span=S.b[p["start_offset"]:p["end_offset"]].decode("utf-8", "replace")[:200] if p["start_offset"] <= p["end_offset"] else None)
                ent = slot[cls] = {"detail": d, "count": 0, "through": {}}
            ent["count"] += 1
            k = via.split(" `")[0]
            ent["through"][k] = ent["through"].get(k, 0) + 1

    def flush(self):
        """Emit the violations: one signature per (source, field), labelled with the LEAST special character class in which the
        pair is inconsistent (plain < multi-line span < CR < non-ASCII < multi-line string literal); the other classes in which it
        also fails are listed in the detail."""
        for (source, field), slot in sorted(self.found.items()):
            cls = min(slot, key=CLASS_ORDER.index)
            d = dict(slot[cls]["detail"])
            d["reported_through"] = {}
            d["instances_by_class"] = {}
            n = 0
            for c, e in sorted(slot.items()):
                n += e["count"]
                d["instances_by_class"][c] = e["count"]
                for k, v in e["through"].items():
                    d["reported_through"][k] = d["reported_through"].get(k, 0) + v
            sig = f"{source}: {field} ({cls})"
            self.ctx.violation(sig, d, d.get("cli"))
            self.ctx.violations[sig]["count"] = n

    def other(self, path):
        """Source of another file a position may point into (prelude and friends are embedded in the binary from the repository).
        Only trusted when the file is not newer than the binary that embeds it."""
        name = os.path.basename(path)
        if name not in self.other_files:
            cand = os.path.join(REPO, "src", name)
            ok = name.startswith("__") and os.path.exists(cand) and os.path.getmtime(cand) <= os.path.getmtime(self.ctx.binary)
            self.other_files[name] = Src(open(cand, encoding="utf-8").read()) if ok else None
        return self.other_files[name]

    def other_is_stale(self, path):
        """The repository file or the binary changed while the check was running (another session committed / rebuilt)."""
        cand = os.path.join(REPO, "src", os.path.basename(path))
        try:
            return os.path.getmtime(cand) > self.t_start or os.path.getmtime(self.ctx.binary) > self.t_start
        except OSError:
            return True

    def pos(self, source, p, S, own_paths, detail, name=None):
        """Check one position. own_paths: path names that denote S. name: the identifier the position must cover, when known."""
        path = p.get("path")
        foreign = path is not None and os.path.basename(path) not in own_paths
        if foreign:
            S2 = self.other(path)
            if S2 is None:
                self.foreign += 1
                return
            S, source = S2, source + " (position in " + os.path.basename(path) + ")"
        bad = check_pos(p, S)
        if foreign and (bad or (name is not None and S.b[p["start_offset"]:p["end_offset"]].decode("utf-8", "replace") != name)):
            # positions into embedded files are only judged when the repository copy is provably the embedded text
            if self.other_is_stale(path) or (name is not None and S.b[p["start_offset"]:p["end_offset"]].decode("utf-8", "replace") != name):
                self.foreign += 1
                return
        self.n += 1
        self.by_source[source.split(" `")[0]] = self.by_source.get(source.split(" `")[0], 0) + 1
        cls = char_class(p, S) if not bad or "beyond" not in bad[0] else "plain"
        self.classes[cls] = self.classes.get(cls, 0) + 1
        if bad:
            self.report(source, p, S, bad, cls, detail)

    def multi(self, source, p, sources, detail):
        """A session position: consistent if it is consistent with one of the inputs sent so far."""
        self.n += 1
        self.by_source[source] = self.by_source.get(source, 0) + 1
        best = None
        for S in sources:
            bad = check_pos(p, S)
            if not bad:
                cls = char_class(p, S)
                self.classes[cls] = self.classes.get(cls, 0) + 1
                return
            if best is None or len(bad) < len(best[0]):
                best = (bad, S)
        bad, S = best
        cls = char_class(p, S) if "beyond" not in bad[0] else "plain"
        self.report(source, p, S, bad, cls, detail)


def key(p):
    return (p["start_offset"], p["end_offset"], p["line_number"], p["end_line_number"], p["column"], p["end_column"])


def expected(p, S):
    s, e = p["start_offset"], p["end_offset"]
    if s > e or e > len(S.b):
        return None
    ls, le = S.line_of(s), S.line_of(e)
    return {"line_number": ls, "column": s - S.starts[ls], "end_line_number": le, "end_column": e - S.starts[le]}


# ---------------------------------------------------------------- program sets

def tiny_trees():
    Lq = [("Int", -3), layout.S_AB, X]
    S = gen.leaf_statements()
    B = gen.bodies(Lq + S[:1], [X, ("Break",)])
    return list(gen.productions(Lq, B, S))


# programs that make the checker speak (diagnostics with notes and fixes); a string literal sits before the interesting
# token wherever the grammar allows, so that its multi-line / non-ASCII variants shift what follows
DIAG = [
    ("unused let", 'fun f() {\n  let v = "a b"\n  1\n}\n'),
    ("unused let after string", 'fun f() {\n  foo("a b", 1) let v = 2\n  1\n}\n'),
    ("type error", 'fun f(): Int {\n  1 + "a b"\n}\n'),
    ("type error after string", 'fun f(): String {\n  "a b" ^ 1\n}\n'),
    ("unbound variable", 'fun f() {\n  print("a b") nosuch\n}\n'),
    ("unbound function", 'fun f() {\n  nosuch("a b", nosuch2)\n}\n'),
    ("arity", 'fun g() {}\n\nfun f() {\n  g("a b", 1)\n}\n'),
    ("unnecessary return", 'fun f(): String {\n  return "a b"\n}\n'),
    ("unnecessary let", 'fun f(): String {\n  let v = "a b"\n  v\n}\n'),
    ("unused literal", 'fun f() {\n  "a b"\n  1\n}\n'),
    ("unused literal after string", 'fun f() {\n  "a b" 2\n  1\n}\n'),
    ("unused type params", 'fun f<T, U>(a: T) {\n  a\n}\n'),
    ("unused type param only", 'fun f<T>() {}\n'),
    ("duplicate function", '/// Doc.\nfun f() {}\n\nfun f() {}\n'),
    ("duplicate struct field", 'struct S {\n  /// Doc.\n  a: Int,\n  a: String,\n}\n'),
    ("duplicate enum variant", 'enum E {\n  A,\n  A(Int),\n}\n'),
    ("duplicate test", 'test t {}\n\ntest t { assert("a b" == "a b") }\n'),
    ("struct literal fields", 'struct S {\n  a: Int,\n}\n\nfun f() {\n  S{ a: "a b", b: 1 }\n}\n'),
    ("list len compare", 'fun f(xs: List<Int>): Bool {\n  print("a b") xs.len() == 0\n}\n'),
    ("unknown type", 'fun f(a: Nosuch): Nosuch2 {\n  "a b"\n}\n'),
    ("match arms", 'fun f(o: Option<Int>) {\n  match o {\n    Some(v) => "a b"\n    None => 1\n    Nosuch => 2\n  }\n}\n'),
    ("unreachable", 'fun f(): Int {\n  return 1\n  "a b"\n}\n'),
    ("method", 'method m(this: String): Int {\n  this.nosuch("a b") this.len(1)\n}\n'),
    ("import", 'import "./nosuch.gdn" as ns\n\nimport "a b"\n'),
    ("toplevel", 'let v = "a b" + 1\nnosuch\n// done\n'),
    # fixes whose range starts at the end of a *neighbouring* node (so gaps between operands move its start)
    ("repeated bool", 'fun f(a: Bool, b: Bool): Bool {\n  print("a b") a && b && a\n}\n'),
    ("repeated bool in parentheses", 'fun f(a: Bool, b: Bool): Bool {\n  (a || b) || (a)\n}\n'),
]

# programs that raise at run time (exception / assertion / tick limit), error site after a string on the same line where possible
RUN = [
    ("unbound", 'let s = "a b"\nprint(s) nosuch(s)\n'),
    ("type error in function", 'fun f(x) {\n  "a b" + x\n}\n\nf(1)\n'),
    ("type error in argument", 'fun f(x: Int) {}\n\nf("a b")\n'),
    ("prelude error", 'let xs = ["a b"]\nxs.get(5)\n'),
    ("throw", 'fun f() {\n  print("a b") throw("a b")\n}\n\nf()\n'),
    ("assert", 'let s = "a b"\nassert("a b" == "c")\n'),
    ("assert in test-like function", 'fun f(s) {\n  assert(s == "a b")\n}\n\nf("c")\n'),
    ("let hint", 'let x: Int = "a b"\n'),
    ("method missing", '"a b".nosuch()\n'),
    ("match", 'fun f(o) {\n  match o {\n    None => "a b"\n  }\n}\n\nf(Some("a b"))\n'),
    ("tick limit", 'let s = "a b"\nwhile True { s }\n'),
    ("arity", 'fun f() {}\n\nf("a b", 1)\n'),
    ("dot access", 'let s = "a b"\ns.fld\n'),
    ("return type", 'fun f(): Int {\n  "a b"\n}\n\nprint("a b") f()\n'),
]


def variants_of(ctx, bases, j_outcome):
    """plain + every multi-line string variant (each literal position and all) + the non-ASCII variant of each."""
    ml = []
    for b in bases:
        for v in layout.string_variants(b):
            if v.variant.startswith("multi-line"):
                ml.append(v)
    ok, rejected = layout.derive(ctx, ml)
    if rejected:
        j_outcome("multi-line variant does not parse (dropped)", rejected)
    na = [layout.nonascii_variant(b) for b in bases + ok]
    na_ok, rejected = layout.derive(ctx, [v for v in na if v is not None])
    if rejected:
        j_outcome("non-ascii variant does not parse (dropped)", rejected)
    return bases, ok, na_ok


def alphabet_for(b, reduced=False):
    na = "non-ascii" in b.variant
    if reduced:
        return ["", "\n", "\n    ", NA_COMMENT if na else " // c\n", "\t", CRLF]
    return [g if not (na and g == " // c\n") else NA_COMMENT for g in layout.GAPS] + ([" // c\n"] if na else [NA_COMMENT]) + [CRLF]


def explore_alpha(ctx, bases, want, reduced=False, job=None):
    """As layout.explore with k = 1 but a per-base alphabet and an arbitrary job builder; yields (base, devs, text, result)."""
    job = job or (lambda t: {"op": "front", "src": t, "want": want})
    buf = []

    def flush():
        res = ctx.pool.map([job(t) for _, _, t in buf], batch=32, timeout=60)
        for (b, d, t), r in zip(buf, res):
            yield b, d, t, r

    for b in bases:
        buf.append((b, (), b.render()))
        for d in layout.deviations(b, 1, alphabet_for(b, reduced)):
            buf.append((b, d, b.render(d)))
        if len(buf) >= 30000:
            yield from flush()
            buf = []
    if buf:
        yield from flush()


OWN = {"main.gdn", "__user.gdn"}


def run(ctx):
    t0 = time.time()
    J = Judge(ctx)
    quick = ctx.quick
    n_cases = n_jobs = 0

    def mk(progs):
        return layout.prepare(ctx, [(repr(p)[:200], layout.kind_of(p), gast.program_src(p)) for p in progs])

    def det(b, d, t, **kw):
        return dict({"kind": b.kind, "variant": b.variant, "deviation": layout.dev_name(b, d), "gap": [b.gap_context(i) for i, _ in d], "src": t}, **kw)

    # ---- (1) AST node, comment and parse-error positions over the layout set
    trees = tiny_trees() if quick else layout.quick_trees()
    reps = layout.rep_trees() + layout.string_position_trees()
    items = layout.definition_items(True)
    if quick:
        items = items[::3]
    groups = [("depth1", mk([layout.program_of(t) for t in trees])), ("representatives", mk([layout.program_of(t) for t in reps])), ("definitions", mk(items))]
    if not quick:
        groups.append(("depth2", mk([layout.program_of(t) for t in c17.depth2_quick()])))
    stride = int(os.environ.get("GV_LAYOUT_STRIDE", "1"))
    if stride > 1:
        ctx.cap(f"development restriction stride={stride}")
        groups = [(g, bs[::stride]) for g, bs in groups]
    n_ml = n_na = 0
    for gname, bases in groups:
        plain, ml, na = variants_of(ctx, bases, ctx.outcome)
        ctx.bound(f"{gname}: programs (plain / multi-line string variants / non-ascii variants)", [len(plain), len(ml), len(na)])
        for b, d, t, r in explore_alpha(ctx, plain + ml + na, ["positions", "comments"], reduced=quick):
            n_cases += 1
            n_jobs += 1
            if "parse_errors" not in r:
                ctx.violation(f"front job failed: {gname}", {"src": t, "result": str(r)[:300]})
                continue
            S = Src(t)
            n_ml += "multi-line" in b.variant
            n_na += "non-ascii" in b.variant
            base_detail = det(b, d, t, cli="garden reftest-ast / check --json <file with src>")
            for p in r.get("positions", []):
                J.pos(NODE, p, S, OWN, base_detail)
            for c in r.get("comments", []):
                J.pos("comment", c["position"], S, OWN, base_detail)
            for e in r["parse_errors"]:
                J.pos(f"parse error `{msg_class(e['message'])}`", e["position"], S, OWN, base_detail)
                for nt in e.get("notes", []):
                    J.pos(f"parse error note `{msg_class(nt['message'])}`", nt["position"], S, OWN, base_detail)
    print(f"  [c23] layouts {time.time() - t0:.1f}s cases={n_cases} positions={J.n}", flush=True)

    # ---- (2) broken variants: single-piece edits of the representatives (and their multi-line / non-ascii variants)
    rep_bases = groups[1][1]
    plain, ml, na = variants_of(ctx, rep_bases, ctx.outcome)
    ebases = plain + ml + na if not quick else plain + ml[::3] + na[::3]
    buf = []
    n_perr = 0
    for b in ebases:
        for name, i, t in c18.edits(b):
            buf.append((b, name, t))
    res = ctx.pool.map([{"op": "front", "src": t, "want": []} for _, _, t in buf], batch=64, timeout=60)
    for (b, name, t), r in zip(buf, res):
        n_cases += 1
        n_jobs += 1
        if "parse_errors" not in r:
            ctx.violation("front job failed: edits", {"src": t, "result": str(r)[:300]})
            continue
        S = Src(t)
        for e in r["parse_errors"]:
            n_perr += 1
            d = {"kind": b.kind, "variant": b.variant, "edit": name, "src": t, "cli": "garden check --json <file with src>"}
            J.pos(f"parse error `{msg_class(e['message'])}`", e["position"], S, OWN, d)
            for nt in e.get("notes", []):
                J.pos(f"parse error note `{msg_class(nt['message'])}`", nt["position"], S, OWN, d)
    ctx.bound("edit seeds", len(ebases))
    print(f"  [c23] edits {time.time() - t0:.1f}s cases={n_cases} parse errors={n_perr}", flush=True)

    # ---- (3) check diagnostics, notes, fixes
    dbases = layout.prepare(ctx, [(name, "diag:" + name, src) for name, src in DIAG])
    plain, ml, na = variants_of(ctx, dbases, ctx.outcome)
    n_diag = n_fix = n_note = 0
    crashes = []
    diag_seen = set()
    cli_cases = []
    for b, d, t, r in explore_alpha(ctx, plain + ml + na, ["check"], reduced=quick):
        n_cases += 1
        n_jobs += 1
        if "parse_errors" not in r:
            ctx.outcome("check job panicked (not a position verdict): " + str(r.get("panic", r))[:90])
            crashes.append((t, str(r)[:200]))
            continue
        S = Src(t)
        dd = det(b, d, t, cli="garden check --json <file with src>")
        for e in r["parse_errors"]:
            J.pos(f"parse error `{msg_class(e['message'])}`", e["position"], S, OWN, dd)
        for dg in r.get("diagnostics", []):
            n_diag += 1
            mc = msg_class(dg["message"])
            diag_seen.add(mc)
            J.pos(f"diagnostic `{mc}`", dg["position"], S, OWN, dd)
            for nt in dg["notes"]:
                n_note += 1
                J.pos(f"diagnostic note `{msg_class(nt['message'])}`", nt["position"], S, OWN, dd)
            for fx in dg["fixes"]:
                n_fix += 1
                J.pos(f"fix `{msg_class(fx['description'])}`", fx["position"], S, OWN, dd)
        if not d or (len(cli_cases) < (400 if quick else 2000) and d[0][1] in ("\n    ", NA_COMMENT, " // c\n", CRLF)):
            inproc = [(e["message"], e["position"]) for e in r["parse_errors"]] or [(g["message"], g["position"]) for g in r.get("diagnostics", [])]
            cli_cases.append((b, d, t, inproc))
    if crashes:
        ctx.assume(f"{len(crashes)} check jobs panicked and yield no position (a crash is C01/C02's subject, e.g. {crashes[0][0]!r}: {crashes[0][1]})")
    ctx.outcome("diagnostics", n_diag)
    ctx.outcome("diagnostic notes", n_note)
    ctx.outcome("fixes", n_fix)
    ctx.bound("diagnostic programs", len(DIAG))
    ctx.bound("distinct diagnostic messages", len(diag_seen))
    if len(diag_seen) < 15 or n_fix == 0 or n_note == 0:
        raise Machinery(f"vacuous: diagnostic classes={len(diag_seen)} fixes={n_fix} notes={n_note}")
    print(f"  [c23] diagnostics {time.time() - t0:.1f}s cases={n_cases}", flush=True)

    # ---- (4) run-time exception positions, (5) JSON-session response positions
    rbases = layout.prepare(ctx, [(name, "run:" + name, src) for name, src in RUN])
    plain, ml, na = variants_of(ctx, rbases, ctx.outcome)
    kinds = {}
    for b, d, t, r in explore_alpha(ctx, plain + ml + na, None, reduced=True, job=lambda t: {"op": "run", "src": t, "tick_limit": 20000}):
        n_cases += 1
        n_jobs += 1
        S = Src(t)
        dd = det(b, d, t, cli="garden run <file with src>")
        if "outcome" in r:
            k = r["outcome"]["kind"]
            kinds[k] = kinds.get(k, 0) + 1
            if r["outcome"].get("position"):
                J.pos(f"run-time {k}", r["outcome"]["position"], S, OWN, dd)
        elif "parse_errors" in r:
            kinds["parse error"] = kinds.get("parse error", 0) + 1
            for e in r["parse_errors"]:
                J.pos(f"parse error `{msg_class(e['message'])}`", e["position"], S, OWN, dd)
        else:
            ctx.violation(f"run job failed on a position program: {'timeout' if 'timeout' in r else 'crash'}", {"src": t, "result": str(r)[:300]})
    for k, n in kinds.items():
        ctx.outcome(f"run outcome:{k}", n)
    if not {"exception", "assertion", "tick_limit"} <= kinds.keys():
        raise Machinery(f"vacuous: run outcomes {kinds}")
    print(f"  [c23] run {time.time() - t0:.1f}s cases={n_cases}", flush=True)
    n_sess = 0
    sess_bases = plain + ml + na + dbases
    req = lambda s: json.dumps({"method": "run", "input": s})
    for b, d, t, r in explore_alpha(ctx, sess_bases, None, reduced=True,
                                    job=lambda t: {"op": "session", "tick_limit": 20000, "requests": [req(t), req('nosuch_at_all("x")')]}):
        n_cases += 1
        n_jobs += 1
        if "responses" not in r:
            ctx.violation(f"session job failed on a position program: {'timeout' if 'timeout' in r else 'crash'}", {"src": t, "result": str(r)[:300]})
            continue
        srcs = [Src(t), Src('nosuch_at_all("x")')]
        dd = det(b, d, t, cli="garden json  (one `run` request with src as input)")
        for ri, resp in enumerate(r["responses"]):
            for line in resp:
                try:
                    obj = json.loads(line)
                except ValueError:
                    continue
                for where, p in walk_positions(obj):
                    n_sess += 1
                    if os.path.basename(p.get("path") or "__user.gdn") not in OWN:
                        J.pos("session response", p, srcs[0], OWN, dd)
                    else:
                        J.multi("session response", p, srcs[:ri + 1], dd)
    ctx.outcome("session response positions", n_sess)
    if n_sess == 0:
        raise Machinery("vacuous: no position in any session response")
    print(f"  [c23] sessions {time.time() - t0:.1f}s cases={n_cases}", flush=True)

    # ---- (6) `garden check --json` through the CLI, (7) go-to-definition
    os.makedirs(os.path.join(ctx.scratch, "pos"), exist_ok=True)

    def cli_check(arg):
        i, (b, d, t, _) = arg
        path = ctx.tmpfile(f"pos/c{i}.gdn", t)
        rc, out, err = ctx.cli(["check", "--json", path], stdin=b"", timeout=120)
        os.remove(path)
        return rc, out, err[-300:], os.path.basename(path)

    with concurrent.futures.ThreadPoolExecutor(16) as ex:
        results = list(ex.map(cli_check, enumerate(cli_cases)))
    n_cli = n_cli_skipped = n_cli_unmatched = 0
    for (b, d, t, inproc), (rc, out, err, fname) in zip(cli_cases, results):
        n_cases += 1
        n_jobs += 1
        if rc not in (0, 1):
            ctx.outcome(f"`check --json` ended with {rc} (no positions; a crash is C01's subject)")
            continue
        # the CLI drops a reftest footer and re-terminates lines (`lines()`), which is the identity on LF-terminated text without CR
        t_cli = "".join(l + "\n" for l in t.split("\n")[:-1]) if "\r" not in t and t.endswith("\n") else None
        if t_cli != t:
            n_cli_skipped += 1
            continue
        S = Src(t)
        dd = det(b, d, t, cli="garden check --json <file with src>")
        objs = []
        for line in out.splitlines():
            line = line.strip()
            if line.startswith("{"):
                try:
                    objs.append(json.loads(line))
                except ValueError:
                    pass
        # `check --json` prints line/column pairs only; the offsets come from the same diagnostic of the in-process run
        if len(objs) != len(inproc) or any(o.get("message") != m for o, (m, _) in zip(objs, inproc)):
            n_cli_unmatched += 1
            continue
        for o, (m, p) in zip(objs, inproc):
            n_cli += 1
            q = {"start_offset": p["start_offset"], "end_offset": p["end_offset"], "line_number": o["line_number"] - 1, "end_line_number": o["end_line_number"] - 1,
                 "column": o["column"], "end_column": o["end_column"]}
            if o["line_number"] < 1:
                ctx.violation("check --json: line_number is not 1-indexed", dict(dd, diagnostic=o), dd["cli"])
                continue
            if key(q) != key(p):
                ctx.violation("check --json: line/column differ from the in-process diagnostic position", dict(dd, diagnostic=o, position=p), dd["cli"])
            J.pos("check --json", q, S, OWN, dd)
    ctx.outcome("check --json diagnostics", n_cli)
    ctx.outcome("check --json files skipped (CLI re-terminates lines: CR / no final newline)", n_cli_skipped)
    ctx.outcome("check --json files whose diagnostics do not line up with the in-process run (skipped)", n_cli_unmatched)
    if n_cli == 0:
        raise Machinery("vacuous: `check --json` printed no diagnostic")
    print(f"  [c23] check --json {time.time() - t0:.1f}s files={len(cli_cases)}", flush=True)

    GOTO = ['fun foo(a: Int): Int {\n  let s = "a b" let v = a\n  v\n}\n\nstruct Sss {\n  fld: Int,\n}\n\nenum Eee {\n  Aaa,\n  Bbb(Int),\n}\n\n'
            'fun bar(e: Eee, t: Sss): Int {\n  print("a b") foo(t.fld)\n  match e {\n    Aaa => "a b".len()\n    Bbb(n) => n\n  }\n}\n']
    gbases = layout.prepare(ctx, [("goto", "goto", s) for s in GOTO])
    plain, ml, na = variants_of(ctx, gbases, ctx.outcome)
    gcases = []
    for b in plain + [v for v in ml if v.variant.endswith("@all")] + [v for v in na if "@" not in v.variant or "@all" in v.variant]:
        t = b.render()
        tb = t.encode("utf-8")
        off = 0
        offs = []
        for p, g in zip(b.pieces, b.gaps):
            off += len(g.encode("utf-8"))
            if b.classes[len(offs)] == "tok" and (p[0].isalpha() or p[0] == "_") and p not in layout.KEYWORDS:
                gcases.append((b, t, off, p))
            offs.append(off)
            off += len(p.encode("utf-8"))

    def cli_goto(arg):
        i, (b, t, off, _) = arg
        path = ctx.tmpfile(f"pos/g{i}.gdn", t)
        rc, out, err = ctx.cli(["reftest-position", path, str(off)], stdin=b"", timeout=120)
        os.remove(path)
        return rc, out, err[-300:], os.path.basename(path)

    with concurrent.futures.ThreadPoolExecutor(16) as ex:
        results = list(ex.map(cli_goto, enumerate(gcases)))
    n_goto = 0
    for (b, t, off, ident), (rc, out, err, fname) in zip(gcases, results):
        n_cases += 1
        n_jobs += 1
        if rc != 0:
            ctx.outcome(f"`reftest-position` ended with {rc} (no position)")
            continue
        out = out.strip()
        if not out.startswith("{"):
            continue
        p = json.loads(out.splitlines()[-1])
        n_goto += 1
        J.pos("go-to-definition", p, Src(t), {fname}, {"variant": b.variant, "src": t, "offset": off, "identifier": ident, "cli": "garden reftest-position <file with src> <offset>"},
              name=ident)
    ctx.outcome("go-to-definition answers", n_goto)
    ctx.bound("go-to-definition offsets", len(gcases))
    if n_goto < 10:
        raise Machinery(f"vacuous: go-to-definition answered {n_goto} times")
    print(f"  [c23] goto {time.time() - t0:.1f}s", flush=True)

    J.flush()
    for s, n in sorted(J.by_source.items()):
        ctx.outcome(f"positions from {s}", n)
    for c, n in sorted(J.classes.items()):
        ctx.outcome(f"class: {c}", n)
    ctx.outcome("positions in files not available (not checked)", J.foreign)
    need = {"span contains a multi-line string literal", "non-ASCII text on the line", "CR on the line", "plain"}
    if not need <= J.classes.keys() or n_ml == 0 or n_na == 0:
        raise Machinery(f"vacuous: character classes seen {sorted(J.classes)} multi-line layouts={n_ml} non-ascii layouts={n_na}")
    ctx.add(states=n_cases, transitions=n_jobs, evaluations=J.n, nontrivial=J.n - J.classes.get("plain", 0))
    ctx.bound("gap alphabet", ["glued", "newline", "newline+indent", "comment (non-ascii in the non-ascii variants)", "tab", "crlf"] if quick else
              [layout.GAP_NAME.get(g, g) for g in layout.GAPS] + ["non-ascii comment", "crlf"])
    ctx.sample({"source": "ast node", "src": 'let v = "a\n  x"\n', "checked": "every node position: offsets in range, on char boundaries, line/column = offsets"})
    ctx.sample({"source": "diagnostic + fix", "src": DIAG[0][1]})
    ctx.sample({"source": "session response", "src": RUN[1][1]})
    return ("every program of the sets (plain, each/all string literals multi-line, non-ASCII strings and comments) under the canonical layout and every single-gap deviation over the "
            "6- (quick) / 10-separator (thorough) alphabet; single-piece edits; diagnostic, run-time and session programs under the same variants; CLI `check --json` and `reftest-position` on bounded subsets. "
            "Every position in every answer is checked against the byte offsets of the text that was sent. Non-trivial = the position lies on a line with a multi-line string literal, "
            "non-ASCII text or CR, or spans lines.")
