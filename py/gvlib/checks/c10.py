"""C10 `:abort` returns the session to a clean top level."""
REG = dict(
    engine='E2-bfs',
    technique='bounded-exhaustive enumeration of request histories (setup x failing site x further step x :abort x probe) replayed on the real JSON-session handler; differential against a fresh session of the same implementation and against the session itself before the failing request',
    text="Histories = (subset of 3 definitions and 2 top-level lets, each its own request; quick: empty/singletons/all, thorough: all 32) x (failing request: error at call depth 0-3 x inside {no block, if, while, for, match arm, a prelude function's frame}, a fresh local at every level, preceded or not by a completed top-level let in the same request) x (nothing | :replace 5 | :skip | a second failing request | an expression evaluated while stopped) x :abort x probes, every probe in its own session. Oracle (a): every name of the history, `1 + 2` and a call of every defined function answer exactly as a fresh session that received only the definitions and `let name = literal` for the top-level variables. Oracle (b): :stack shows only the top-level frame, :fstmts is empty, :fvalues is a prefix of its value before the failing request, :locals = before-snapshot + completed top-level lets of the failing request, :resume answers as in an idle session.",
    note="Value-stack sizes are never compared across sessions. Histories whose further step (:skip/:replace) panics before :abort are C09's subject and are only counted. 'Top-level variables' includes lets of the aborted request that completed at top level (DESIGN.md §5).",
    design_ref='DESIGN.md §6 C10',
)

import itertools
import json
import re

from ..core import Machinery
from ..bfs import run_req

DEFS = [  # (request, names occurring, call probes)
    ('fun inc(x) { x + 1 }', ["inc", "x"], ["inc(1)"]),
    ('enum Color { Red, Green(Int) }', ["Red", "Green"], ["Green(1)", "Red"]),
    ('struct P { y: Int }', ["y"], ["P{ y: 1 }"]),
]
LETS = [("v", "10"), ("w", '"s"')]
BLOCKS = ["none", "if", "while", "for", "match", "prelude-frame"]
FURTHER = ["none", ":replace 5", ":skip", "second-failure", "in-context evaluation"]
ANSI = re.compile(r"\x1b\[[0-9;]*m")


def site_body(kind, src):
    """Statements that bind a fresh local `e1` inside a block of the given kind and then raise."""
    if kind == "prelude-frame":
        # the error is raised inside a function of another namespace (the prelude's `or_throw`), whose frame is on top when the session stops
        return f'let e1 = {src} None.or_throw()'
    if kind == "none":
        return f'let e1 = {src} throw("boom")'
    if kind == "if":
        return f'if True {{ let e1 = {src} throw("boom") }}'
    if kind == "while":
        return f'while True {{ let e1 = {src} throw("boom") }}'
    if kind == "for":
        return f'for i1 in [{src}, 2] {{ let e1 = i1 throw("boom") }}'
    if kind == "match":
        return f'match Some({src}) {{ Some(m1) => {{ let e1 = m1 throw("boom") }} None => {{}} }}'
    raise ValueError(kind)


def site_names(kind):
    return ["e1"] + (["i1"] if kind == "for" else []) + (["m1"] if kind == "match" else [])


def chain(depth, kind):
    """Definitions c1..c<depth>: c<k> binds a fresh local and calls c<k-1>; c1 contains the failing site."""
    out = []
    if depth >= 1:
        out.append(f"fun c1(p1) {{ {site_body(kind, 'p1')} }}")
    for k in range(2, depth + 1):
        out.append(f"fun c{k}(p{k}) {{ let k{k} = p{k} + 1 c{k - 1}(k{k}) }}")
    return out


def answer(texts, panic=None):
    """Comparable projection of the (single) answer to a request: value / error messages / command output."""
    if panic is not None:
        m = panic["message"].split(" @ ")[0]
        return ("PANIC", re.sub(r"\d+", "N", m))
    out = []
    for t in texts:
        d = json.loads(t)
        k = next(iter(d["kind"]))
        body = d["kind"][k]
        if k in ("printed", "printed_stderr"):
            continue
        if k == "evaluate":
            v = body["value"]
            if "Ok" in v:
                out.append(("Ok", v["Ok"]))
            else:
                out.append(("Err", tuple(e["message"] for e in v["Err"])))
        elif k == "run_command":
            out.append(("cmd", ANSI.sub("", body["message"])))
        else:
            out.append((k, json.dumps(body, sort_keys=True)))
    return out[0] if len(out) == 1 else ("MULTI", tuple(out))


def parse_locals(msg):
    d = {}
    for line in msg.split("\n"):
        if not line.strip():
            continue
        name, _, val = line.partition(" ")
        d[name] = val.strip()
    return d


class Jobs:
    """Deduplicating job table: one session per distinct request sequence."""

    def __init__(self):
        self.index, self.reqs = {}, []

    def add(self, inputs):
        key = tuple(inputs)
        i = self.index.get(key)
        if i is None:
            i = self.index[key] = len(self.reqs)
            self.reqs.append(key)
        return i

    def run(self, ctx):
        jobs = [{"op": "session", "requests": [run_req(s) for s in r], "tick_limit": 100000} for r in self.reqs]
        res = ctx.pool.map(jobs, batch=24, timeout=30)
        for i, r in enumerate(res):
            if "timeout" in r:
                res[i] = ctx.pool.one(jobs[i], timeout=300)
        return res


def last_answer(r, n):
    """Answer to request number n-1 (0-based n-1) of a job with n requests, or a panic marker."""
    if "crash" in r or "timeout" in r:
        return ("DIED", str(r.get("crash") or r.get("timeout")))
    p = r.get("panic")
    if p is not None:
        if p["request"] == n - 1:
            return answer([], p)
        return ("EARLIER-PANIC", p["request"])
    return answer(r["responses"][n - 1])


def run(ctx):
    items = list(range(5))      # 0..2 definitions, 3..4 lets
    if ctx.quick:
        subsets = [()] + [(i,) for i in items] + [tuple(items)]
    else:
        subsets = [s for k in range(6) for s in itertools.combinations(items, k)]
    ctx.bound("setup_subsets", len(subsets))
    ctx.bound("call_depths", [0, 1, 2, 3])
    ctx.bound("block_kinds", BLOCKS)
    ctx.bound("further_steps", FURTHER)

    sites = [(d, k) for d in range(4) for k in BLOCKS]
    leaks = {}            # leak kind -> {site: example}
    clean = {s: 0 for s in sites}
    checked = {s: 0 for s in sites}
    n_cases = n_skipped = n_checks = 0
    total_cases = total_jobs = 0
    samples = []
    for sub in subsets:
        J = Jobs()          # one job table per setup subset (bounds memory; fresh-session references are shared inside it)
        cases = []
        defs = [DEFS[i] for i in sub if i < 3]
        lets = [LETS[i - 3] for i in sub if i >= 3]
        for depth in range(4):
            for kind in BLOCKS:
                ch = chain(depth, kind)
                setup = [d[0] for d in defs] + ch + [f"let {n} = {lit}" for n, lit in lets]
                for pre_let in (False, True):
                    call = f"c{depth}(7)" if depth else site_body(kind, "7") + " 0"
                    failing = ("let t0 = 5 " if pre_let else "") + call
                    completed = ([("t0", "5")] if pre_let else []) + ([("e1", "7")] if depth == 0 and kind in ("none", "prelude-frame") else [])
                    for further in FURTHER:
                        steps = []
                        if further == "second-failure":
                            steps = ['c1(8)' if depth else '1 + throw("again")']
                        elif further == "in-context evaluation":
                            steps = ["1 + 2"]
                        elif further != "none":
                            steps = [further]
                        hist = setup + [failing] + steps + [":abort"]
                        # names occurring anywhere in the history
                        names = [n for d in defs for n in d[1]] + [n for n, _ in lets]
                        names += [f"c{k}" for k in range(1, depth + 1)] + [f"p{k}" for k in range(1, depth + 1)] + [f"k{k}" for k in range(2, depth + 1)]
                        names += site_names(kind) + (["t0"] if pre_let else [])
                        toplevel_vars = {n for n, _ in lets} | {n for n, _ in completed}
                        definitions = {"inc", "Red", "Green"} | {f"c{k}" for k in range(1, 4)}
                        calls = [c for d in defs for c in d[2]] + [f"c{k}(1)" for k in range(1, depth + 1)]
                        probes = [(n, "toplevel-variable" if n in toplevel_vars else ("definition" if n in definitions else "local-name")) for n in names]
                        probes += [(c, "call") for c in calls] + [("1 + 2", "arithmetic")]
                        fresh = [d[0] for d in defs] + ch + [f"let {n} = {lit}" for n, lit in lets + completed]
                        case = dict(site=(depth, kind), pre_let=pre_let, further=further, hist=hist, setup=setup, completed=completed,
                                    n_hist=len(hist), probes=[], insp={}, before={})
                        case["abort_job"] = J.add(hist)
                        for q, cls in probes:
                            case["probes"].append((q, cls, J.add(hist + [q]), J.add(fresh + [q]), len(fresh) + 1))
                        for q in (":stack", ":fstmts", ":fvalues", ":locals", ":resume"):
                            case["insp"][q] = J.add(hist + [q])
                        for q in (":fvalues", ":locals", ":resume"):
                            case["before"][q] = (J.add(setup + [q]), len(setup) + 1)
                        cases.append(case)

        res = J.run(ctx)
        total_cases += len(cases)
        total_jobs += len(J.reqs)
        samples.append(cases[len(cases) // 3])
        for c in cases:
            site = c["site"]
            r0 = res[c["abort_job"]]
            nh = c["n_hist"]
            n_setup = len(c["setup"])
            if "crash" in r0 or "timeout" in r0:
                raise Machinery(f"history died before the probes: {c['hist']} -> {r0}")
            # the setup must be error-free and the failing request must fail (otherwise the generator is wrong)
            if r0.get("panic") is not None and r0["panic"]["request"] <= n_setup:
                raise Machinery(f"setup or failing request panicked: {c['hist']} -> {r0['panic']}")
            for i in range(n_setup):
                a = answer(r0["responses"][i])
                if a[0] != "Ok":
                    raise Machinery(f"setup request {c['hist'][i]!r} was not accepted: {a}")
            a_fail = answer(r0["responses"][n_setup])
            if a_fail not in (("Err", ("Exception: boom",)), ("Err", ("Exception: Called `or_throw` on a `None` value.",))):
                raise Machinery(f"generated failing request {c['hist'][n_setup]!r} did not fail with `boom`: {a_fail}")
            if r0.get("panic") is not None:
                # the further step (:skip / :replace / second request) panicked before :abort was reached: C09's subject
                n_skipped += 1
                ctx.outcome("further-step-panicked-before-abort (C09)")
                continue
            if answer(r0["responses"][nh - 1]) != ("cmd", "Aborted"):
                raise Machinery(f":abort was not acknowledged: {answer(r0['responses'][nh - 1])}")
            n_cases += 1
            case_leaks = []

            def leak(kind, info):
                case_leaks.append(kind)
                ex = leaks.setdefault(kind, {})
                cur = ex.get(site)
                cand = dict(info, history=c["hist"], further=c["further"], pre_let=c["pre_let"])
                if cur is None or (len(c["hist"]), c["further"] != "none") < (len(cur["history"]), cur["further"] != "none"):
                    cand["instances"] = (cur or {}).get("instances", 0)
                    ex[site] = cand
                ex[site]["instances"] += 1

            # (a) expression probes: differential against a fresh session
            for q, cls, ja, jf, nf in c["probes"]:
                got = last_answer(res[ja], nh + 1)
                want = last_answer(res[jf], nf)
                n_checks += 1
                if want[0] in ("PANIC", "DIED", "EARLIER-PANIC", "MULTI"):
                    raise Machinery(f"fresh reference session misbehaved on probe {q!r}: {want} ({J.reqs[jf]})")
                if got == want:
                    continue
                if cls == "local-name" and got[0] == "Ok":
                    leak("local name visible", {"probe": q, "aborted_session": got, "fresh_session": want, "fresh_requests": list(J.reqs[jf])})
                else:
                    leak(f"{cls} probe answers differently", {"probe": q, "aborted_session": got, "fresh_session": want, "fresh_requests": list(J.reqs[jf])})
            # (b) inspection probes: the session against itself before the failing request
            ins = {q: last_answer(res[j], nh + 1) for q, j in c["insp"].items()}
            bef = {q: last_answer(res[j], n) for q, (j, n) in c["before"].items()}
            n_checks += 5
            for q, v in bef.items():
                if v[0] not in ("cmd", "Ok"):
                    raise Machinery(f"before-snapshot {q} misbehaved: {v} after {c['setup']}")
            if ins[":stack"] != ("cmd", "__toplevel__"):
                leak("frame", {"probe": ":stack", "aborted_session": ins[":stack"], "expected": "__toplevel__"})
            if ins[":fstmts"] != ("cmd", ""):
                leak("pending statement", {"probe": ":fstmts", "aborted_session": (ins[":fstmts"][0], ins[":fstmts"][1][:300]), "expected": ""})
            if ins[":fvalues"][0] != "cmd":
                leak("pending value", {"probe": ":fvalues", "aborted_session": ins[":fvalues"]})
            else:
                after_vals = [l for l in ins[":fvalues"][1].split("\n") if l][::-1]      # printed top first
                before_vals = [l for l in bef[":fvalues"][1].split("\n") if l][::-1]
                if after_vals != before_vals[:len(after_vals)]:
                    leak("pending value", {"probe": ":fvalues", "aborted_session_bottom_up": after_vals, "before_failing_request_bottom_up": before_vals})
            if ins[":locals"][0] != "cmd":
                leak("top-level variables changed", {"probe": ":locals", "aborted_session": ins[":locals"]})
            else:
                want_locals = dict(parse_locals(bef[":locals"][1]))
                want_locals.update(dict(c["completed"]))
                got_locals = parse_locals(ins[":locals"][1])
                if got_locals != want_locals:
                    extra = sorted(set(got_locals) - set(want_locals))
                    kind = "local name visible" if extra else "top-level variables changed"
                    leak(kind, {"probe": ":locals", "aborted_session": got_locals, "expected": want_locals})
            if ins[":resume"] != bef[":resume"]:
                leak("resume-not-idle", {"probe": ":resume", "aborted_session": ins[":resume"], "idle_session": bef[":resume"]})
            checked[site] += 1
            if not case_leaks:
                clean[site] += 1
            ctx.outcome("clean history" if not case_leaks else "history with leak")

    ctx.add(states=total_cases, transitions=total_jobs, nontrivial=n_cases)
    ctx.bound("histories", total_cases)
    ctx.bound("histories_reaching_abort", n_cases)
    ctx.bound("probe_checks", n_checks)
    ctx.bound("leak_free_histories_per_site", {f"depth{d}/{k}": f"{clean[(d, k)]}/{checked[(d, k)]}" for d, k in sites})
    if n_cases < total_cases // 2:
        raise Machinery(f"vacuous: only {n_cases} of {total_cases} histories reached :abort")
    for s in sites:
        if checked[s] == 0:
            raise Machinery(f"vacuous: no history of site class depth{s[0]}/{s[1]} reached the probes")
    for c in (samples[0], samples[len(samples) // 2], samples[-1]):
        ctx.sample({"history": c["hist"], "expression_probes": [p[0] for p in c["probes"]], "inspection_probes": list(c["insp"])})

    # signatures: leak kind + failing-site class; site classes are merged when a leak shows at every block kind of a depth / everywhere
    for kind in sorted(leaks):
        by_site = leaks[kind]
        groups = []
        full_depths = [d for d in range(4) if all((d, k) in by_site for k in BLOCKS)]
        if len(full_depths) == 4:
            groups.append(("any depth 0-3/any block kind", sites))
        else:
            for d in range(4):
                if d in full_depths:
                    groups.append((f"call depth {d}/any block kind", [(d, k) for k in BLOCKS]))
                else:
                    for k in BLOCKS:
                        if (d, k) in by_site:
                            groups.append((f"call depth {d}/block {k}", [(d, k)]))
        for label, members in groups:
            best = min((by_site[s] for s in members), key=lambda e: (len(e["history"]), e["further"] != "none", len(" ".join(e["history"]))))
            n = sum(by_site[s]["instances"] for s in members)
            detail = dict(best, leak=kind, sites=[f"depth{d}/{k}" for d, k in members])
            # a site class with no leak-free history at all makes the finding unconditional for that class
            sig = f"site={label} leak={kind}"
            confirm(ctx, detail)
            ctx.violation(sig, detail, cli_cmd="printf '%s\\n' " + " ".join("'" + run_req(s).replace("'", "'\\''") + "'" for s in detail["history"] + [detail["probe"]])
                          + " > h.jsonl && garden reftest-json-session h.jsonl   # last response = the probe")
            ctx.violations[sig]["count"] = n
    if not leaks and not all(clean[s] for s in sites):
        raise Machinery("inconsistent bookkeeping: no leak recorded but some site has no clean history")
    ctx.assume("the fresh reference session receives the same definition requests in the same order, then one `let name = literal` per expected top-level variable")
    return ("histories = setup subset x failing site (call depth x block kind) x completed-let prefix x further step, then :abort; per history ~10-25 probes, each in its own replayed session; "
            "`nontrivial` = histories that reached :abort with the failing request answered `Exception: boom` (all others are machinery errors or counted as C09 cases).")


def confirm(ctx, detail):
    """Replay history + probe on the real CLI (`reftest-json-session`) and compare the probe's answer with the in-process one."""
    import os
    from .c09 import count_json_values, non_output, QUIET_ENV
    reqs = [run_req(s) for s in detail["history"] + [detail["probe"]]]
    path = ctx.tmpfile("c10/history.jsonl", "".join(r + "\n" for r in reqs))
    rc, out, err = ctx.cli(["reftest-json-session", path], timeout=60, env=QUIET_ENV)
    vals = non_output(count_json_values(out))
    got = detail.get("aborted_session")
    detail["cli_exit"] = rc
    if got is not None and isinstance(got, (tuple, list)) and got and got[0] == "PANIC":
        if rc != 101:
            raise Machinery(f"adapter drift: in-process panic on {detail['history']} + {detail['probe']} but CLI exit {rc}")
        ctx.cov["cli_confirmed"] += 1
        return
    if len(vals) != len(reqs):
        raise Machinery(f"adapter drift: CLI gave {len(vals)} responses for {len(reqs)} requests (exit {rc}): {detail['history']} + {detail['probe']}")
    cli_answer = answer([json.dumps(vals[-1])])
    detail["cli_answer"] = (cli_answer[0], cli_answer[1][:300] if isinstance(cli_answer[1], str) else cli_answer[1])
    if got is not None and isinstance(got, (tuple, list)) and len(got) == 2 and isinstance(got[1], str) and cli_answer[0] == got[0]:
        if not cli_answer[1].startswith(got[1][:200]) and detail["probe"] != ":fstmts":
            raise Machinery(f"adapter drift: CLI answered {cli_answer} but in-process {got}")
    ctx.cov["cli_confirmed"] += 1
