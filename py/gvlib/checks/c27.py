"""C27 eval-up-to reports the value the expression takes when run."""
REG = dict(
    engine='E1-enum',
    technique='bounded-exhaustive enumeration of programs made of top-level expressions, top-level blocks and tests x caret offsets; the real eval-up-to is compared with the first value recorded for the same span by a source-instrumented run of the same program on the real interpreter',
    text='Programs: expression E (17 shapes quick / 25 thorough) in a statement context (let right-hand side, call argument, statement, last expression, if condition, loop header, closure body, local lets) placed in top-level expressions, a top-level block or a test, directly or inside an if / else / for (two iterations with different values) / match arm / closure / while (two iterations) body. Offsets: for every value expression of the context statements its first offset and its first own offset (not covered by a child expression) in quick; every byte offset of the context statements in thorough. The innermost expression at an offset is the smallest expression span containing it (generator bookkeeping, cross-checked against the parser\'s own position list); the reference value is the first `PROBE:` line printed when that span is wrapped in a printing identity function. Oracle: the reported value equals the reference; the reported position is that span; an error / no value only if the normal run fails first or never evaluates the span.',
    note='Re-evaluation-stable programs only (no item assigns a variable that another item reads; closures are called in the item that defines them, carets inside closure bodies of top-level-expression programs are skipped). Carets on binding / assignment targets, pattern payloads and closure parameters, and carets whose innermost expression is a statement form (let, assignment, return, break, assert) are counted, not judged. Expressions never evaluated by the normal run are counted, not judged.',
    design_ref='DESIGN.md §6 C27',
)

import os, re
from ..core import Machinery
from .. import refgen
from ..refgen import V, I, call

PROBE_DEF = '\nfun probe_(x) { println("PROBE:" ^ string_repr(x)) x }\n'

INNERS27 = dict(refgen.INNERS)
INNERS27["for-body"] = lambda body: [("For", ("Sym", "a"), ("List", [V("a"), ("Bin", V("a"), "+", I(10))]), body)]
INNERS27["while-body"] = lambda body: [("Let", ("Sym", "n"), None, I(0)),
                                       ("While", ("Bin", V("n"), "<", I(2)), [("Assign", "n", ("Bin", V("n"), "+", I(1))),
                                                                                ("Let", ("Sym", "a"), None, ("Bin", V("a"), "+", V("n")))] + body)]


def programs(quick):
    placements = [("top-level", "top-level", []), ("top-block", "top-block", []), ("test", "test", []),
                  ("top-block>for-body", "top-block", ["for-body"]), ("test>match-arm", "test", ["match-arm"]),
                  ("top-block>closure", "top-block", ["closure"]), ("top-block>while-body", "top-block", ["while-body"]),
                  ("test>if-else", "test", ["if-else"]), ("top-block>if-then", "top-block", ["if-then"])]
    if not quick:
        placements += [("test>for-body", "test", ["for-body"]), ("test>closure", "test", ["closure"]), ("test>while-body", "test", ["while-body"]),
                       ("top-block>match-arm", "top-block", ["match-arm"]), ("top-block>for-body>if-then", "top-block", ["for-body", "if-then"]),
                       ("top-block>closure>for-body", "top-block", ["closure", "for-body"]), ("test>while-body>match-arm", "test", ["while-body", "match-arm"])]
    ctxs = [c for c in refgen.contexts(quick) if c[0] not in ("return-arg",)]
    if quick:
        ctxs = [c for c in ctxs if c[0] != "local-run"]
    for pname, okind, inners in placements:
        for cname, cfn in ctxs:
            for ename, ety, E in refgen.expr_pool(quick):
                body = cfn(E)
                for i in reversed(inners):
                    body = INNERS27[i](body)
                items = [refgen.TOOL_HELPERS] + refgen.outer(okind, body)
                yield {"items": items, "placement": pname, "context": cname, "expr": ename, "E": E, "outer": okind, "inners": inners, "inline": False}


def own_offset(rec, children):
    """First offset of the span that no child expression covers."""
    o = rec["start"]
    while o < rec["end"]:
        hit = next((c for c in children if c["start"] <= o < c["end"]), None)
        if hit is None:
            return o
        o = hit["end"]
    return None



def session_histories(ctx):
    """Eval-up-to in a session with history: the answer to an eval-up-to request must not depend on an earlier eval-up-to
    request in the same session (one that stopped with an error, one that succeeded, one inside a test, one at top level).
    Every ordered pair of a small set of requests is sent after `let x = 10` / a helper definition; the second answer is compared
    with the answer the same request gets as the only eval-up-to of a session."""
    import json as _json
    setup = [_json.dumps({"method": "run", "input": "let x = 10"}), _json.dumps({"method": "run", "input": "fun dbl(n: Int): Int { n * 2 }"})]

    def eut(src, marker):
        return _json.dumps({"method": "eval_up_to", "src": src, "offset": src.index(marker)})
    T_FAIL = "test t {\n  let x = 1\n  assert(x == 2)\n  x + 1\n}"
    T_OK = "test u {\n  let x = 3\n  let y = x + 4\n  assert(y == 7)\n  y * 2\n}"
    T_THROW = "test w {\n  let x = 5\n  dbl(x)\n  throw(\"boom\")\n  x\n}"
    reqs = [("failing test, after the failure", eut(T_FAIL, "x + 1")), ("failing test, before the failure", eut(T_FAIL, "x == 2")),
            ("passing test, let value", eut(T_OK, "x + 4")), ("passing test, last expression", eut(T_OK, "y * 2")),
            ("throwing test, after the throw", eut(T_THROW, "x\n}")), ("throwing test, call before the throw", eut(T_THROW, "dbl(x)")),
            ("top-level block, product", eut("{ x * 2 }", "x * 2")), ("top-level block, operand", eut("{ x * 2 }", "* 2")),
            ("top-level call", eut("dbl(x + 1)", "dbl")), ("top-level call argument", eut("dbl(x + 1)", "x + 1"))]
    # (a position inside a function body is answered with the arguments of the function's LAST call, so it legitimately depends
    # on which requests called the function before: not part of this family)
    jobs = [{"op": "session", "tick_limit": 100000, "requests": setup + [_json.dumps({"method": "run", "input": "dbl(4)"}), r]} for _, r in reqs]
    pairs = [(i, j) for i in range(len(reqs)) for j in range(len(reqs))]
    jobs += [{"op": "session", "tick_limit": 100000, "requests": setup + [_json.dumps({"method": "run", "input": "dbl(4)"}), reqs[i][1], reqs[j][1]]} for i, j in pairs]
    res = ctx.pool.map(jobs, batch=16, timeout=60)

    def answer(r, k):
        if "responses" not in r or "panic" in r or len(r["responses"]) <= k:
            return ("no answer", str(r.get("panic") or r)[:200])
        out = []
        for t in r["responses"][k]:
            d = _json.loads(t)
            kind = next(iter(d["kind"]))
            if kind in ("printed", "printed_stderr"):
                continue
            v = d["kind"][kind]
            if kind == "evaluate":
                v = v["value"]
                out.append(("Ok", v["Ok"]) if "Ok" in v else ("Err", tuple(e["message"] for e in v["Err"])))
            else:
                out.append((kind, _json.dumps(v)[:200]))
        return tuple(out)
    alone = [answer(r, 3) for r in res[:len(reqs)]]
    if len({a for a in alone}) < 4:
        raise Machinery(f"vacuous eval-up-to histories: answers {alone}")
    for (i, j), r in zip(pairs, res[len(reqs):]):
        got = answer(r, 4)
        ctx.outcome("history pair: " + ("same answer" if got == alone[j] else "differs"))
        if got != alone[j]:
            ctx.violation(f"eval-up-to ({reqs[j][0]}) answers differently after an earlier eval-up-to ({reqs[i][0]})",
                          {"requests": r if "responses" not in r else [setup, reqs[i][1], reqs[j][1]], "answer_alone": alone[j], "answer_after_history": got},
                          cli_cmd="garden reftest-json-session <file with the request lines>")
    return len(jobs)


def run(ctx):
    quick = ctx.quick
    stride = int(os.environ.get("GV_DEV_STRIDE", "1"))
    progs = list(programs(quick))
    if stride > 1:
        progs = progs[::stride]
        ctx.cap(f"development stride {stride}")
    ctx.bound("programs", len(progs))
    jobs = []
    for P in progs:
        src, pr = refgen.render(P["items"])
        P["src"] = src
        e, blk, focus = refgen.mark_focus(P, pr)
        # the region of carets: the context statements (for while/for placements built by INNERS27 the block found is the innermost placement block)
        if blk is None:
            region = [(r["start"], r["end"]) for r in pr.exprs if r["ctx"] == (("Top", "item"),)]
            region = region[3:]          # skip the three top-level lets of a, s, xs
        else:
            region = list(blk["stmts"])
        exprs = sorted(pr.exprs, key=lambda r: (r["end"] - r["start"], r["start"]))
        binders = [s for s in pr.syms if s["role"].startswith("def-") or s["role"] == "assign"]
        if quick:
            offs = set()
            for r in focus:
                if not any(a <= r["start"] and r["end"] <= z for a, z in region):
                    continue
                kids = [c for c in pr.exprs if c is not r and r["start"] <= c["start"] and c["end"] <= r["end"]]
                offs.add(r["start"])
                oo = own_offset(r, kids)
                if oo is not None:
                    offs.add(oo)
            offs = sorted(offs)
        else:
            offs = sorted({o for a, z in region for o in range(a, z)})
        targets = []
        for o in offs:
            inner = next((r for r in exprs if r["start"] <= o < r["end"]), None)
            if inner is None:
                continue
            if any(b["start"] <= o < b["end"] for b in binders):
                kind = "binding-target"
            elif not refgen.value_expr(inner["node"]):
                kind = "statement-form"
            elif P["outer"] == "top-level" and refgen.in_closure(inner):
                kind = "closure-body-called-from-another-item"
            else:
                kind = "judged"
            targets.append((o, inner, kind))
        P["targets"] = targets
        P["pr"] = pr
        spans = sorted({(t[1]["start"], t[1]["end"]) for t in targets if t[2] == "judged"})
        P["spans"] = spans
        jobs.append({"op": "eval_up_to", "src": src, "offsets": [t[0] for t in targets], "tick_limit": 200000})
        jobs.append({"op": "front", "src": src, "want": ["positions"]})
        for a, z in spans:
            jobs.append({"op": "run", "src": src[:a] + "probe_(" + src[a:z] + ")" + src[z:] + PROBE_DEF, "tick_limit": 200000})
    res = ctx.pool.map(jobs, batch=8, timeout=120)
    k = 0
    n_exec = 0
    n_judged = 0
    for P in progs:
        r_eval, r_front = res[k], res[k + 1]
        k += 2
        refs = {}
        for sp in P["spans"]:
            rr = res[k]
            k += 1
            n_exec += 1
            if "parse_errors" in rr:
                raise Machinery(f"instrumented program does not parse: span {sp} of {P['src']!r}: {rr['parse_errors'][0]['message']}")
            if "stdout" not in rr:
                raise Machinery(f"instrumented run failed: {str(rr)[:300]}")
            m = re.search(r"^PROBE:(.*)$", rr["stdout"], re.M)
            failed = rr["outcome"]["kind"] != "ok" or any(t.get("error") for t in rr.get("tests") or ())
            refs[sp] = (m.group(1) if m else None, failed)
        if "results" not in r_eval or "positions" not in r_front:
            raise Machinery(f"job failed: {str((r_eval, r_front))[:300]}")
        # cross-check of the span bookkeeping against the parser's own positions
        parser_spans = {(p["start_offset"], p["end_offset"]) for p in r_front["positions"]}
        for sp in P["spans"]:
            if sp not in parser_spans:
                raise Machinery(f"generator span {sp} is not a parser position in {P['src']!r}")
        mine = {(r["start"], r["end"]) for r in P["pr"].exprs} | {(s["start"], s["end"]) for s in P["pr"].syms} | \
               {(i["start"], i["end"]) for i in P["pr"].items}
        helper_end = P["pr"].items[0]["end"]
        for sp in parser_spans:
            if sp[0] >= helper_end and sp not in mine and not any(b["open"] == sp[0] for b in P["pr"].blocks):
                # type symbols in hints and item-level positions are not tracked by the printer: only expression-sized surprises matter
                if any(a <= sp[0] and sp[1] <= z for a, z in P["spans"]) and not re.fullmatch(r"[A-Z][A-Za-z]*", P["src"][sp[0]:sp[1]]):
                    raise Machinery(f"parser position {sp} `{P['src'][sp[0]:sp[1]]}` inside a judged span is unknown to the generator")
        for (o, inner, kind), r in zip(P["targets"], r_eval["results"]):
            n_exec += 1
            if "panic" in r:
                ctx.violation(f"eval-up-to panics: {inner['kind']} in {P['placement']}", {"src": P["src"], "offset": o, "panic": r["panic"]},
                              cli_cmd="garden reftest-eval-up-to <file with a `// ^` caret comment under the offset>")
                continue
            if "run_error" in r or "parse_errors" in r:
                raise Machinery(f"generated program fails: {str(r)[:200]} {P['src']!r}")
            if kind != "judged":
                ctx.outcome(f"not judged: {kind}")
                continue
            sp = (inner["start"], inner["end"])
            ref, failed = refs[sp]
            role, block = refgen.ctx_class(inner)
            where = refgen.ctx_str(role, block)
            flags = ("in loop, " if refgen.in_loop(inner) else "") + ("in closure, " if refgen.in_closure(inner) else "") + \
                    ("in test" if P["outer"] == "test" else "in top-level item")
            cls = f"{inner['kind']} ({flags})"
            detail = {"src": P["src"], "offset": o, "role": where, "innermost": P["src"][sp[0]:sp[1]], "span": list(sp), "reference_first_value": ref,
                      "result": {x: r[x] for x in r if x != "position"}, "reported_span": [r["position"]["start_offset"], r["position"]["end_offset"]] if "position" in r else None,
                      "tags": {"placement": P["placement"], "context": P["context"], "expression": P["expr"]}}
            cmd = "garden reftest-eval-up-to <file with a `// ^` caret comment under the offset>"
            if failed:
                raise Machinery(f"instrumented run fails where the original does not: {P['src']!r} span {sp}")
            if ref is None:
                ctx.outcome("not judged: never evaluated in the normal run -> " + ("value" if "value" in r else "error" if "eval_error" in r else "none"))
                continue
            n_judged += 1
            if "value" not in r:
                what = "error reported: " + refgen.norm_msg(r["eval_error"].get("message") or r["eval_error"]["kind"]) if "eval_error" in r else f"no value ({r.get('none')})"
                ctx.violation(f"{cls}: {what}", detail, cli_cmd=cmd)
                ctx.outcome("violation:no value")
                continue
            rep = (r["position"]["start_offset"], r["position"]["end_offset"])
            if inner["kind"] == "For" and any(b["role"] == "def-for" and (b["start"], b["end"]) == rep and sp[0] <= b["start"] < sp[1] for b in P["pr"].syms):
                ctx.outcome("not judged: caret on a `for` loop reports the first value of the loop variable (documented special case in eval.rs)")
                n_judged -= 1
                continue
            if r["value"] != ref:
                ctx.violation(f"{cls}: value differs from the first value in a normal run" + (" (reported span differs too)" if rep != sp else ""), detail, cli_cmd=cmd)
                ctx.outcome("violation:value differs")
            elif rep != sp:
                ctx.violation(f"{cls}: reported position is not the innermost expression (value agrees)", detail, cli_cmd=cmd)
                ctx.outcome("violation:position differs")
            else:
                ctx.outcome("agrees")
    # CLI confirmation: the reftest harness takes the offset from a caret comment; build one for up to 8 violations
    for sig, v in list(ctx.violations.items())[:8]:
        d = v["detail"]
        if "offset" not in d or "result" not in d:
            continue
        src = d["src"]
        o = d["offset"]
        eol = src.find("\n", o)
        col = o - (src.rfind("\n", 0, o) + 1)
        if col < 3:
            continue
        caret = "//" + " " * (col - 2) + "^"
        text = src[:eol + 1] + caret + "\n" + src[eol + 1:]
        path = ctx.tmpfile("confirm.gdn", text)
        rc, out, err = ctx.cli(["reftest-eval-up-to", path])
        d["cli"] = {"exit": rc, "stdout": out[-300:], "stderr": err[-300:]}
        got = out.strip().split(": ", 1)[-1] if out.strip() else None
        want = d["result"].get("value")
        if want is not None and got == want:
            ctx.cov["cli_confirmed"] += 1
        elif want is None and (rc != 0 or not out.strip()):
            ctx.cov["cli_confirmed"] += 1
        else:
            d["cli_note"] = "CLI output differs from the in-process result (a caret comment line shifts later offsets; compare manually)"
    n_cases = sum(len(P["targets"]) for P in progs)
    n_hist = session_histories(ctx)
    ctx.add(states=n_hist + n_cases, transitions=n_exec + len(progs), nontrivial=n_judged)
    ctx.bound("carets", n_cases)
    ctx.bound("judged", n_judged)
    P = progs[len(progs) // 3]
    ctx.sample({"tags": {"placement": P["placement"], "context": P["context"], "expression": P["expr"]}, "src": P["src"], "offsets": [t[0] for t in P["targets"]][:20]})
    P = progs[-1]
    ctx.sample({"tags": {"placement": P["placement"], "context": P["context"], "expression": P["expr"]}, "src": P["src"], "offsets": [t[0] for t in P["targets"]][:20]})
    oc = ctx.cov["outcomes"]
    if oc.get("agrees", 0) < 0.3 * max(1, n_judged):
        raise Machinery(f"vacuous: eval-up-to agrees with the reference on only {oc.get('agrees', 0)} of {n_judged} carets")
    return ("cases = (program, caret offset); judged when the innermost expression (smallest containing span) is a value expression that the normal run evaluates. "
            "Oracle: reported value == first PROBE line of the instrumented run, reported position == that span. Non-trivial = judged carets.")
