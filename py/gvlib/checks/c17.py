"""C17 formatting never changes a program's meaning."""
REG = dict(
    engine='E1-enum',
    technique='bounded-exhaustive enumeration of syntax trees x layouts (every <=k-gap deviation from the canonical layout over an 8-separator alphabet, string-literal content variants), differential oracle on the real formatter and the real parser',
    text='Programs: quick = every production over 5 leaves (1906 depth-1 trees), a reduced depth-2 set (over 7 representative children), 58 representatives incl. a string literal in every literal position, and a definition-level set of 682 programs (function/method signatures whose line length is swept across the 100-column wrap limit with 0-3 parameters, every item kind with optional parts on/off, doc comments, all ordered pairs of 12 items, and 24 two-item programs that put a signature over the wrap limit before / after a string literal in a let, a call argument and a function body; thorough: 240 of those); thorough = the full C33 depth-1 (8483) and depth-2 (64774) sets and 2202 definition programs (lengths 95-107, 0-5 parameters). Each program is rendered under every layout with <=1 gap (thorough: <=2 gaps for the representative, string-variant-of-representative and small-definition groups) deviating from the canonical layout, gap alphabet {glued, 1 space, 3 spaces, newline, newline+indent, blank lines, line comment, tab} incl. the gaps before the first and after the last token, plus two line comments whose text looks like code (`// a = b`, `// { " (`) in every gap next to `=`, `:`, `{`, `,`, `=>`, `+=`, `-=` (quick: not in the depth-2 and string-variant groups), plus a non-ASCII variant (a leading `// é😀` comment line and é😀 in every string literal and comment) of the representatives, the definition programs and the depth-1 trees (quick: every 4th definition program and every 3rd depth-1 tree with a type annotation, comma or `=`), and with every string literal (each literal position, and all at once) replaced by multi-line / brace-at-line-start / `//` / blank-line contents. Layouts the real parser does not map to the canonical tree are dropped and counted. Oracle on format(layout): parses without errors; structurally equal tree (the parser\'s own structural equality: identifiers, literal values, string contents, doc comments; positions, ids and comma positions ignored), same ordered comment texts, and the same text once whitespace and commas are erased. Exhaustive within these bounds.',
    note='The parser is trusted as the judge of "same tree" on both sides (it is checked against the printer by C33). Layouts with more simultaneous deviations than the bound, gap separators outside the alphabet (CR, form feed, block comments do not exist) and trees deeper than the sets are not covered.',
    design_ref='DESIGN.md §6 C17 / C18',
)

import os
import re
from .. import gast, gen, layout, rustdbg
from ..core import Machinery

ERASE = {ord(c): None for c in " \t\n\r,"}

X, Y = ("Var", "x"), ("Var", "y")


def depth2_quick():
    O2 = [X, ("Bin", X, "-", Y), ("Call", X, [Y]), ("If", X, [Y], [X]), ("Lambda", [("a", gen.T_INT)], gen.T_INT, [X]),
          ("Match", X, [(("Some", ("Sym", "v")), [Y]), (("None", None), [])]), layout.S_AB]
    S2 = [("Let", ("Sym", "v"), None, X), ("Return", X), ("Break",)]
    B2 = gen.bodies(O2 + S2, [X, ("If", X, [Y], None)])
    small = [X, ("Call", X, [Y])]
    keep = lambda t: ((t[0] != "Bin" or t[2] in ("-", "<", "**", "&&", "^")) and (t[0] != "For" or t[1] == ("Sym", "v"))
                      and (t[0] != "Match" or len(t[2]) < 2 or t[2][0][0][0] != "Pair"))
    conds = O2[:4]
    keep2 = lambda t: t[0] not in ("If", "While", "For", "Match") or (t[2] if t[0] == "For" else t[1]) in conds
    return [t for t in gen.productions(O2, B2, S2, arg_pool=O2, small=small) if keep(t) and keep2(t)]


def base_groups(ctx, full_depth2=True):
    """The explored space as [(group name, [Base], k)]. Shared by C17 and C18 (C18 thorough keeps the quick depth-2 set)."""
    quick = ctx.quick
    groups = []

    def mk(progs):
        return layout.prepare(ctx, [(repr(p)[:200], layout.kind_of(p), gast.program_src(p)) for p in progs])

    d1 = [layout.program_of(t) for t in (layout.quick_trees() if quick else gen.depth1())]
    b1 = mk(d1)
    groups.append(("depth1", b1, 1))
    d2 = [layout.program_of(t) for t in (depth2_quick() if quick or not full_depth2 else gen.depth2())]
    b2 = mk(d2)
    groups.append(("depth2", b2, 1))
    reps = mk([layout.program_of(t) for t in layout.rep_trees() + layout.string_position_trees()])
    groups.append(("representatives", reps, 1 if quick else 2))
    items = mk(layout.definition_items(quick))
    # an over-long (wrapped) signature before / after an item holding a string literal: all their string variants are explored
    wrap_pairs = mk(layout.wrap_string_pairs(quick))
    items = items + wrap_pairs
    groups.append(("definitions", items, 1))
    # string-literal content variants: every literal position of every base that has one
    items_str = [b for b in items if b.str_positions() and id(b) not in {id(w) for w in wrap_pairs}]
    if quick:
        items_str = [b for b in items_str if b.kind.startswith("Import")] + [b for b in items_str if not b.kind.startswith("Import")][::5]
    items_str += wrap_pairs
    with_str = [b for b in b1 + reps if b.str_positions()] + items_str
    variants = []
    in_b1 = {id(b) for b in b1}
    in_pairs = {id(b) for b in wrap_pairs}
    for b in with_str:
        vs = layout.string_variants(b)
        if quick and id(b) in in_b1 and len(b.str_positions()) > 1:
            # quick: depth-1 trees with several literals get every position for the multi-line content only, the other contents all at once
            vs = [v for v in vs if v.variant.startswith("multi-line") or v.variant.endswith("@all")]
        if quick and (id(b) in in_b1 or id(b) in in_pairs):
            vs = [v for v in vs if not v.variant.startswith("slashes")]      # the `//` content is kept for representatives and items
        variants += vs
    ok, rejected = layout.derive(ctx, variants)
    if rejected:
        ctx.outcome("string-variant:canonical text does not parse (dropped)", rejected)
    if not ok:
        raise Machinery("no string-literal variant parsed")
    groups.append(("string-variants", ok, 1))
    # non-ASCII variants: a leading `// é😀` comment line and é😀 in every string literal and comment, so that byte offsets and
    # character offsets differ everywhere the spacing phases look. Quick: every representative, every fourth definition program
    # and every third of the depth-1 trees that have a type annotation, a comma or an `=` (the tokens whose spacing is rewritten).
    if quick:
        spaced = [b for b in b1 if any(p in (":", ",", "=", "+=", "-=", "=>") for p in b.pieces)]
        na_src = reps + items[::4] + spaced[::3]
    else:
        na_src = reps + items + b1
    na_ok, na_rejected = layout.derive(ctx, [layout.nonascii_leading_variant(b) for b in na_src])
    if na_rejected:
        ctx.outcome("non-ascii variant:canonical text does not parse (dropped)", na_rejected)
    if not na_ok:
        raise Machinery("no non-ASCII variant parsed")
    groups.append(("non-ascii", na_ok, 1))
    if not quick:
        rep_labels = {r.label for r in reps}
        small = [b for b in ok if b.label in rep_labels]
        groups.append(("string-variants-2dev", small, 2))
        groups.append(("definitions-2dev", [b for b in items if len(b.pieces) <= 10], 2))
    # development knobs (never set by ./gv): restrict to some groups / a stride of each group
    only = os.environ.get("GV_LAYOUT_GROUPS")
    stride = int(os.environ.get("GV_LAYOUT_STRIDE", "1"))
    if only or stride > 1:
        ctx.cap(f"development restriction groups={only} stride={stride}")
        groups = [(g, bs[::stride], k) for g, bs, k in groups if not only or g in only.split(",")]
    return groups


def token_comments_for(gname, quick):
    """Whether the comment separators with code-like text are tried in this group (quick: not in the two largest groups)."""
    return not (quick and gname in ("depth2", "string-variants"))


def variant_class(b):
    return b.variant.split("@")[0]


LIT_RE = re.compile(r'(StringLiteral\(|path: |doc_comment: Some\()"((?:\\.|[^"\\])*)"')
LIT_NAME = {"StringLiteral(": "string content", "path: ": "string content", "doc_comment: Some(": "doc comment"}


def what_changed(a_ast, f_ast):
    """(what, effect): which part of the tree differs and how. Literal texts are compared in their Debug-escaped form."""
    if LIT_RE.sub("L", a_ast) != LIT_RE.sub("L", f_ast):
        return "tree", "structure differs"
    for ma, mf in zip(LIT_RE.finditer(a_ast), LIT_RE.finditer(f_ast)):
        if ma.group(2) != mf.group(2):
            what = LIT_NAME[ma.group(1)]
            x, y = rustdbg._unescape('"' + ma.group(2) + '"'), rustdbg._unescape('"' + mf.group(2) + '"')
            ind = lambda z: re.sub(r"\n[ \t]*", "\n", z)
            nl = lambda z: re.sub(r"\n+", "\n", z)
            if ind(x) == ind(y):
                return what, "continuation line of a multi-line literal re-indented"
            if nl(x) == nl(y):
                return what, "blank line inserted or removed inside a multi-line literal"
            if nl(ind(x)) == nl(ind(y)):
                return what, "continuation line re-indented and blank line inserted or removed inside a multi-line literal"
            if re.sub(r"\s+", "", x) == re.sub(r"\s+", "", y):
                return what, "whitespace inside a literal changed"
            return what, "literal text changed"
    return "tree", "structure differs"


def comment_texts(r):
    return [c["text"].rstrip("\n") for c in r["comments"]]


class FormatCache:
    """front results of formatter outputs, keyed by text (many layouts format to the same text)."""

    def __init__(self, ctx, want):
        self.ctx, self.want, self.d, self.jobs = ctx, want, {}, 0

    def fill(self, texts):
        if len(self.d) > 400000:      # bound the memory of a thorough run; entries are recomputed on demand
            self.d.clear()
        todo = [t for t in dict.fromkeys(texts) if t not in self.d]
        res = self.ctx.pool.map([{"op": "front", "src": t, "want": self.want} for t in todo], batch=64, timeout=60)
        self.jobs += len(todo)
        for t, r in zip(todo, res):
            self.d[t] = self.digest(r)

    @staticmethod
    def digest(r):
        if "parse_errors" not in r:
            return {"failed": str(r)[:300]}
        return {"errors": [e["message"] for e in r["parse_errors"]], "comments": comment_texts(r) if "comments" in r else None, "formatted": r.get("formatted")}


def run(ctx):
    groups = base_groups(ctx)
    cache = FormatCache(ctx, ["comments"])
    n_layouts = n_same = n_changed = n_comment = n_multiline = n_wrapped = n_jobs = n_tree_jobs = n_token_comment = n_nonascii_changed = 0
    status = {}
    for gname, bases, k in groups:
        ctx.bound(f"{gname}: programs", len(bases))
        ctx.bound(f"{gname}: max deviating gaps", k)
        pending = []

        def settle():
            nonlocal pending
            nonlocal n_tree_jobs
            cache.fill([r["formatted"] for _, _, _, r in pending])
            # tree of the output against the tree of the canonical text (== the tree of the input: the layout is in class "same")
            keys = list(dict.fromkeys((id(b), r["formatted"]) for b, _, _, r in pending))
            canon = {id(b): b.canon for b, _, _, _ in pending}
            diff = layout.tree_pairs_differ(ctx, [(canon[i], F) for i, F in keys])
            n_tree_jobs += len(keys)
            differs = {keys[j] for j in diff}
            for b, d, t, r in pending:
                judge(ctx, cache, gname, b, d, t, r, (id(b), r["formatted"]) in differs)
            pending = []

        for b, d, t, r, st in layout.explore(ctx, bases, k, ["comments", "format"], token_comments=token_comments_for(gname, ctx.quick)):
            n_layouts += 1
            n_jobs += 1
            status[st] = status.get(st, 0) + 1
            if st == "failed":
                ctx.violation(f"formatter/parser job failed: {gname}", {"src": t, "result": str(r)[:300]})
                continue
            if st != "same":
                continue
            n_same += 1
            F = r["formatted"]
            if r["comments"]:
                n_comment += 1
            if b.variant.startswith(("multi-line", "brace-line", "blank-lines")):
                n_multiline += 1
            if d and d[0][1] in layout.TOKEN_COMMENT_GAPS:
                n_token_comment += 1
            if F == t:
                continue
            n_changed += 1
            if b.variant == "non-ascii":
                n_nonascii_changed += 1
            if gname.startswith("definitions") and F.count("\n") > t.count("\n") + 1:
                n_wrapped += 1
            if len(ctx.cov["samples"]) < 3 and d and n_changed % 1000 == 7:
                ctx.sample({"group": gname, "kind": b.kind, "deviation": layout.dev_name(b, d), "src": t, "formatted": F})
            pending.append((b, d, t, r))
            if len(pending) >= 20000:
                settle()
        settle()
    for st, n in status.items():
        ctx.outcome(f"layout:{st}", n)
    ctx.outcome("formatter changed the text", n_changed)
    ctx.outcome("formatter left the text alone", n_same - n_changed)
    ctx.outcome("layouts with comments", n_comment)
    ctx.outcome("layouts with a multi-line string literal", n_multiline)
    ctx.outcome("signatures wrapped", n_wrapped)
    ctx.outcome("layouts with a code-like comment next to a spacing token (same tree)", n_token_comment)
    ctx.outcome("non-ASCII layouts the formatter changed", n_nonascii_changed)
    if n_changed == 0 or n_comment == 0 or n_multiline == 0 or n_wrapped == 0 or n_token_comment == 0 or n_nonascii_changed == 0:
        raise Machinery(f"vacuous exploration: changed={n_changed} comments={n_comment} multiline={n_multiline} wrapped={n_wrapped} "
                        f"code-like comments={n_token_comment} non-ascii changed={n_nonascii_changed}")
    if status.get("tree-changed", 0) == 0 or status.get("parse-error", 0) == 0:
        raise Machinery("no layout was rejected by the parser: the layout classifier is not looking at the real parse")
    ctx.add(states=n_same, transitions=n_jobs + cache.jobs + n_tree_jobs, nontrivial=n_changed)
    ctx.sample({"group": "depth1", "kind": "If", "deviation": "glued", "src": "if x{\n  -3\n}\n", "formatted": "if x {\n  -3\n}\n"})
    ctx.sample({"group": "string-variants", "kind": "Let", "deviation": "comment", "src": "let v = \"a\n  x\" // c\n", "oracle": "tree, comments and text modulo whitespace/commas of format(src) vs src"})
    ctx.bound("gap alphabet", [layout.GAP_NAME[g] for g in layout.GAPS])
    ctx.bound("string contents", ["plain"] + [n for n, _ in layout.STR_VARIANTS])
    ctx.assume("the real parser decides whether a layout denotes the same tree as the canonical text; layouts it maps to another tree or rejects are outside the explored set (counted under layout:*)")
    return ("every program of the depth-1 / depth-2 production sets, the representative set and the definition-level set, under every layout with at most k gaps "
            "(k per group in bounds) replaced by another separator of the 8-element alphabet, and every string-literal content variant at every literal position; "
            "kept when the real parser gives the canonical tree. Oracle on format(src): parses, same blanked tree, same comment texts, same text modulo whitespace and commas. "
            "Non-trivial = the formatter changed the text.")


def breakdown(ctx, sig, b, d):
    """Per-signature table of (root production / item kind, string variant, deviated separators) -> count, kept in the replay detail."""
    v = ctx.violations.get(sig)
    if v is not None:
        tab = v["detail"].setdefault("inputs_by_kind_variant_deviation", {})
        key = f"{b.kind} [{variant_class(b)}] {layout.dev_name(b, d)}"
        if key in tab or len(tab) < 400:
            tab[key] = tab.get(key, 0) + 1


def next_piece(b, d, t):
    """Class of the first piece after the first inserted comment (the piece a lost comment was attached to)."""
    for gi, sep in d:
        if "//" in sep:
            return b.gap_context(gi).split("|")[1]
    return "?"


def judge(ctx, cache, gname, b, d, t, r, tree_differs):
    F = r["formatted"]
    fr = cache.d[F]
    detail = {"group": gname, "kind": b.kind, "program": b.label, "variant": b.variant, "deviation": layout.dev_name(b, d),
              "gap": [b.gap_context(i) for i, _ in d], "src": t, "formatted": F}
    cli = "garden format <file with src>"
    sig = None
    if "failed" in fr:
        sig = "output cannot be processed"
        detail["result"] = fr["failed"]
    elif fr["errors"]:
        sig = "parse error: " + re.sub(r"`[^`]*`", "`..`", fr["errors"][0])[:80]
        detail["parse_errors"] = fr["errors"][:3]
    elif tree_differs:
        r2 = ctx.pool.one({"op": "front", "src": F, "want": ["ast_blank"]})
        if r2.get("ast_blank") == b.ast:
            # structural equality also looks at the derived `value_is_used` flag, which the blanked dump hides: not a difference of meaning
            ctx.outcome("trees differ only in derived flags (not flagged)")
            return
        what, effect = what_changed(b.ast, r2.get("ast_blank", ""))
        sig = f"{what}: {effect}"
        if what == "tree":
            detail.update(tree_in=b.ast[:3000], tree_out=r2.get("ast_blank", "")[:3000])
    elif fr["comments"] != comment_texts(r):
        cin, cout = comment_texts(r), fr["comments"]
        if len(cout) < len(cin) and all(c in cin for c in cout):
            sig = f"comments: comment lost before `{next_piece(b, d, t)}`"
        elif len(cout) > len(cin):
            sig = "comments: comment added"
        else:
            sig = "comments: comment text changed"
        detail.update(comments_in=cin, comments_out=cout)
    elif t.translate(ERASE) != F.translate(ERASE):
        sig = "text: more than whitespace and commas differs"
    if sig:
        ctx.violation(sig, detail, cli)
        breakdown(ctx, sig, b, d)
