"""C21 wrap-in-dbg and add-type-annotation preserve behaviour."""
REG = dict(
    engine='E1-enum',
    technique='bounded-exhaustive enumeration of programs x every expression span (wrap_in_dbg) and every let-name / parameter / function-header position (add_type_annotation); the produced program is parsed, checked and run on the real implementation and compared with the original',
    text='wrap_in_dbg: every value-expression span inside the context statements of the C20 program space (placement x context x expression). Oracle: the produced program parses, stdout / final value / outcome / test verdicts are those of the original (stderr ignored). add_type_annotation: every un-annotated let name, parameter (function, closure) and function / closure header of the same programs, plus a typed family: 50 values of distinct types (scalars, lists, options, results, tuples, structs, generic structs, enums, closures, constructors and functions as values, dicts, generic calls) x 6 positions quick / 10 thorough (let in function / at top level / in a closure in a test, function return, closure return, closure parameter typed by its use; thorough: match arm, method return, let of let, return after early return). Oracle: produced program parses; the set of `check` error messages does not grow; same run behaviour.',
    note='Selections are exact node spans / the first offset of the symbol. Statement forms (let, return, break, assert as a whole) are wrapped by the tool as well: they are judged like expressions when the result parses and only counted when it does not. Warnings of `check` are ignored.',
    design_ref='DESIGN.md §6 C21',
)

import os, re
from ..core import Machinery
from .. import refgen
from .c20 import beh, tags

PATH = "/verif_scratch/main.gdn"


def errors_of(r):
    if "diagnostics" not in r:
        return None
    return sorted({d["message"] for d in r["diagnostics"] if d["severity"] == "error"})


def inserted_text(old, new):
    """The single inserted substring, if new is old with one insertion."""
    i = 0
    while i < len(old) and i < len(new) and old[i] == new[i]:
        i += 1
    k = len(new) - len(old)
    if k > 0 and new[:i] + new[i + k:] == old:
        return new[i:i + k]
    # the common prefix may extend into the insertion; search backwards
    for j in range(i, -1, -1):
        if new[:j] + new[j + k:] == old:
            return new[j:j + k]
    return None


def run(ctx):
    quick = ctx.quick
    stride = int(os.environ.get("GV_DEV_STRIDE", "1"))
    progs = list(refgen.tool_programs(quick))
    typed = list(refgen.typed_programs(quick))
    if stride > 1:
        progs, typed = progs[::stride], typed[::stride]
        ctx.cap(f"development stride {stride}")
    ctx.bound("programs", len(progs))
    ctx.bound("typed_programs", len(typed))

    # ---------------- wrap_in_dbg over the tool programs; annotation positions of the same programs
    jobs = []
    units = []       # {"src", "tags", "dbg": [sel], "ann": [(kind, offset)]}
    for P in progs:
        src, pr = refgen.render(P["items"], inline=P["inline"])
        e, blk, focus = refgen.mark_focus(P, pr)
        sel = []
        for r in focus:
            if quick and r["kind"] in ("Int", "Float", "Str", "Var") and r is not e and not (r["ctx"] and r["ctx"][-1][1] == "callee"):
                continue        # quick: leaves other than E itself and callees are left to the thorough tier
            role, block = refgen.ctx_class(r)
            sel.append({"span": (r["start"], r["end"]), "what": r["kind"], "role": role, "block": block,
                        "value_expr": refgen.value_expr(r["node"]), "callee": r["kind"] == "Var" and bool(r["ctx"]) and r["ctx"][-1][1] == "callee"})
        ann = []
        for s in pr.syms:
            if s["role"] == "def-let":
                ann.append(("let name", s["start"]))
            elif s["role"] == "def-param" and s["name"] in ("a", "s", "xs") and P["outer"] == "fun-untyped":
                ann.append(("function parameter", s["start"]))
            elif s["role"] == "fun-name":
                ann.append(("function return", s["start"]))
        for r in pr.exprs:
            if r["kind"] == "Lambda":
                ann.append(("closure return", r["start"] + 3))
                for i, (pn, h) in enumerate(r["node"][1]):
                    if h is None:
                        ann.append(("closure parameter", next(s["start"] for s in pr.syms if s["key"] == r["path"] + (f"param{i}",))))
        units.append({"src": src, "tags": tags(P), "dbg": sel, "ann": ann})
    for tg, src, offs in typed:
        units.append({"src": src, "tags": tg, "dbg": [], "ann": offs})
    for U in units:
        jobs.append({"op": "run", "src": U["src"], "tick_limit": 200000})
        jobs.append({"op": "front", "src": U["src"], "want": ["check"]})
        jobs.append({"op": "refactor", "tool": "wrap_in_dbg", "src": U["src"], "path": PATH, "spans": [list(s["span"]) for s in U["dbg"]]})
        jobs.append({"op": "refactor", "tool": "add_type_annotation", "src": U["src"], "path": PATH, "spans": [[o, o] for _, o in U["ann"]]})
    res = ctx.pool.map(jobs, batch=8, timeout=90)
    cases = []       # (U, tool, cls, new_src, extra)
    n_exec = 0
    for i, U in enumerate(units):
        r0, rc, rd, ra = res[4 * i: 4 * i + 4]
        if "parse_errors" in r0:
            raise Machinery(f"generated program does not parse: {U['src']!r} {r0['parse_errors'][0]['message']}")
        if "outcome" not in r0 or "results" not in rd or "results" not in ra or errors_of(rc) is None:
            raise Machinery(f"job failed: {str((r0, rc, rd, ra))[:400]}")
        U["orig"] = beh(r0)
        U["errors"] = errors_of(rc)
        ctx.outcome("original:" + U["orig"][0])
        for s, r in zip(U["dbg"], rd["results"]):
            n_exec += 1
            cls = f"wrap_in_dbg: {s['what']} as {refgen.ctx_str(s['role'], s['block'])}"
            if "panic" in r:
                ctx.violation(cls + ": panic", {"src": U["src"], "span": list(s["span"]), "panic": r["panic"]})
            elif "err" in r:
                ctx.outcome("wrap_in_dbg:declined")
            else:
                ctx.outcome("wrap_in_dbg:produced")
                cases.append((U, "wrap_in_dbg", cls, r["ok"], s))
        for (kind, off), r in zip(U["ann"], ra["results"]):
            n_exec += 1
            if "panic" in r:
                ctx.violation(f"add_type_annotation: {kind}: panic", {"src": U["src"], "offset": off, "panic": r["panic"]})
            elif "err" in r:
                ctx.outcome(f"add_type_annotation:declined ({kind})")
            else:
                ins = inserted_text(U["src"], r["ok"])
                if ins is None:
                    ctx.violation(f"add_type_annotation: {kind}: result is not the original plus one insertion", {"src": U["src"], "offset": off, "produced": r["ok"]})
                    continue
                ctx.outcome(f"add_type_annotation:produced ({kind})")
                coarse = "let name" if kind.startswith("let") else kind
                cases.append((U, "add_type_annotation", f"add_type_annotation: {coarse}, annotation `{ins.strip()}`", r["ok"], {"offset": off, "kind": kind, "annotation": ins}))
    texts = {}
    for U, tool, cls, new, s in cases:
        texts.setdefault(new, None)
    keys = list(texts)
    jobs2 = []
    for t in keys:
        jobs2.append({"op": "run", "src": t, "tick_limit": 200000})
    res2 = ctx.pool.map(jobs2, batch=24, timeout=90)
    for t, r in zip(keys, res2):
        texts[t] = r
    ann_texts = sorted({new for U, tool, cls, new, s in cases if tool == "add_type_annotation"})
    res3 = ctx.pool.map([{"op": "front", "src": t, "want": ["check"]} for t in ann_texts], batch=24, timeout=90)
    checks = dict(zip(ann_texts, res3))
    ann_types = set()
    for U, tool, cls, new, s in cases:
        r = texts[new]
        n_exec += 1
        where = {"span": list(s["span"])} if tool == "wrap_in_dbg" else {"offset": s["offset"]}
        if "crash" in r or "timeout" in r or "panic" in r:
            ctx.violation(cls + ": produced program crashes the interpreter", {"src": U["src"], **where, "produced": new, "result": str(r)[:300]})
            continue
        if tool == "wrap_in_dbg" and not s["value_expr"]:
            ctx.outcome("wrap_in_dbg: statement form (let / assign / return / break / assert) wrapped -> " + ("parse error" if "parse_errors" in r else "parses"))
            if "parse_errors" in r:
                continue      # a statement form is not an expression in the user's sense: counted, not judged
        d = None
        if "parse_errors" in r:
            d = "parse error"
        elif U["orig"][0] == "ok":
            d = refgen.diff_class(U["orig"], beh(r), r)
        elif U["orig"][0] != beh(r)[0] or U["orig"][1] != beh(r)[1]:
            d = refgen.diff_class(U["orig"], beh(r), r)
        if d is None and tool == "add_type_annotation":
            n_exec += 1
            errs = errors_of(checks[new])
            if errs is None:
                d = "parse error"
            else:
                grown = [m for m in errs if m not in U["errors"]]
                if grown:
                    d = "new check error: " + normalise(grown[0])
            ann_types.add(s["annotation"])
        if d is None:
            ctx.outcome(f"{tool}:same-behaviour")
            continue
        detail = {"src": U["src"], **where, "produced": new, "tags": U["tags"], "original": U["orig"],
                  "after": beh(r) if "outcome" in r else r.get("parse_errors", [{}])[0].get("message")}
        if "outcome" in r and r["outcome"].get("message"):
            detail["after_message"] = r["outcome"]["message"]
        if tool == "wrap_in_dbg":
            detail["selected"] = U["src"][s["span"][0]:s["span"][1]]
            cmd = f"garden reftest-wrap-in-dbg <file> {s['span'][0]} {s['span'][1]}"
        else:
            cmd = f"garden reftest-add-type-annotation <file> {s['offset']} {s['offset']}"
        ut = refgen.unbound_type(d)
        sig = f"{tool}: the emitted annotation mentions the non-existent type `{ut}`" if ut and tool == "add_type_annotation" else f"{cls}: {refgen.blank_ticks(d)}"
        if tool == "add_type_annotation" and "__ERROR" in s["annotation"]:
            sig = f"{tool}: the emitted annotation contains the internal error-type text `__ERROR(…)`"
        ctx.violation(sig, detail, cli_cmd=cmd + " > out.gdn; garden check out.gdn; garden run out.gdn")
        ctx.outcome(f"{tool}:{d.split(':')[0].split(' (')[0]}")
    # CLI confirmation (up to 12)
    for sig, v in list(ctx.violations.items())[:12]:
        d = v["detail"]
        if "produced" not in d:
            continue
        path = ctx.tmpfile("confirm.gdn", d["src"])
        if sig.startswith("wrap_in_dbg"):
            args = ["reftest-wrap-in-dbg", path, str(d["span"][0]), str(d["span"][1])]
        else:
            args = ["reftest-add-type-annotation", path, str(d["offset"]), str(d["offset"])]
        rc, out, err = ctx.cli(args)
        d["cli_exit"] = rc
        if rc == 0 and out.rstrip("\n") == d["produced"].rstrip("\n"):
            ctx.cov["cli_confirmed"] += 1
        else:
            raise Machinery(f"adapter drift: CLI output differs from in-process for {sig}: rc={rc} {err[:200]}")
    n_cases = sum(len(U["dbg"]) + len(U["ann"]) for U in units)
    ctx.add(states=n_cases, transitions=n_exec + 2 * len(units), nontrivial=len(cases))
    ctx.bound("positions", n_cases)
    ctx.bound("distinct_annotations", len(ann_types))
    oc = ctx.cov["outcomes"]
    ctx.sample({"tags": units[len(progs) // 3]["tags"], "src": units[len(progs) // 3]["src"]})
    ctx.sample({"tags": units[-1]["tags"], "src": units[-1]["src"], "positions": units[-1]["ann"]})
    ctx.sample({"annotations_seen": sorted(ann_types)[:60]})
    if oc.get("wrap_in_dbg:produced", 0) < 0.9 * sum(len(U["dbg"]) for U in units):
        raise Machinery("vacuous: wrap_in_dbg declined more than 10% of the expression spans")
    if len(ann_types) < (8 if stride > 1 else 25):
        raise Machinery(f"vacuous: only {len(ann_types)} distinct annotations produced")
    produced_kinds = " ".join(k for k in oc if k.startswith("add_type_annotation:produced"))
    for kind in ("let", "function return", "closure return", "closure parameter"):
        if kind not in produced_kinds:
            raise Machinery(f"vacuous: no annotation produced at a {kind} position")
    return ("cases = every expression span in the context statements (wrap_in_dbg) and every annotatable position (add_type_annotation) of the C20 programs, "
            "plus value x position for the typed family. Oracle: parses; same stdout / final value / outcome / test verdicts; (annotation) no check error "
            "message that the original did not have. Non-trivial = positions where the tool produced a program.")


def normalise(msg):
    msg = re.sub(r"`[^`]*`", "`…`", msg).replace(" an `", " a `")
    return msg[:100]
