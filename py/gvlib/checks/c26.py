"""C26 test verdicts are independent and the exit status is honest."""
REG = dict(
    engine='E1-enum',
    technique='exhaustive enumeration of test files (every sequence of <=3 tests over 8 test kinds) x every name filter x one- and two-file invocations, run through the real `garden test` and compared with the single-test runs',
    text="Every sequence of 1..3 tests over 8 kinds (pass; assertion failure; exception three frames deep; exception inside nested blocks with locals; test defining locals that shadow a global function and a name another test reads; test calling the global function another test shadows; test reading a variable only another test defines) is written to a file and run with no filter, the empty filter, every substring of every test name (names are chosen so that these are exactly 6 strings selecting every 1- and 2-element subset) and a filter matching nothing (quick: 3-test files only unfiltered and one test at a time); two-file invocations split the same sequences over two files (1+1 in quick; 1+2 and 2+1 in thorough). Oracle, from the statement: exit status != 0 iff a selected test is reported failed; the summary line's total equals the number of tests whose name contains the filter and its passed/failed counts equal the reported verdicts; each test's verdict equals its verdict when run alone with `-n <its name>`. Plus 2 and 3 files that each define a test of the same name with different bodies (pass / assertion failure / exception three calls deep), with and without a filter: the number of failures is the number of failing bodies, and the exit status follows.",
    note='Interrupted tests: five files with an endless test are interrupted by a real SIGINT once the test is demonstrably running; the run must exit non-zero, list the interrupted test as failed and print consistent counts. `garden test` prints only failed tests, so a passed verdict is "selected and not listed as failed". "No tests found." with exit 0 is accepted when nothing is selected. Tests hitting resource limits are not generated: `garden test` sets no limits.',
    design_ref='DESIGN.md §6 C26',
)
LEVEL = "model_checking"

import itertools, os, re

from ..core import Machinery
from .. import clijobs

HELPERS = ("fun glob_fn(): Int { 1 }\n"
           "fun e1() { e2() }\nfun e2() { e3() }\nfun e3() { throw(\"boom\") }\n"
           # the same three frames, but every frame (and the test body) still has failing work to do after the call that threw
           "fun h1() { h2() throw(\"tail of h1\") }\nfun h2() { h3() throw(\"tail of h2\") }\nfun h3() { throw(\"boom in h3\") }\n")
# kind -> (body, fails when run alone?)
KINDS = {
    "pass": ("assert(1 == 1)", False),
    "assert-fail": ("assert(1 == 2)", True),
    "throw-3-deep": ("e1()", True),
    "throw-3-deep-with-tails": ("h1()\n  assert(1 == 2)", True),
    "throw-in-blocks": ("let a = 1\n  if a == 1 {\n    let b = 2\n    while True {\n      let c = 3\n      throw(\"inner\")\n    }\n  }", True),
    "shadows-global": ("let glob_fn = fun() { 2 }\n  let leak = 5\n  assert(glob_fn() == 2)\n  assert(leak == 5)", False),
    "calls-global": ("assert(glob_fn() == 1)", False),
    "reads-others-local": ("assert(leak == 5)", True),
}
KIND_NAMES = list(KINDS)
NAMES = ["ka", "kb", "ab"]            # substrings: k a b ka kb ab -> every 1- and 2-element subset of positions
NOMATCH = "zz"


def all_substrings(names):
    out = set()
    for n in names:
        for i in range(len(n)):
            for j in range(i + 1, len(n) + 1):
                out.add(n[i:j])
    return sorted(out, key=lambda s: (len(s), s))


def file_src(kinds, names):
    return HELPERS + "".join(f"test {n} {{\n  {KINDS[k][0]}\n}}\n" for k, n in zip(kinds, names))


SUMMARY = re.compile(r"^Ran (\d+) tests?: (?:(it passed)|(they all passed)|(\d+) passed and (\d+) failed)\.$")


def parse(out):
    """(failed names in order, (total, passed, failed) | None for 'No tests found.', problems)"""
    failed, summary, problems = [], "missing", []
    for line in out.splitlines():
        m = re.match(r"^Failed: (\S+)", line)
        if m:
            failed.append(m.group(1))
            continue
        if line == "No tests found.":
            summary = None
            continue
        m = SUMMARY.match(line)
        if m:
            total = int(m.group(1))
            if m.group(2) or m.group(3):
                summary = (total, total, 0)
            else:
                summary = (total, int(m.group(4)), int(m.group(5)))
    if summary == "missing":
        problems.append("no summary line")
        summary = None
    return failed, summary, problems


SPIN = "println(\"spin started\")\n  while True {}"
INT_FILES = {
    "spin": [("t_spin", SPIN)],
    "pass,spin": [("t_pass", KINDS["pass"][0]), ("t_spin", SPIN)],
    "spin,pass": [("t_spin", SPIN), ("t_pass", KINDS["pass"][0])],
    "fail,spin": [("t_fail", KINDS["assert-fail"][0]), ("t_spin", SPIN)],
    "spin,fail": [("t_spin", SPIN), ("t_fail", KINDS["assert-fail"][0])],
}


def interrupted_family(ctx, root):
    """Tests interrupted by Ctrl-C: SIGINT is sent once the endless test is demonstrably running (its first line of output has
    arrived, so the handler is installed and the interpreter is in its loop). An interrupted test did not pass: the exit status
    must be non-zero, the test must be listed as failed, and the summary must agree with the listed verdicts."""
    import signal, subprocess, time
    n = 0
    for label, tests in INT_FILES.items():
        path = os.path.join(root, f"int_{label.replace(',', '_')}.gdn")
        with open(path, "w") as f:
            f.write(HELPERS + "".join(f"test {nm} {{\n  {body}\n}}\n" for nm, body in tests))
        p = subprocess.Popen([ctx.binary, "test", path], stdin=subprocess.DEVNULL, stdout=subprocess.PIPE, stderr=subprocess.PIPE)
        os.set_blocking(p.stdout.fileno(), False)
        out = b""
        t0 = time.time()
        while b"spin started" not in out and time.time() - t0 < 120 and p.poll() is None:
            try:
                chunk = p.stdout.read()
            except BlockingIOError:
                chunk = None
            if chunk:
                out += chunk
            else:
                time.sleep(0.02)
        if b"spin started" not in out:
            p.kill()
            raise Machinery(f"interrupted family: the endless test of [{label}] never started ({out[-200:]!r})")
        time.sleep(0.1)
        p.send_signal(signal.SIGINT)
        try:
            p.wait(timeout=120)
        except subprocess.TimeoutExpired:
            p.kill()
            ctx.violation(f"tests [{label}] interrupted by SIGINT: `garden test` does not stop", {"file": open(path).read()}, cli_cmd="garden test <file>, then Ctrl-C")
            continue
        os.set_blocking(p.stdout.fileno(), True)
        out += p.stdout.read() or b""
        text = out.decode("utf-8", "replace")
        failed, summary, problems = parse(text)
        n += 1
        ctx.outcome("interrupted: exit " + str(p.returncode))
        detail = {"file": open(path).read(), "stdout": text[-1500:], "exit": p.returncode}
        if p.returncode == 0:
            ctx.violation(f"tests [{label}] interrupted by SIGINT: exit status 0 although the interrupted test did not pass", detail, cli_cmd="garden test <file>, then Ctrl-C")
        elif p.returncode < 0 or p.returncode == 101:
            ctx.violation(f"tests [{label}] interrupted by SIGINT: `garden test` dies (rc {p.returncode})", detail)
        elif "t_spin" not in failed:
            ctx.violation(f"tests [{label}] interrupted by SIGINT: the interrupted test has no failed verdict", detail)
        elif summary is not None and summary[2] != len(failed):
            ctx.violation(f"tests [{label}] interrupted by SIGINT: summary counts differ from the listed verdicts", detail)
    return n


def same_name_family(ctx, root):
    """Two (and three) files that each define a test of the same name with different bodies: every selected test runs its own body, so
    the number of failures is the number of failing bodies whatever the order of the files, and the exit status follows."""
    n = 0
    kinds = ["pass", "assert-fail", "throw-3-deep"]
    for nfiles in (2, 3):
        for combo in itertools.product(kinds, repeat=nfiles):
            if len(set(combo)) == 1 and nfiles == 3:
                continue
            d = os.path.join(root, "same_" + "_".join(combo))
            os.makedirs(d, exist_ok=True)
            paths = []
            for i, k in enumerate(combo):
                with open(os.path.join(d, f"s{i}.gdn"), "w") as fh:
                    fh.write(HELPERS + f"test same_name {{\n  {KINDS[k][0]}\n}}\n")
                paths.append(f"s{i}.gdn")
            want_failed = sum(1 for k in combo if KINDS[k][1])
            for flt in (None, "same"):
                r = clijobs.run(ctx.binary, ["test"] + ([] if flt is None else ["-n", flt]) + paths, cwd=d, stdin=b"", timeout=120)
                failed, summary, problems = parse(r["out"])
                n += 1
                label = f"same-named tests [{', '.join(combo)}] in {nfiles} files" + ("" if flt is None else " with a filter")
                detail = {"files": {p_: open(os.path.join(d, p_)).read() for p_ in paths}, "stdout": r["out"][-1500:], "exit": r["rc"], "expected_failures": want_failed}
                cmd = "garden test " + " ".join(paths)
                if r["rc"] in (101, 134) or (isinstance(r["rc"], int) and r["rc"] < 0):
                    ctx.violation(f"{label}: `garden test` dies", detail, cli_cmd=cmd)
                elif summary is None or summary[0] != nfiles:
                    ctx.violation(f"{label}: {nfiles} tests selected but the summary says otherwise", detail, cli_cmd=cmd)
                elif len(failed) != want_failed or summary[2] != want_failed:
                    ctx.violation(f"{label}: a test's verdict is not the verdict of its own body", detail, cli_cmd=cmd)
                elif (r["rc"] != 0) != (want_failed > 0):
                    ctx.violation(f"{label}: exit status does not follow the verdicts", detail, cli_cmd=cmd)
                ctx.outcome("same-named tests: " + ("some fail" if want_failed else "all pass"))
    return n


def run(ctx):
    root = os.path.join(ctx.scratch, "c26")
    os.makedirs(root, exist_ok=True)
    # ---- invocations: (label, [[kinds of file 1], [kinds of file 2]?])
    layouts = []
    for n in (1, 2, 3):
        for seq in itertools.product(KIND_NAMES, repeat=n):
            layouts.append([list(seq)])
    splits = [(1, 1)] if ctx.quick else [(1, 1), (1, 2), (2, 1)]
    for a, b in splits:
        for seq in itertools.product(KIND_NAMES, repeat=a + b):
            layouts.append([list(seq[:a]), list(seq[a:])])
    stride = int(os.environ.get("GV_C26_STRIDE", "0"))      # development aid: every n-th layout only
    if stride:
        layouts = layouts[:len(KIND_NAMES)] + layouts[len(KIND_NAMES)::stride]
        ctx.cap(f"GV_C26_STRIDE={stride}")
    ctx.bound("test_kinds", KIND_NAMES)
    ctx.bound("max_tests_per_invocation", 3)
    ctx.bound("two_file_splits", splits)

    jobs = []     # (layout index, filter | None)
    for li, files in enumerate(layouts):
        n = sum(len(f) for f in files)
        names = NAMES[:n]
        filters = [None, ""] + all_substrings(names) + [NOMATCH]
        if ctx.quick and n == 3 and len(files) == 1:
            filters = [None] + names          # quick: 3-test files run unfiltered and each test alone; every filter on the <=2-test files
        for flt in filters:
            jobs.append((li, flt))

    if os.environ.get("GV_COUNT_ONLY"):      # development aid: size of the enumeration without running it
        raise Machinery(f"count only: {len(jobs)} processes")
    def do_layout(li):
        files = layouts[li]
        d = os.path.join(root, f"l{li}")
        os.makedirs(d, exist_ok=True)
        names = iter(NAMES)
        paths = []
        for fi, kinds in enumerate(files):
            p = os.path.join(d, f"f{fi}.gdn")
            with open(p, "w") as fh:
                fh.write(file_src(kinds, [next(names) for _ in kinds]))
            paths.append(f"f{fi}.gdn")
        return d, paths

    dirs = [do_layout(li) for li in range(len(layouts))]

    # preflight: every kind alone behaves as designed (otherwise the generator, not garden, is wrong)
    for li, files in enumerate(layouts[:len(KIND_NAMES)]):
        d, paths = dirs[li]
        r = clijobs.run(ctx.binary, ["test"] + paths, cwd=d, stdin=b"", timeout=120)
        failed, summary, problems = parse(r["out"])
        want = KINDS[files[0][0]][1]
        if problems or summary is None or summary[0] != 1 or (len(failed) == 1) != want or "Parse error" in r["err"]:
            raise Machinery(f"test kind {files[0][0]} alone is expected to {'fail' if want else 'pass'}: stdout {r['out']!r} stderr {r['err'][-300:]!r}")

    def do_job(job):
        li, flt = job
        d, paths = dirs[li]
        args = ["test"] + ([] if flt is None else ["-n", flt]) + paths
        r = clijobs.run(ctx.binary, args, cwd=d, stdin=b"", timeout=60)
        if r["timeout"]:
            r = clijobs.run(ctx.binary, args, cwd=d, stdin=b"", timeout=300)
        return r

    res = clijobs.pmap(do_job, jobs)
    by_layout = {}
    for (li, flt), r in zip(jobs, res):
        by_layout.setdefault(li, {})[flt] = r

    def fclass(flt, names):
        if flt is None:
            return "no filter"
        if flt == "":
            return "empty filter"
        sel = [i for i, n in enumerate(names) if flt in n]
        if not sel:
            return "filter matching nothing"
        return "filter selecting test" + ("s " if len(sel) > 1 else " ") + "+".join(str(i + 1) for i in sel) + f" of {len(names)}"

    n_fail_exit = n_ok_exit = 0
    for li, files in enumerate(layouts):
        kinds = [k for f in files for k in f]
        names = NAMES[:len(kinds)]
        label = " | ".join(", ".join(f) for f in files)
        runs = by_layout[li]
        # verdict of each test alone
        alone = {}
        for k, nm in zip(kinds, names):
            r = runs[nm]
            failed, summary, problems = parse(r["out"])
            alone[nm] = nm in failed
            if alone[nm] != KINDS[k][1] and len(kinds) == 1:
                raise Machinery(f"test kind {k} alone in a file is expected to {'fail' if KINDS[k][1] else 'pass'} but did not: {r['out']!r} {r['err'][-300:]!r}")
        for flt, r in runs.items():
            cls = fclass(flt, names)
            detail = {"files": [file_src(f, nms) for f, nms in zip(files, split_names(files))], "args": (["-n", flt] if flt is not None else []), "stdout": r["out"][-600:],
                      "stderr_tail": r["err"][-300:], "exit": r["rc"]}
            cmd = "garden test " + ("" if flt is None else f"-n '{flt}' ") + " ".join(f"f{i}.gdn" for i in range(len(files)))
            sig = lambda what: f"tests [{label}] with {cls}: {what}"
            k = clijobs.failure_kind(r)
            if k or r["rc"] not in (0, 1):
                ctx.violation(sig(f"garden test dies ({k or 'exit ' + str(r['rc'])})"), detail, cli_cmd=cmd)
                continue
            failed, summary, problems = parse(r["out"])
            selected = [nm for nm in names if (flt or "") in nm]
            ctx.outcome(f"exit {r['rc']}")
            if r["rc"] == 0:
                n_ok_exit += 1
            else:
                n_fail_exit += 1
            for p in problems:
                ctx.violation(sig(p), detail, cli_cmd=cmd)
            # exit status honest
            if (r["rc"] != 0) != (len(failed) > 0):
                ctx.violation(sig(f"exit status {r['rc']} although {len(failed)} test(s) reported failed"), detail, cli_cmd=cmd)
            # summary counts equal the verdicts
            if summary is None:
                if selected and not problems:
                    ctx.violation(sig(f"'No tests found' although {len(selected)} test name(s) contain the filter"), detail, cli_cmd=cmd)
            else:
                total, npass, nfail = summary
                if total != len(selected):
                    ctx.violation(sig(f"summary counts {total} tests, the filter selects {len(selected)}"), detail, cli_cmd=cmd)
                if nfail != len(failed) or npass != total - len(failed):
                    ctx.violation(sig(f"summary says {npass} passed and {nfail} failed, output lists {len(failed)} failed"), detail, cli_cmd=cmd)
            if len(set(failed)) != len(failed) or any(f not in selected for f in failed):
                ctx.violation(sig("a test not selected by the filter (or listed twice) is reported failed"), detail, cli_cmd=cmd)
            # independence: same verdict as alone
            for i, nm in enumerate(selected):
                v = nm in failed
                if v != alone[nm]:
                    pos = names.index(nm)
                    ctx.violation(sig(f"test {pos + 1} ({kinds[pos]}) {'fails' if v else 'passes'} here but {'fails' if alone[nm] else 'passes'} when run alone with -n"),
                                  dict(detail, alone_stdout=runs[nm]["out"][-400:]), cli_cmd=cmd)
    if n_ok_exit == 0 or n_fail_exit == 0:
        raise Machinery(f"vacuous: exit 0 x{n_ok_exit}, exit 1 x{n_fail_exit}")
    n_int = interrupted_family(ctx, root)
    n_same = same_name_family(ctx, root)
    ctx.bound("same_name_invocations", n_same)
    ctx.add(states=len(layouts) + n_int, transitions=len(jobs) + n_int, nontrivial=sum(1 for l in layouts if sum(len(f) for f in l) > 1) + n_int)
    ctx.bound("invocation_layouts", len(layouts))
    ctx.bound("garden_test_runs", len(jobs))
    for li in (0, len(layouts) // 2, len(layouts) - 1):
        files = layouts[li]
        ctx.sample({"files": [file_src(f, nms) for f, nms in zip(files, split_names(files))], "filters": [f for f in by_layout[li]], "stdout_no_filter": by_layout[li][None]["out"][-300:]})
    return ("every sequence of 1..3 tests over 8 kinds in one file, and split over two files, x {no -n, -n '', every substring of a test name, a filter matching nothing}; `garden test` "
            "run once per (layout, filter); verdict of each test alone taken from the `-n <name>` run of the same files. Non-trivial = layouts with at least two tests.")


def split_names(files):
    it = iter(NAMES)
    return [[next(it) for _ in f] for f in files]
