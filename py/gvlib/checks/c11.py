"""C11 incremental session input equals running it as one program."""
REG = dict(
    engine='E1-enum',
    technique='bounded-exhaustive enumeration of dependency-respecting input sequences, each executed twice on the real JSON-session handler (one request per input vs. one request for the whole program), differential oracle',
    text="All dependency-respecting sequences of 1..4 (quick) / 1..5 (thorough) distinct inputs from a pool of 29 (two functions, the second calling the first; an enum; a struct; two lets, the second using the first; one assignment to an earlier let; five expressions using earlier names; a counter variable with a `for` loop, a `while` loop, a loop inside a top-level block and a loop followed by a definition in the same input, and two expressions reading them; two methods with their enum/struct receiver types in either order and a call of each; a function, the struct its signature names and a higher-order function in any order, and a call passing the first to the last), the last input always an expression. Oracle: the value displayed for the last expression in the incremental session equals the value displayed when the inputs are joined with newlines and sent as ONE request to a fresh session (the `Loaded N definitions ..., and the expression evaluated to V.` wrapper is stripped); additionally canon(Env) of both sessions restricted to user-visible state (user namespace entries, type names, test names, top-level bindings, namespace of the top frame) is equal.",
    note='Every name is defined once and every input is error-free (checked: an error in the incremental session is a generator error). Function values are displayed with their definition line, which legitimately differs between the two layouts and is masked. Value stacks and pending expressions are not compared.',
    design_ref='DESIGN.md §6 C11',
)

import json
import re

from ..core import Machinery
from ..bfs import run_req
from .c09 import split_frames

POOL = [  # (id, kind, source, direct dependencies)
    ("f1", "fun", "fun f1(x) { x + 1 }", []),
    ("f2", "fun", "fun f2(x) { f1(x) * 2 }", ["f1"]),
    ("Shape", "enum", "enum Shape { Circle(Int), Dot }", []),
    ("Pt", "struct", "struct Pt { px: Int, py: Int }", []),
    ("a", "let", "let a = 2", []),
    ("b", "let", "let b = a * 3", ["a"]),
    ("asg", "assign", "a = a + 5", ["a"]),
    ("e_f1", "expr", "f1(4)", ["f1"]),
    ("e_f2", "expr", "f2(a)", ["f2", "a"]),
    ("e_enum", "expr", "Circle(7)", ["Shape"]),
    ("e_struct", "expr", "Pt{ px: a, py: b }", ["Pt", "a", "b"]),
    ("e_sum", "expr", "a + 1", ["a"]),
    # loops, blocks and compound inputs that update a top-level variable (a request whose last expression is a loop, a loop
    # followed by a definition in the same request, a loop inside a top-level block)
    ("tot", "let", "let tot = 0", []),
    ("loop1", "stmt", "for n in [1, 2, 3] { tot += n }", ["tot"]),
    ("loopdef", "compound", "for n in [4, 5] { tot += n }\nfun f3(x) { x * 3 }", ["tot"]),
    ("blk", "block", "{ for n in [6] { tot += n } }", ["tot"]),
    ("wh", "stmt", "while tot < 3 { tot += 1 }", ["tot"]),
    ("e_tot", "expr", "tot", ["tot"]),
    ("e_f3", "expr", "f3(tot)", ["loopdef", "tot"]),
    # a method and its receiver type, in either order (a method may arrive one request before the enum or struct it is defined on)
    ("m_area", "method", "method area(this: Sq): Int { 9 }", []),
    ("Sq", "enum", "enum Sq { Mk }", []),
    ("m_w", "method", "method w(this: Rc): Int { this.rw }", []),
    ("Rc", "struct", "struct Rc { rw: Int }", []),
    ("e_area", "expr", "Mk.area()", ["m_area", "Sq"]),
    ("e_w", "expr", "Rc{ rw: 4 }.w()", ["m_w", "Rc"]),
    # a function whose signature names a struct that may arrive later, used first-class through a Fun<..> parameter
    ("f_dim", "fun", "fun area_of(d: Dim): Int { d.dw * 2 }", []),
    ("Dim", "struct", "struct Dim { dw: Int }", []),
    ("hof", "fun", "fun apply_dim(g: Fun<(Dim), Int>, d: Dim): Int { g(d) }", []),
    ("e_hof", "expr", "apply_dim(area_of, Dim{ dw: 3 })", ["f_dim", "Dim", "hof"]),
]
BY_ID = {p[0]: p for p in POOL}
WRAP = re.compile(r"^(?:Loaded .*?|Ran .*?), and the expression evaluated to (.*)\.$", re.S)
FUN_LINE = re.compile(r"(<fun [^ >]+ [^:>]+):\d+>")


def sequences(max_len):
    """Every dependency-respecting sequence of distinct pool inputs, shortest first, whose last input is an expression."""
    out = []
    level = [()]
    for n in range(1, max_len + 1):
        nxt = []
        for seq in level:
            have = set(seq)
            for pid, kind, _, deps in POOL:
                if pid in have or any(d not in have for d in deps):
                    continue
                s = seq + (pid,)
                nxt.append(s)
                if kind == "expr":
                    out.append(s)
        level = nxt
    return out


def value_of(texts):
    """('Ok', displayed value) | ('Err', messages) | ('none', ..) for the single answer to a request."""
    ans = []
    for t in texts:
        d = json.loads(t)
        k = next(iter(d["kind"]))
        if k in ("printed", "printed_stderr"):
            continue
        if k != "evaluate":
            ans.append((k, json.dumps(d["kind"][k])[:200]))
            continue
        v = d["kind"][k]["value"]
        if "Ok" in v:
            ans.append(("Ok", v["Ok"]))
        else:
            ans.append(("Err", tuple(e["message"] for e in v["Err"])))
    return ans[0] if len(ans) == 1 else ("MULTI", tuple(ans))


def strip_wrapper(v):
    if v is None:
        return None
    m = WRAP.match(v)
    return m.group(1) if m else v


def visible(canon):
    """User-visible part of canon(Env): top-level bindings, namespace of the top frame, user namespace entries, tests, type count."""
    frames = split_frames(canon)
    i = canon.index("NS[")
    rest = FUN_LINE.sub(r"\1>", canon[i:])
    ns = canon[canon.index("|ns=") + 4:canon.index("]", canon.index("|ns="))]
    return {"frames": len(frames), "pending": bool(frames[-1][1]), "bindings": FUN_LINE.sub(r"\1>", frames[0][3]), "ns": ns, "definitions": rest}


def check_chunk(ctx, part, res, found, values):
    for k, s in enumerate(part):
        inc, bat = res[2 * k], res[2 * k + 1]
        srcs = [BY_ID[p][2] for p in s]
        for name, r in (("incremental", inc), ("batch", bat)):
            if "crash" in r or "timeout" in r:
                raise Machinery(f"{name} session died on {srcs}: {r}")
        def last_value(r, n, unwrap):
            if "panic" in r:
                return ("PANIC", re.sub(r"\d+", "N", r["panic"]["message"].split(" @ ")[0]))
            vals = [value_of(x) for x in r["responses"]]
            bad = [(i, v) for i, v in enumerate(vals) if v[0] != "Ok"]
            if bad:
                return ("Err at input %d" % (bad[0][0] + 1 if not unwrap else len(srcs)), bad[0][1][1])
            v = vals[-1]
            return ("Ok", strip_wrapper(v[1]) if unwrap else v[1])

        v_inc = last_value(inc, len(srcs), False)
        v_bat = last_value(bat, 1, True)
        if v_inc[0] != "Ok" and v_bat[0] != "Ok":
            # the pool is error-free by construction: failing both ways means the generator (or its reading of Garden) is wrong
            raise Machinery(f"pool inputs {srcs} fail in both layouts: incremental {v_inc}, one program {v_bat}")
        values.add(v_inc)
        ctx.outcome("value:" + (v_inc[1] if isinstance(v_inc[1], str) and len(v_inc[1]) < 30 else "long"))
        if v_inc != v_bat:
            what = "value of the last expression" if v_bat[0] == v_inc[0] == "Ok" else \
                (f"one-program run ends in {v_bat[0].split(' ')[0]}" if v_inc[0] == "Ok" else f"incremental run ends in {v_inc[0].split(' ')[0]}")
            found.append((s, what,
                          {"inputs": srcs, "incremental_value": v_inc, "one_program_value": v_bat}))
            continue
        vi, vb = visible(inc["canon"][-1]), visible(bat["canon"][-1])
        if vi != vb:
            diff = sorted(key for key in vi if vi[key] != vb[key])
            found.append((s, "session state afterwards (" + ",".join(diff) + ")",
                          {"inputs": srcs, "incremental_state": {d: vi[d] for d in diff}, "one_program_state": {d: vb[d] for d in diff}}))


def run(ctx):
    max_len = 4 if ctx.quick else 5
    seqs = sequences(max_len)
    ctx.bound("pool", len(POOL))
    ctx.bound("max_inputs", max_len)
    ctx.bound("sequences", len(seqs))
    found = []          # (seq, what differs, detail)
    values = set()
    n_jobs = 0
    CHUNK = 8000           # sequences per pool.map call (bounds memory: results carry canon strings)
    for lo in range(0, len(seqs), CHUNK):
        part = seqs[lo:lo + CHUNK]
        jobs = []
        for s in part:
            srcs = [BY_ID[p][2] for p in s]
            jobs.append({"op": "session", "requests": [run_req(x) for x in srcs], "canon": True, "tick_limit": 100000})
            jobs.append({"op": "session", "requests": [run_req("\n".join(srcs))], "canon": True, "tick_limit": 100000})
        res = ctx.pool.map(jobs, batch=32, timeout=30)
        for i, r in enumerate(res):
            if "timeout" in r:
                res[i] = ctx.pool.one(jobs[i], timeout=300)
        n_jobs += len(jobs)
        check_chunk(ctx, part, res, found, values)
    ctx.add(states=len(seqs), transitions=n_jobs, nontrivial=len(seqs))
    if len(values) < 6:
        raise Machinery(f"vacuous: only {len(values)} distinct last values over {len(seqs)} sequences")
    kinds_seen = {BY_ID[p][1] for s in seqs for p in s}
    if not kinds_seen >= {"fun", "enum", "struct", "let", "assign", "expr", "stmt", "compound", "block", "method"}:
        raise Machinery(f"vacuous: input kinds covered {sorted(kinds_seen)}")
    for s in (seqs[0], seqs[len(seqs) // 2], seqs[-1]):
        ctx.sample({"inputs": [BY_ID[p][2] for p in s]})

    # report minimal failing sequences only (no failing sequence whose input set is a proper subset and that differs the same way)
    minimal = []
    for s, what, d in found:        # `found` is shortest first
        if any(set(m[0]) < set(s) and m[1] == what for m in minimal):
            continue
        minimal.append((s, what, d))
    for s, what, d in minimal:
        kinds = sorted({BY_ID[p][1] for p in s})
        sig = f"inputs={'+'.join(kinds)} last={BY_ID[s[-1]][2]} differs={what}"
        confirm(ctx, d)
        ctx.violation(sig, d, cli_cmd="garden reftest-json-session on (a) one request per input and (b) one request with the inputs joined by \\n; compare the last responses")
    return (f"every dependency-respecting sequence of 1..{max_len} distinct inputs from the pool of 29 whose last input is an expression; each sequence is executed twice "
            "(incremental, one program). All sequences are non-trivial (they evaluate an expression that uses earlier inputs).")


def confirm(ctx, d):
    """Both layouts through the real CLI (`reftest-json-session`): the in-process difference must reproduce."""
    from .c09 import count_json_values, non_output, QUIET_ENV
    srcs = d["inputs"]
    out = {}
    for name, reqs, unwrap in (("incremental", [run_req(x) for x in srcs], False), ("one_program", [run_req("\n".join(srcs))], True)):
        path = ctx.tmpfile(f"c11/{name}.jsonl", "".join(r + "\n" for r in reqs))
        rc, so, se = ctx.cli(["reftest-json-session", path], timeout=60, env=QUIET_ENV)
        vals = [value_of([json.dumps(v)]) for v in non_output(count_json_values(so))]
        if rc != 0 or len(vals) != len(reqs):
            out[name] = ("exit %s, %d responses" % (rc, len(vals)), "")
            continue
        bad = [(i, v) for i, v in enumerate(vals) if v[0] != "Ok"]
        if bad:
            out[name] = ("Err at input %d" % (bad[0][0] + 1 if not unwrap else len(srcs)), bad[0][1][1])
        else:
            out[name] = ("Ok", strip_wrapper(vals[-1][1]) if unwrap else vals[-1][1])
    d["cli"] = {k: list(v) for k, v in out.items()}
    if "incremental_value" in d and out["incremental"] == out["one_program"]:
        raise Machinery(f"adapter drift: the real CLI shows no difference for {srcs}: {out}")
    ctx.cov["cli_confirmed"] += 1
