"""C14 subtyping is a preorder with the documented variance."""
import os
from ..core import Machinery

REG = dict(
    engine="E1-enum",
    technique="bounded-exhaustive enumeration of types up to a depth bound, laws evaluated on the real is_subtype (in-process loops)",
    text="Over a fixed signature (Any, NoValue, Int, String, Unit, a type parameter; List, Option, a user struct, Result, tuples of arity 0-2, Fun of arity 0-2) every "
         "type of depth <=1 (361 types, 6 leaves) and of depth <=2 (16 426 types, 3 leaves) is built as the real `Type` value and the laws are evaluated on the real "
         "`is_subtype`: reflexivity, top, bottom on every type; variance congruence of every unary constructor over all 361^2 argument pairs and of every binary "
         "constructor over all 73^4 argument 4-tuples; different head or arity => unrelated; transitivity over ALL triples (361^3 quick, 16 426^3 thorough) through "
         "the relation's bit matrix. Exhaustive within the depth bound; the 'unbounded, by proof' half of the quantifier is outside this technique and not claimed.",
    note="Types are built by the hook from the crate's own constructors (Type::list, Type::int, ...); Error types are excluded (the statement is about well-formed types "
         "without checker errors). Depth >2 and other signatures are not covered.",
    design_ref="DESIGN.md §6 C14",
)

NSH = 32


def run_mode(ctx, mode, universe, extra=None, nsh=NSH, timeout=600):
    jobs = [dict({"op": "types", "mode": mode, "universe": universe, "shard": i, "nshards": nsh}, **(extra or {})) for i in range(nsh)]
    res = ctx.pool.map(jobs, batch=1, timeout=timeout)
    tot = {"count": 0, "related": 0, "n_fail": 0, "failures": [], "universe": 0}
    for r in res:
        if "count" not in r:
            raise Machinery(f"types job {mode}/{universe} failed: {str(r)[:300]}")
        tot["count"] += r["count"]
        tot["related"] += r["related"]
        tot["n_fail"] += r["n_fail"]
        tot["failures"] += r["failures"]
        tot["universe"] = r["universe"]
    return tot


def report(ctx, prop_label, tot, universe):
    for f in tot["failures"]:
        sig = f"{f['law']} heads={'/'.join(f['heads'])}"
        ctx.violation(sig, {"law": f["law"], "types": f["types"], "note": f["extra"], "universe": universe})


def transitivity(ctx, universe):
    d = os.path.join(ctx.scratch, "matrix-" + universe.replace(":", "_"))
    os.makedirs(d, exist_ok=True)
    files = [os.path.join(d, f"rows{i}.bin") for i in range(NSH)]
    jobs = [{"op": "types", "mode": "matrix", "universe": universe, "shard": i, "nshards": NSH, "out": files[i]} for i in range(NSH)]
    res = ctx.pool.map(jobs, batch=1, timeout=1800)
    pairs = 0
    for r in res:
        if "count" not in r:
            raise Machinery(f"matrix job failed: {str(r)[:300]}")
        pairs += r["related"]
        n = r["universe"]
    tot = run_mode(ctx, "trans", universe, {"files": files}, timeout=1800)
    if tot["related"] != pairs:
        raise Machinery(f"matrix inconsistent: {tot['related']} related pairs read back, {pairs} written")
    for f in files:
        try:
            os.remove(f)
        except OSError:
            pass
    return n, pairs, tot


def run(ctx):
    d1 = "D1:6"
    d2 = "D2:3" if ctx.quick else "D2:4"
    ctx.bound("depth1_universe", d1)
    ctx.bound("depth2_universe", d2)
    states = 0
    trans = 0
    # singles on the big universe
    t = run_mode(ctx, "singles", d2)
    report(ctx, "singles", t, d2)
    n2 = t["universe"]
    states += n2
    trans += t["count"] * 6
    ctx.outcome("singles", t["count"])
    # unary variance over all pairs of D1
    t = run_mode(ctx, "variance1", d1)
    report(ctx, "variance1", t, d1)
    n1 = t["universe"]
    trans += t["count"] * (5 + 9)
    ctx.outcome("variance1 pairs", t["count"])
    ctx.outcome("variance1 related pairs", t["related"])
    if t["related"] < 1000 or t["related"] * 2 > t["count"]:
        raise Machinery(f"vacuous: {t['related']} related pairs of {t['count']}")
    # binary variance over all 4-tuples of the 3-leaf D1
    t = run_mode(ctx, "variance2", "D1:3", timeout=1800)
    report(ctx, "variance2", t, "D1:3")
    trans += t["count"] * 3
    ctx.outcome("variance2 4-tuples", t["count"])
    if t["count"] != 73 ** 4:
        raise Machinery(f"variance2 enumerated {t['count']} != 73^4")
    # heads
    t = run_mode(ctx, "heads", d1)
    report(ctx, "heads", t, d1)
    trans += t["count"]
    ctx.outcome("different-head pairs", t["count"])
    # transitivity on all triples
    tu = d1 if ctx.quick else "D2:3"
    ctx.bound("transitivity_universe", tu)
    n, pairs, t = transitivity(ctx, tu)
    report(ctx, "trans", t, tu)
    trans += n * n
    ctx.outcome("transitivity: a<:b pairs expanded over all c", pairs)
    ctx.bound("transitivity_triples", n ** 3)
    if not ctx.quick:
        n_, pairs_, t_ = transitivity(ctx, d1)
        report(ctx, "trans", t_, d1)
    ctx.add(states=states + n1, transitions=trans, nontrivial=states + n1 - 6)
    ctx.sample({"law": "contravariant:Fun1", "instance": "Fun<(Any), NoValue> <: Fun<(Int), Int>  iff  Int <: Any and NoValue <: Int"})
    ctx.sample({"law": "covariant:Result", "instance": "Result<List<NoValue>, Int> <: Result<List<Int>, Any>"})
    ctx.sample({"law": "transitive", "instance": f"all {n}^3 triples through the {n}x{n} bit matrix of the real is_subtype ({pairs} related pairs)"})
    return (f"types = every term of depth<=1 over 6 leaves ({n1}) and depth<=2 over {d2.split(':')[1]} leaves ({n2}); laws: reflexive/top/bottom on each, unary-constructor variance on all "
            f"{n1}^2 pairs (+ Fun1 with a 3x3 result grid), binary-constructor variance on all 73^4 4-tuples, head/arity mismatch on all pairs, transitivity on all {n}^3 triples. "
            "states = distinct types; transitions = is_subtype law evaluations; non-trivial = non-leaf types.")
