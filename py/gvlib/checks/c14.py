"""C14 subtyping is a preorder with the documented variance."""
import os
from ..core import Machinery

REG = dict(
    engine="E1-enum",
    technique="bounded-exhaustive enumeration of types up to a depth bound, laws evaluated on the real is_subtype (in-process loops)",
    text="Over a fixed signature (Any, NoValue, Int, String, Unit, a type parameter; List, Option, a user struct, Result, tuples of arity 0-2, Fun of arity 0-2) every "
         "type of depth <=1 (361 types, 6 leaves) and of depth <=2 (16 426 types, 3 leaves) is built as the real `Type` value and the laws are evaluated on the real "
         "`is_subtype`: reflexivity, top, bottom on every type; variance congruence of every unary constructor over all 361^2 argument pairs and of every binary "
         "constructor over all 73^4 argument 4-tuples; different head or arity => unrelated; transitivity over ALL triples (361^3 quick, 16 426^3 thorough) through "
         "the relation's bit matrix. Exhaustive within the depth bound; the 'unbounded, by proof' half of the quantifier is outside this technique and not claimed.",
    note="Use sites: 6 kinds of site (let / parameter / function return / closure return / struct field hint, early return) x 19 expressions of known static type x 15 hints are checked and run; "
         "check must accept exactly the pairs an independent reference relation (NoValue bottom, covariant containers, contravariant parameters) calls subtypes, and the runtime hint check must accept the accepted ones. "
         "Types are built by the hook from the crate's own constructors (Type::list, Type::int, ...); Error types are excluded (the statement is about well-formed types "
         "without checker errors). Depth >2 and other signatures are not covered.",
    design_ref="DESIGN.md §6 C14",
)

NSH = 32


def run_mode(ctx, mode, universe, extra=None, nsh=NSH, timeout=600):
    jobs = [dict({"op": "types", "mode": mode, "universe": universe, "shard": i, "nshards": nsh}, **(extra or {})) for i in range(nsh)]
    res = ctx.pool.map(jobs, batch=1, timeout=timeout)
    tot = {"count": 0, "related": 0, "n_fail": 0, "failures": [], "universe": 0}
    for r in res:
        if "count" not in r:
            raise Machinery(f"types job {mode}/{universe} failed: {str(r)[:300]}")
        tot["count"] += r["count"]
        tot["related"] += r["related"]
        tot["n_fail"] += r["n_fail"]
        tot["failures"] += r["failures"]
        tot["universe"] = r["universe"]
    return tot


def report(ctx, prop_label, tot, universe):
    for f in tot["failures"]:
        sig = f"{f['law']} heads={'/'.join(f['heads'])}"
        ctx.violation(sig, {"law": f["law"], "types": f["types"], "note": f["extra"], "universe": universe})


def transitivity(ctx, universe):
    d = os.path.join(ctx.scratch, "matrix-" + universe.replace(":", "_"))
    os.makedirs(d, exist_ok=True)
    files = [os.path.join(d, f"rows{i}.bin") for i in range(NSH)]
    jobs = [{"op": "types", "mode": "matrix", "universe": universe, "shard": i, "nshards": NSH, "out": files[i]} for i in range(NSH)]
    res = ctx.pool.map(jobs, batch=1, timeout=1800)
    pairs = 0
    for r in res:
        if "count" not in r:
            raise Machinery(f"matrix job failed: {str(r)[:300]}")
        pairs += r["related"]
        n = r["universe"]
    tot = run_mode(ctx, "trans", universe, {"files": files}, timeout=1800)
    if tot["related"] != pairs:
        raise Machinery(f"matrix inconsistent: {tot['related']} related pairs read back, {pairs} written")
    for f in files:
        try:
            os.remove(f)
        except OSError:
            pass
    return n, pairs, tot


def run(ctx):
    d1 = "D1:6"
    d2 = "D2:3" if ctx.quick else "D2:4"
    ctx.bound("depth1_universe", d1)
    ctx.bound("depth2_universe", d2)
    states = 0
    trans = 0
    # singles on the big universe
    t = run_mode(ctx, "singles", d2)
    report(ctx, "singles", t, d2)
    n2 = t["universe"]
    states += n2
    trans += t["count"] * 6
    ctx.outcome("singles", t["count"])
    # unary variance over all pairs of D1
    t = run_mode(ctx, "variance1", d1)
    report(ctx, "variance1", t, d1)
    n1 = t["universe"]
    trans += t["count"] * (5 + 9)
    ctx.outcome("variance1 pairs", t["count"])
    ctx.outcome("variance1 related pairs", t["related"])
    if t["related"] < 1000 or t["related"] * 2 > t["count"]:
        raise Machinery(f"vacuous: {t['related']} related pairs of {t['count']}")
    # binary variance over all 4-tuples of the 3-leaf D1
    t = run_mode(ctx, "variance2", "D1:3", timeout=1800)
    report(ctx, "variance2", t, "D1:3")
    trans += t["count"] * 3
    ctx.outcome("variance2 4-tuples", t["count"])
    if t["count"] != 73 ** 4:
        raise Machinery(f"variance2 enumerated {t['count']} != 73^4")
    # heads
    t = run_mode(ctx, "heads", d1)
    report(ctx, "heads", t, d1)
    trans += t["count"]
    ctx.outcome("different-head pairs", t["count"])
    # transitivity on all triples
    tu = d1 if ctx.quick else "D2:3"
    ctx.bound("transitivity_universe", tu)
    n, pairs, t = transitivity(ctx, tu)
    report(ctx, "trans", t, tu)
    trans += n * n
    ctx.outcome("transitivity: a<:b pairs expanded over all c", pairs)
    ctx.bound("transitivity_triples", n ** 3)
    if not ctx.quick:
        n_, pairs_, t_ = transitivity(ctx, d1)
        report(ctx, "trans", t_, d1)
    n_sites = use_sites(ctx)
    ctx.add(states=states + n1 + n_sites, transitions=trans + 2 * n_sites, nontrivial=states + n1 - 6 + n_sites)
    ctx.sample({"law": "contravariant:Fun1", "instance": "Fun<(Any), NoValue> <: Fun<(Int), Int>  iff  Int <: Any and NoValue <: Int"})
    ctx.sample({"law": "covariant:Result", "instance": "Result<List<NoValue>, Int> <: Result<List<Int>, Any>"})
    ctx.sample({"law": "transitive", "instance": f"all {n}^3 triples through the {n}x{n} bit matrix of the real is_subtype ({pairs} related pairs)"})
    return (f"types = every term of depth<=1 over 6 leaves ({n1}) and depth<=2 over {d2.split(':')[1]} leaves ({n2}); laws: reflexive/top/bottom on each, unary-constructor variance on all "
            f"{n1}^2 pairs (+ Fun1 with a 3x3 result grid), binary-constructor variance on all 73^4 4-tuples, head/arity mismatch on all pairs, transitivity on all {n}^3 triples. "
            "states = distinct types; transitions = is_subtype law evaluations; non-trivial = non-leaf types.")

# ---------------------------------------------------------------------------------------------------------------------
# The relation at its use sites: wherever the checker (and the runtime hint check) asks "is the type of this expression a
# subtype of that hint", the answer must be the documented relation, in the right direction.

NV = ("NoValue",)


def T(name, *args):
    return (name,) + args


def ref_subtype(a, b):
    """Reference relation on the small type terms used below, written from the statement: NoValue is bottom, user types and
    tuples are covariant, function types are contravariant in parameters and covariant in the result, everything else by name."""
    if a == NV:
        return True
    if a[0] != b[0] or len(a) != len(b):
        return False
    if a[0] == "Fun":
        (pa, ra), (pb, rb) = a[1:], b[1:]
        return len(pa) == len(pb) and all(ref_subtype(y, x) for x, y in zip(pa, pb)) and ref_subtype(ra, rb)
    return all(ref_subtype(x, y) for x, y in zip(a[1:], b[1:]))


def hint_src(t):
    if t[0] == "Tuple":
        return "(" + ", ".join(hint_src(x) for x in t[1:]) + ("," if len(t) == 2 else "") + ")"
    if t[0] == "Fun":
        return "Fun<(" + ", ".join(hint_src(x) for x in t[1]) + ("," if len(t[1]) == 1 else "") + "), " + hint_src(t[2]) + ">"
    return t[0] + ("<" + ", ".join(hint_src(x) for x in t[1:]) + ">" if len(t) > 1 else "")


INT, STR = T("Int"), T("String")
EXPRS = [  # (source, static type)
    ("1", INT), ('"s"', STR), ("None", T("Option", NV)), ("Some(1)", T("Option", INT)), ('Some("s")', T("Option", STR)),
    ("[]", T("List", NV)), ("[1]", T("List", INT)), ('["s"]', T("List", STR)), ("[[]]", T("List", T("List", NV))), ("[[1]]", T("List", T("List", INT))),
    ("(1, [])", T("Tuple", INT, T("List", NV))), ("(1, [2])", T("Tuple", INT, T("List", INT))),
    ("fun(a: List<Int>): Int { 1 }", T("Fun", (T("List", INT),), INT)), ("fun(a: List<NoValue>): Int { 1 }", T("Fun", (T("List", NV),), INT)),
    ("fun(a: Int): Option<NoValue> { None }", T("Fun", (INT,), T("Option", NV))), ("fun(a: Int): Option<Int> { Some(a) }", T("Fun", (INT,), T("Option", INT))),
    # function types whose only parameter is a tuple, and functions of two parameters (the two must not be confused)
    ("fun(p: (Int, String)): Int { 1 }", T("Fun", (T("Tuple", INT, STR),), INT)), ("fun(a: Int, b: String): Int { 1 }", T("Fun", (INT, STR), INT)),
    ("fun(): Int { 1 }", T("Fun", (), INT)),
]
HINTS = [INT, STR, T("Option", INT), T("Option", STR), T("List", INT), T("List", STR), T("List", T("List", INT)), T("Tuple", INT, T("List", INT)),
         T("Fun", (T("List", INT),), INT), T("Fun", (T("List", NV),), INT), T("Fun", (INT,), T("Option", INT)), T("Fun", (INT,), T("Option", NV)),
         T("Fun", (T("Tuple", INT, STR),), INT), T("Fun", (INT, STR), INT), T("Fun", (), INT)]
SITES = {
    "let hint": "let x: {H} = {E}\nprintln(\"done\")\n",
    "function return hint": "fun f(): {H} {{ {E} }}\nf()\nprintln(\"done\")\n",
    "parameter hint": "fun g(p: {H}): Int {{ 0 }}\ng({E})\nprintln(\"done\")\n",
    "closure return hint": "let c = fun(): {H} {{ {E} }}\nc()\nprintln(\"done\")\n",
    "struct field hint": "struct Bx {{ v: {H} }}\nlet b = Bx{{ v: {E} }}\nprintln(\"done\")\n",
    "early return against the return hint": "fun f(q: Bool): {H} {{ if q {{ return {E} }} {E} }}\nf(True)\nprintln(\"done\")\n",
}


def use_sites(ctx):
    cases = []
    for site, tmpl in SITES.items():
        for e, te in EXPRS:
            for h in HINTS:
                cases.append((site, e, te, h, tmpl.replace("{H}", hint_src(h)).replace("{E}", e).replace("{{", "{").replace("}}", "}")))
    chk = ctx.pool.map([{"op": "front", "src": c[4], "want": ["check"]} for c in cases], batch=32, timeout=120)
    run = ctx.pool.map([{"op": "run", "src": c[4], "tick_limit": 100000} for c in cases], batch=32, timeout=120)
    n_sub = n_not = 0
    for (site, e, te, h, src), c, r in zip(cases, chk, run):
        if c.get("parse_errors") or "diagnostics" not in c:
            raise Machinery(f"use-site program does not parse/check: {src!r} {str(c)[:200]}")
        errors = [d["message"] for d in c["diagnostics"] if d["severity"] == "error"]
        expected = ref_subtype(te, h)
        kinds = f"{te[0]} where {h[0]} is expected"
        outcome = (r.get("outcome") or {}).get("kind")
        msg = (r.get("outcome") or {}).get("message", "")
        if expected:
            n_sub += 1
            if errors:
                ctx.violation(f"{site}: a subtype is rejected by check ({kinds})", {"src": src, "expression_type": hint_src(te) if te != NV else "NoValue", "hint": hint_src(h), "check_errors": errors},
                              cli_cmd="garden check <file with src>")
            elif outcome != "ok" or r.get("stdout") != "done\n":
                ctx.violation(f"{site}: a subtype is rejected at run time ({kinds})", {"src": src, "outcome": r.get("outcome"), "stdout": r.get("stdout")}, cli_cmd="garden run <file with src>")
        else:
            n_not += 1
            if not errors:
                ctx.violation(f"{site}: a type that is not a subtype is accepted by check ({kinds})", {"src": src, "expression_type": hint_src(te), "hint": hint_src(h), "run_outcome": r.get("outcome")},
                              cli_cmd="garden check <file with src>")
    ctx.outcome("use sites: subtype pairs", n_sub)
    ctx.outcome("use sites: non-subtype pairs", n_not)
    ctx.bound("use_site_programs", len(cases))
    if n_sub < 100 or n_not < 100:
        raise Machinery(f"vacuous use-site exploration: {n_sub} subtype / {n_not} non-subtype cases")
    ctx.sample({"site": "parameter hint", "src": SITES["parameter hint"].replace("{H}", "Fun<(List<Int>,), Int>").replace("{E}", "fun(a: List<NoValue>): Int { 1 }").replace("{{", "{").replace("}}", "}")})
    return len(cases)
