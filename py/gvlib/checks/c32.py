"""C32 prelude string and list functions match their documentation and always terminate."""
REG = dict(
    engine='E1-enum',
    technique='bounded-exhaustive enumeration of argument vectors for every prelude string/list function, executed on the real interpreter, compared with a reference implementation written from the doc comments',
    text="For each of 37 prelude functions/methods (17 String, 14 List, range, sort_nums, min, max, 2 Option) every argument vector over: receiver strings of length <=3 (quick) | <=4 (thorough) and needles/separators/prefixes of length <=2 (incl. \"\") over {a, b, ',', space, e-acute} (plus LF for lines and the trim family); lists of length <=3 | <=4 over {0, 1, -1} (sort_nums also MAX/MIN, join/enumerate/index_of also lists of strings); ints from {-1,0,1,2,3,MAX,MIN} (+4,5,MAX-1,MIN+1 thorough); two closures each for map/filter. Each call runs on the real interpreter; string_repr of the result must equal the reference (py/gvlib/ref_prelude.py, one line per function, from the doc comment; character offsets as documented). Every call must end within 100k ticks. Fully exhaustive over these pools.",
    note="Where the documentation is silent (empty needle, substring/slice indices outside the string/list, range longer than 1000) only 'terminates with a value or a Garden error' is demanded; those cases are counted under unspecified:*. Calls whose reference is a value are batched (<=250 per program, one line of output each) and re-run one per program on any disagreement; all other calls run one per program. Strings longer than the bound, other characters (tabs, CR, combining marks) and lists of other element types are not covered.",
    design_ref='DESIGN.md §6 C32',
)

import itertools
from ..core import Machinery
from .. import builtins as bi
from .. import ref_prelude as rp
from ..ref_prelude import MAX, MIN, Closure, Some, NONE

ALPHA = ["a", "b", ",", " ", "é"]
TICKS = 100000
BATCH = 250


def strings(alpha, n):
    return ["".join(t) for k in range(n + 1) for t in itertools.product(alpha, repeat=k)]


def lists(alpha, n):
    return [list(t) for k in range(n + 1) for t in itertools.product(alpha, repeat=k)]


MAP_F = [Closure("fun(x: Int) { x + 1 }", lambda x: x + 1), Closure("fun(x: Int) { (x, [x]) }", lambda x: (x, [x]))]
FILTER_F = [Closure("fun(x: Int) { x > 0 }", lambda x: x > 0), Closure("fun(x: Int) { x != 1 }", lambda x: x != 1)]


def build_cases(quick):
    """[(function, args)] simplest first within each function."""
    hl = 3 if quick else 4
    H = strings(ALPHA, hl)                    # receivers / haystacks
    N = strings(ALPHA, 2)                     # needles, separators, prefixes (incl. "")
    AFTER = strings(ALPHA, 1 if quick else 2)
    WS = strings(ALPHA + ["\n"], hl)          # trim family and lines: LF as well
    L = lists([0, 1, -1], hl)
    LS = lists(["", "a", "b,", "é"], 3)       # lists of strings
    LBIG = lists([0, 1, -1, MAX, MIN], hl)
    I = [-1, 0, 1, 2, 3, MAX, MIN] + ([] if quick else [4, 5, MAX - 1, MIN + 1])
    IR = sorted(set(I + [MAX - 1, MIN + 1]))
    c = []
    for f in ("starts_with", "ends_with", "contains", "index_of", "split", "split_once", "strip_prefix", "strip_suffix"):
        c += [("String::" + f, (h, n)) for h in H for n in N]
    c += [("String::replace", (h, n, a)) for h in H for n in N for a in AFTER]
    c += [("String::join", (sep, items)) for items in LS for sep in N]
    for f in ("trim_left", "trim_right", "trim", "lines", "chars", "len"):
        c += [("String::" + f, (s,)) for s in WS]
    c += [("String::substring", (h, i, j)) for h in H for i in I for j in I]
    for f in ("len", "first", "last", "is_empty", "is_non_empty", "enumerate"):
        c += [("List::" + f, (l,)) for l in L]
    c += [("List::enumerate", (l,)) for l in LS if l]
    c += [("List::append", (l, v)) for l in L for v in (0, 1, -1)]
    c += [("List::concat", (l, o)) for l in L for o in L]
    c += [("List::contains", (l, v)) for l in L for v in (0, 1, -1, 2)]
    c += [("List::index_of", (l, v)) for l in L for v in (0, 1, -1, 2)]
    c += [("List::index_of", (l, v)) for l in LS for v in ("", "a", "é", "b")]
    c += [("List::get", (l, i)) for l in L for i in I]
    c += [("List::slice", (l, i, j)) for l in L for i in I for j in I]
    c += [("List::map", (l, f)) for l in L for f in MAP_F]
    c += [("List::filter", (l, f)) for l in L for f in FILTER_F]
    c += [("sort_nums", (l,)) for l in LBIG]
    c += [("range", (i, j)) for i in IR for j in IR]
    c += [("max", (i, j)) for i in IR for j in IR]
    c += [("min", (i, j)) for i in IR for j in IR]
    c += [("Option::or_throw", (o,)) for o in (NONE, Some(0), Some("a"))]
    c += [("Option::or_value", (o, 5)) for o in (NONE, Some(0), Some(1))]
    bounds = dict(receiver_string_len=hl, needle_len=2, replace_after_len=1 if quick else 2, alphabet="a b , space é (+LF for trim*/lines/chars/len)",
                  list_len=hl, list_alphabet="0 1 -1 (sort_nums: + MAX MIN)", string_lists=len(LS), ints=[str(i) for i in I], range_min_max_ints=len(IR))
    return c, bounds


# ---------------------------------------------------------------- argument classes (for signatures)
def multibyte(*xs):
    return ", multi-byte" if any(isinstance(x, str) and any(ord(ch) > 127 for ch in x) for x in xs) else ""


def extreme(*xs):
    return ", extreme int" if any(isinstance(x, int) and abs(x) >= 2**62 for x in xs) else ""


def cls_needle(s, n, *more):
    if n == "": return "empty needle"
    if s == "": return "empty receiver"
    i = s.find(n)
    if i < 0: pos = "needle absent"
    elif s == n: pos = "needle is whole string"
    elif i == 0: pos = "needle at start"
    elif i + len(n) == len(s): pos = "needle at end"
    else: pos = "needle in middle"
    return pos + multibyte(s, n, *more)


def cls_trim(f, s):
    lead, trail = s[:len(s) - len(s.lstrip())], s[len(s.rstrip()):]
    rel = {"trim_left": lead, "trim_right": trail, "trim": lead + trail}[f]
    return ("nothing to remove" if rel == "" else "LF among the whitespace to remove" if "\n" in rel else "spaces to remove") + multibyte(s)


def classify(name, a):
    f = name.split("::")[-1]
    if name in ("String::starts_with", "String::ends_with", "String::contains", "String::index_of", "String::split", "String::split_once",
                "String::strip_prefix", "String::strip_suffix"):
        return cls_needle(a[0], a[1])
    if name == "String::replace": return cls_needle(a[0], a[1], a[2])
    if name == "String::join":
        return ("empty list" if not a[1] else "one item" if len(a[1]) == 1 else "several items") + (", empty separator" if a[0] == "" else "") + multibyte(a[0], *a[1])
    if name in ("String::trim_left", "String::trim_right", "String::trim"): return cls_trim(f, a[0])
    if name == "String::lines":
        s = a[0]
        return ("empty string" if s == "" else "no LF" if "\n" not in s else "trailing LF" if s.endswith("\n") and s.count("\n") == 1 else "inner LF") + multibyte(s)
    if name in ("String::chars", "String::len"): return ("empty string" if a[0] == "" else "non-empty string") + multibyte(a[0])
    if name == "String::substring":
        s, i, j = a
        k = "from<0" if i < 0 else "from>to" if i > j else "from>len" if i > len(s) else "to>len" if j > len(s) else "in range"
        return k + extreme(i, j) + multibyte(s)
    if name == "List::slice":
        l, i, j = a
        j2 = len(l) + j if j < 0 else j
        k = "i<0" if i < 0 else "i>len" if i > len(l) else "negative j before the start" if j2 < 0 else "j>len" if j2 > len(l) else "i>j" if i > j2 else ("negative j" if j < 0 else "in range")
        return k + extreme(i, j)
    if name == "List::get":
        l, i = a
        return ("index<0" if i < 0 else "index>=len" if i >= len(l) else "index in range") + extreme(i)
    if name in ("range", "max", "min"):
        return ("x<y" if a[0] < a[1] else "x==y" if a[0] == a[1] else "x>y") + extreme(*a)
    if name in ("List::contains", "List::index_of"):
        l, v = a
        return ("empty list" if not l else "item absent" if v not in l else "item first" if l[0] == v else "item later") + multibyte(v, *l)
    if name in ("List::map", "List::filter"):
        fs = MAP_F if f == "map" else FILTER_F
        return f"closure {[c.src for c in fs].index(a[1].src) + 1}, " + ("empty list" if not a[0] else "non-empty list")
    if name == "List::concat": return ("empty" if not a[0] else "non-empty") + " + " + ("empty" if not a[1] else "non-empty")
    if name == "sort_nums":
        l = a[0]
        return ("empty list" if not l else "one item" if len(l) == 1 else "already sorted" if l == sorted(l) else "unsorted") + extreme(*l)
    if name.startswith("Option::"): return "None" if a[0] is NONE else "Some"
    if name.startswith("List::"): return ("empty list" if not a[0] else "non-empty list") + multibyte(*[x for x in a[0]])
    raise KeyError(name)


def nontrivial(a):
    """No empty string / empty list among the arguments (and for string lists no empty list)."""
    return all(not ((isinstance(x, (str, list))) and len(x) == 0) for x in a)


# ---------------------------------------------------------------- run
def single_job(name, args):
    return {"op": "run", "src": f"println(string_repr({rp.call_src(name, args)}))\n", "tick_limit": TICKS}


def check_table(ctx):
    """The functions of the reference exist in the repository's prelude with that receiver; list public String/List methods without a reference."""
    table = [f for f in bi.load(ctx) if f["file"] == "__prelude.gdn" and f["public"]]
    have = set()
    for f in table:
        if f["kind"] == "method" and f["recv_hint"]:
            have.add(f"{f['recv_hint'][1]}::{f['name']}")
        elif f["kind"] == "fun":
            have.add(f["name"])
    missing = [n for n in rp.REF if n not in have]
    if missing:
        raise Machinery(f"adapter drift: the prelude no longer defines {missing}")
    ctx.bound("public_String_List_methods_without_reference", sorted(n for n in have if n.split("::")[0] in ("String", "List") and "::" in n and n not in rp.REF))


def run(ctx):
    check_table(ctx)
    cases, bounds = build_cases(ctx.quick)
    if len(set((n, rp.call_src(n, a)) for n, a in cases)) != len(cases):
        raise Machinery("duplicate cases in the enumeration")
    for k, v in bounds.items():
        ctx.bound(k, v)
    refs = [rp.reference(n, a) for n, a in cases]
    per_fun = {}
    for (n, _), r in zip(cases, refs):
        d = per_fun.setdefault(n, {"cases": 0, "val": 0, "exc": 0, "any": 0, "lit": 0})
        d["cases"] += 1
        d[r[0]] += 1

    # ---- phase 1: value cases batched per function; everything else one call per program
    jobs, meta = [], []                      # meta: list of case indices in the job
    by_fun = {}
    for idx, ((n, a), r) in enumerate(zip(cases, refs)):
        if r[0] == "val":
            by_fun.setdefault(n, []).append(idx)
        else:
            jobs.append(single_job(n, a)); meta.append([idx])
    for n, idxs in by_fun.items():
        for i in range(0, len(idxs), BATCH):
            chunk = idxs[i:i + BATCH]
            src = "".join(f"println(string_repr({rp.call_src(*cases[k])}))\n" for k in chunk)
            jobs.append({"op": "run", "src": src, "tick_limit": 1000000}); meta.append(chunk)
    res = ctx.pool.map(jobs, batch=8, timeout=20)
    executions = sum(len(m) for m in meta)
    verdict = {}                              # case idx -> result of a run of that call alone, or ("match",)
    redo, batch_line = [], {}
    for m, r in zip(meta, res):
        if "parse_errors" in r:
            raise Machinery(f"generated program does not parse: {rp.call_src(*cases[m[0]])!r} … {r['parse_errors'][0]['message']}")
        if len(m) == 1 and refs[m[0]][0] != "val":
            verdict[m[0]] = r
            continue
        lines = r.get("stdout", "").split("\n") if "outcome" in r else []
        if "outcome" in r and r["outcome"]["kind"] == "ok" and len(lines) == len(m) + 1 and lines[-1] == "":
            for k, line in zip(m, lines):
                if line == refs[k][1]:
                    verdict[k] = ("match",)
                else:
                    batch_line[k] = line
                    redo.append(k)
        else:
            redo.extend(m)                    # exception / tick limit / crash / timeout somewhere in the batch: attribute
    # ---- phase 2: every call of a disagreeing batch alone
    redo.sort()
    rres = ctx.pool.map([single_job(*cases[k]) for k in redo], batch=4, timeout=20)
    executions += len(redo)
    for k, r in zip(redo, rres):
        verdict[k] = r
    # ---- phase 3: a worker timeout is not a verdict: once more, alone, 10x
    for k in sorted(k for k, r in verdict.items() if isinstance(r, dict) and "timeout" in r):
        verdict[k] = ctx.pool.one(single_job(*cases[k]), timeout=200)
        executions += 1

    # ---- judge, in enumeration order (so the recorded instance of a signature is the simplest one)
    seen_texts, nt_matches, unspecified, pending = {}, {}, {}, []
    nontriv = 0

    def matched(n, nt, text):
        ctx.outcome("match")
        seen_texts.setdefault(n, set()).add(text)
        nt_matches[n] = nt_matches.get(n, 0) + nt

    def unspec(n, a, how):
        ctx.outcome("unspecified:" + how)
        d = unspecified.setdefault(f"{n}: {classify(n, a)}", {})
        d[how] = d.get(how, 0) + 1
    for idx, ((n, a), ref) in enumerate(zip(cases, refs)):
        r = verdict[idx]
        call = rp.call_src(n, a)
        nt = nontrivial(a)
        nontriv += nt
        if r == ("match",):
            matched(n, nt, ref[1])
            continue
        cli = f"garden run -c '{single_job(n, a)['src'].strip()}'"
        det = {"call": call, "documented": ref[1] if ref[0] == "val" else ("an exception" if ref[0] == "exc" else f"indices outside ({ref[2]}): a Garden error, or exactly the items in range: {ref[1]}" if ref[0] == "lit" else f"unspecified ({ref[1]}): value or error, must terminate")}

        def viol(what, **kw):
            pending.append((n, classify(n, a), what, dict(det, src=single_job(n, a)["src"], expect=what_expect(what), **kw), cli))

        if "timeout" in r:
            viol("does not terminate", observed="no result from the worker within 200 s (run alone)"); continue
        if "crash" in r or "panic" in r:
            viol("crash", observed=r); continue
        kind = r["outcome"]["kind"]
        out = r.get("stdout", "")
        if kind == "tick_limit":
            if ref == ("any", "huge result"):
                unspec(n, a, "huge result not finished"); continue
            viol("does not terminate", observed=f"still running after {TICKS} interpreter ticks", stopped_at=pos(r)); continue
        if kind == "ok":
            got = out[:-1] if out.endswith("\n") else out
            if ref[0] == "val":
                if got == ref[1]:
                    # only reachable for a call re-run after its batch disagreed
                    if idx in batch_line:
                        raise Machinery(f"batch and single run disagree for {call}: {batch_line[idx]!r} vs {got!r}")
                    matched(n, nt, ref[1])
                else:
                    viol("wrong value", observed=got)
            elif ref[0] == "exc":
                viol("no exception", observed=got)
            elif ref[0] == "lit":
                if got == ref[1]:
                    unspec(n, a, "value")
                    ctx.outcome("outside indices: the items in range")
                else:
                    viol("wrong value", observed=got)
            else:
                unspec(n, a, "value")
            continue
        if kind in ("exception", "assertion", "stack_limit"):
            if ref[0] == "val":
                viol("exception" if kind != "stack_limit" else "stack overflow", observed=r["outcome"].get("message"), raised_at=pos(r))
            elif ref[0] == "exc":
                ctx.outcome("exception as documented")
            else:
                unspec(n, a, "exception")
            continue
        raise Machinery(f"unexpected outcome {kind} for {call}")

    # ---- signatures: function + argument class + outcome. A class ends in ", multi-byte" when a non-ASCII character is among the
    # arguments; that tag is kept only when no ASCII-only case of the same class fails in the same way (one defect, one signature).
    MB = ", multi-byte"
    ascii_fail = {(n, c, w) for n, c, w, _, _ in pending if not c.endswith(MB)}
    for n, c, w, det, cli in pending:
        if c.endswith(MB):
            base = c[:-len(MB)]
            c = base if (n, base, w) in ascii_fail else base + ", only with multi-byte characters"
        ctx.violation(f"{n}: {c} -> {w}", det, cli_cmd=cli)

    # ---- CLI confirmation of the recorded instance of each signature (at most 24)
    for sig, v in list(sorted(ctx.violations.items()))[:24]:
        d = v["detail"]
        path = ctx.tmpfile("confirm.gdn", d["src"])
        hang = d["expect"] == "hang"
        rc, out, err = ctx.cli(["run", path], stdin=b"", timeout=2 if hang else 30)
        d["cli"] = {"exit": rc, "stdout": out[-300:], "stderr_tail": err[-300:]}
        ok = (rc == "timeout") if hang else (rc == 101 or (isinstance(rc, int) and rc < 0) or rc == 134) if d["expect"] == "crash" else \
             (rc == 0 and out.rstrip("\n") == d.get("observed")) if d["expect"] == "value" else (rc == 0 and out == "" and err != "")
        if not ok:
            raise Machinery(f"adapter drift: in-process verdict [{sig}] is not reproduced by `garden run` (exit {rc})")
        ctx.cov["cli_confirmed"] += 1

    # ---- vacuity
    for n, d in per_fun.items():
        if not ctx.violations and (len(seen_texts.get(n, ())) < 2 or not nt_matches.get(n)):
            raise Machinery(f"vacuous: {n} produced fewer than two distinct matching results, or none for non-trivial arguments")
    if not ctx.violations:
        for key in ("match", "unspecified:value", "unspecified:exception", "exception as documented"):
            if not ctx.cov["outcomes"].get(key):
                raise Machinery(f"vacuous: no case with outcome {key!r}")
    ctx.bound("cases_per_function", {n: d["cases"] for n, d in per_fun.items()})
    ctx.bound("documented_value/documented_exception/unspecified/outside_indices", [sum(d[k] for d in per_fun.values()) for k in ("val", "exc", "any", "lit")])
    ctx.bound("distinct_matching_results", {n: len(s) for n, s in sorted(seen_texts.items())})
    ctx.bound("matches_with_nontrivial_args", dict(sorted(nt_matches.items())))
    ctx.bound("unspecified_cases_observed", dict(sorted(unspecified.items())))
    ctx.add(states=len(cases), transitions=executions, nontrivial=nontriv)
    for n, a in (("String::split_once", ("a,é", ",")), ("String::substring", ("aéb", 1, MAX)), ("List::slice", ([0, 1, -1], 1, -1)), ("String::replace", ("a", "", "b"))):
        r = rp.reference(n, a)
        ctx.sample({"call": rp.call_src(n, a), "reference": r[1] if r[0] == "val" else f"unspecified ({r[1]}): must terminate with a value or an error"})
    ctx.assume("the doc comments (and the test blocks next to them) of src/__prelude.gdn are the specification; 'whitespace' in the trim family includes LF; string indices are character offsets as the comments of len/substring/index_of say")
    return (f"every argument vector over the pools for {len(per_fun)} prelude functions; value-reference calls batched <= {BATCH} per program and compared line by line with the "
            "reference's string_repr text, every disagreeing batch re-run one call per program; calls with an unspecified or exceptional reference one per program; "
            f"{TICKS}-tick budget per call. Non-trivial = no empty string and no empty list among the arguments.")


def what_expect(what):
    return {"does not terminate": "hang", "crash": "crash", "wrong value": "value", "no exception": "value"}.get(what, "error")


def pos(r):
    p = r["outcome"].get("position") or {}
    return f"{str(p.get('path', '')).split('/')[-1]}:{p.get('line_number', -1) + 1}"
