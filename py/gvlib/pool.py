"""Pool of `garden-verif verif serve` worker processes with crash / hang attribution."""
import json, os, queue, select, subprocess, threading, time

NCPU = int(os.environ.get("GV_JOBS", os.cpu_count() or 4))


class Worker:
    def __init__(self, binary, cwd, env=None, mem_gb=4):
        self.binary, self.cwd, self.env, self.mem_gb = binary, cwd, env, mem_gb
        self.p = None
        self.start()

    def start(self):
        self.kill()
        os.makedirs(self.cwd, exist_ok=True)
        keep = os.path.join(self.cwd, ".keep")
        if not os.path.exists(keep):
            open(keep, "w").close()
        # ulimit -v keeps a runaway allocation from taking the box down; -s unlimited is NOT set:
        # the default 8 MiB main-thread stack is what users get.
        cmd = f"ulimit -v {self.mem_gb * 1024 * 1024}; exec {self.binary} verif serve"
        self.p = subprocess.Popen(["/bin/sh", "-c", cmd], stdin=subprocess.PIPE, stdout=subprocess.PIPE,
                                  stderr=subprocess.DEVNULL, cwd=self.cwd, env=self.env)

    def kill(self):
        if self.p is not None:
            try:
                self.p.kill()
                self.p.wait()
            except Exception:
                pass
            self.p = None

    def call(self, payload, timeout):
        """Send one JSON line, wait for one JSON line. Returns (obj, None) or (None, reason)."""
        try:
            self.p.stdin.write((json.dumps(payload) + "\n").encode())
            self.p.stdin.flush()
        except (BrokenPipeError, OSError):
            rc = self.p.wait()
            self.start()
            return None, f"died rc={rc}"
        fd = self.p.stdout.fileno()
        deadline = time.time() + timeout
        chunks = []
        while True:
            left = deadline - time.time()
            if left <= 0:
                self.start()
                return None, "timeout"
            r, _, _ = select.select([fd], [], [], left)
            if not r:
                continue
            # 64 KiB reads: a 1 MiB read allocates and shrinks a 1 MiB bytes object per reply
            chunk = os.read(fd, 65536)
            if not chunk:
                rc = self.p.wait()
                self.start()
                return None, f"died rc={rc}"
            chunks.append(chunk)
            if chunk.endswith(b"\n"):
                buf = b"".join(chunks)
                try:
                    return json.loads(buf.decode()), None
                except ValueError as e:
                    self.start()
                    return None, f"bad reply: {e}"


class Pool:
    def __init__(self, binary, cwd, n=NCPU, env=None, mem_gb=4):
        os.makedirs(cwd, exist_ok=True)
        self.workers = [Worker(binary, cwd, env, mem_gb) for _ in range(n)]
        self.n = n
        self.crashes = 0
        self.timeouts = 0

    def close(self):
        for w in self.workers:
            w.kill()

    def map(self, jobs, batch=32, timeout=20.0, progress=None):
        """Run all jobs; result list is in job order. A job that kills or hangs its worker gets
        {"crash": reason} / {"timeout": seconds} and is attributed by re-running its batch singly."""
        jobs = list(jobs)
        results = [None] * len(jobs)
        q = queue.Queue()
        for i in range(0, len(jobs), batch):
            q.put((i, jobs[i:i + batch]))
        done = [0]
        lock = threading.Lock()

        def run(w):
            while True:
                try:
                    i, chunk = q.get_nowait()
                except queue.Empty:
                    return
                res, why = w.call(chunk, timeout * max(1, len(chunk)) if len(chunk) <= 4 else timeout * 4 + len(chunk) * 0.5)
                if res is not None and isinstance(res, list) and len(res) == len(chunk):
                    results[i:i + len(chunk)] = res
                else:
                    # attribute: run singly
                    for k, job in enumerate(chunk):
                        r1, why1 = w.call(job, timeout)
                        if r1 is None:
                            with lock:
                                if why1 == "timeout":
                                    self.timeouts += 1
                                else:
                                    self.crashes += 1
                            r1 = {"timeout": timeout} if why1 == "timeout" else {"crash": why1}
                        results[i + k] = r1
                with lock:
                    done[0] += len(chunk)
                    if progress:
                        progress(done[0], len(jobs))

        threads = [threading.Thread(target=run, args=(w,), daemon=True) for w in self.workers]
        for t in threads:
            t.start()
        for t in threads:
            t.join()
        return results

    def one(self, job, timeout=20.0):
        r, why = self.workers[0].call(job, timeout)
        if r is None:
            return {"timeout": timeout} if why == "timeout" else {"crash": why}
        return r
